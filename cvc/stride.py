"""Proof rule for index separation by Euclidean-division uniqueness.

    a = qa * M + ra,  b = qb * M + rb,   H |- 0 <= ra < M,  H |- 0 <= rb < M
    ----------------------------------------------------------------------------
                     H |- (a == b)  <=>  (qa == qb  and  ra == rb)

Used when the solver cannot decide  H and a == b  directly (indices of the form ((v * Y + row) * ngrids + column) with nonlinear products): the
rule splits the equation into equations between smaller terms, recursively.  Sound: the premises are proved (unsat of their negations) before
the conclusion is used; if a premise cannot be proved the rule does not apply.
"""
from fractions import Fraction as Q

from pyvc import terms as tm


def expand(t):
    """integer index term -> {monomial: coefficient}; monomial = sorted tuple of (atom id, exponent); atoms are everything that is not + or * or a constant"""
    t = tm.lift(t)
    atoms = {}

    def mul(p, q):
        r = {}
        for m1, c1 in p.items():
            for m2, c2 in q.items():
                d = dict(m1)
                for k, e in m2:
                    d[k] = d.get(k, 0) + e
                m = tuple(sorted(d.items()))
                r[m] = r.get(m, 0) + c1 * c2
        return {m: c for m, c in r.items() if c != 0}

    def go(u):
        if u.op == "c":
            return {(): u.args[0]} if u.args[0] != 0 else {}
        if u.op == "+":
            r = {}
            for a in u.args:
                for m, c in go(a).items():
                    r[m] = r.get(m, 0) + c
            return {m: c for m, c in r.items() if c != 0}
        if u.op == "*":
            r = {(): Q(1)}
            for a in u.args:
                r = mul(r, go(a))
            return r
        if u.op == "^" and u.args[1].op == "c" and u.args[1].args[0].denominator == 1 and u.args[1].args[0] >= 1 and u.args[1].args[0] <= 4:
            r = {(): Q(1)}
            for _ in range(int(u.args[1].args[0])):
                r = mul(r, go(u.args[0]))
            return r
        atoms[u.id] = u
        return {((u.id, 1),): Q(1)}
    return go(t), atoms


def rebuild(p, atoms):
    out = tm.ZERO
    for m, c in sorted(p.items()):
        term = tm.const(c)
        for k, e in m:
            term = term * (atoms[k] ** e if e > 1 else atoms[k])
        out = out + term
    return out


def split(t, M):
    """t = q * M + r with r free of the atom M (M: a variable or table-entry term). Returns (q, r) or None when M does not occur."""
    p, atoms = expand(t)
    M = tm.lift(M)
    atoms[M.id] = M
    q, r = {}, {}
    for m, c in p.items():
        d = dict(m)
        if d.get(M.id, 0) >= 1:
            d[M.id] -= 1
            if d[M.id] == 0:
                del d[M.id]
            q[tuple(sorted(d.items()))] = c
        else:
            r[m] = c
    if not q:
        return None
    return rebuild(q, atoms), rebuild(r, atoms)


def candidates(a, b):
    """atoms (variables / table entries) that multiply something in both index terms"""
    pa, aa = expand(a)
    pb, ab = expand(b)

    def multipliers(p):
        s = set()
        for m in p:
            if len(m) >= 2 or (len(m) == 1 and m[0][1] >= 2):
                s.update(k for k, e in m)
        return s
    common = multipliers(pa) & multipliers(pb)
    out = []
    for k in common:
        u = aa[k] if k in aa else ab[k]
        if u.op == "v" or u.op == "fi":
            out.append(u)
    # prefer plain size variables (ngrids, nlm ...) over table entries
    return sorted(out, key=lambda u: (u.op != "v", tm.show(u, 40)))


def separate(check_sat, H, a, b, budget, depth=0, log=None):
    """True when H and a == b is proved unsatisfiable through the rule (check_sat(constraints, budget) -> 'sat' | 'unsat' | other)."""
    if depth > 3:
        return False
    for M in candidates(a, b):
        sa, sb = split(a, M), split(b, M)
        if sa is None or sb is None:
            continue
        (qa, ra), (qb, rb) = sa, sb
        prem = [tm.mk_and(tm.mk_le(tm.ZERO, ra), tm.mk_lt(ra, M)), tm.mk_and(tm.mk_le(tm.ZERO, rb), tm.mk_lt(rb, M))]
        if not all(check_sat(list(H) + [tm.mk_not(g)], budget) == "unsat" for g in prem):
            continue
        if log is not None:
            log.append("modulus %s (depth %d)" % (tm.show(M, 30), depth))
        H2 = list(H) + [tm.mk_eq(ra, rb)]
        r = check_sat(H2 + [tm.mk_eq(qa, qb)], budget)
        if r == "unsat":
            return True
        if r != "sat" and separate(check_sat, H2, qa, qb, budget, depth + 1, log):
            return True
    return False
