"""Obligation generators over engine-C summaries (DESIGN 2.6).

  bounds        every read / write index lies in [0, extent) of its array, under the function's requires + loop guards
  independence  (C10) for the `omp for` variable v:  v != v'  =>  W(v) and W(v') disjoint, W(v) and R(v') disjoint, on shared arrays
  element value the final content of the element addressed by a write event:  old + sum over the non-addressing loop variables
  diff_rd       d/d(array element) of a term containing array reads and bound sums (Kronecker resolved by solving the index equation)
"""
from fractions import Fraction as Q

from pyvc import terms as tm
from pyvc import smt, vc
from pyvc.nf import NF, NFError
from .csym import CSym, Arr, Ptr, Struct, Ev, CUnsupported, fresh


def rename_qvars(ev, suffix="'"):
    """Fresh copies of the quantified variables of an event; returns (index, guards, value, mapping)."""
    m = {}
    for q in ev.qvars:
        m[q[0]] = fresh(q[0].args[0].split("#")[0] + suffix)
    # auxiliary variables introduced by strided loops (k such that v = lo + k*step) live in the guards
    aux = set()
    for g in ev.guards:
        for u in tm.free_vars(g):
            if "_k#" in u.args[0] and u not in m:
                aux.add(u)
    for u in aux:
        m[u] = fresh(u.args[0].split("#")[0] + suffix)
    idx = tm.substitute(ev.idx, m)
    guards = [tm.substitute(g, m) for g in ev.guards]
    val = tm.substitute(ev.val, m) if isinstance(ev.val, tm.T) else ev.val
    return idx, guards, val, m


def _dedupe(events):
    seen, out = set(), []
    nfc = NF()
    for e in events:
        try:
            key = (e.kind, e.arr.name, e.op if e.kind == "w" else "", nfc.canon_rf(nfc.nf(e.idx)), tuple(g.id for g in e.guards), e.par.id if e.par is not None else None)
        except NFError:
            key = (e.seq,)
        if key in seen:
            continue
        seen.add(key)
        out.append(e)
    return out


def bounds_obligations(ctx, label, sym, hyps, extents, fq, skip_private_unknown=True):
    n = 0
    for e in _dedupe(sym.events):
        ext = extents.get(e.arr.name, e.arr.extent)
        if ext is None and getattr(e.arr, "bytes", None) is not None:
            ext = tm.mk_fn("idiv", tm.lift(e.arr.bytes), tm.const(8 if e.arr.kind != "int" else 4)) if not isinstance(e.arr.bytes, int) else tm.const(e.arr.bytes // (8 if e.arr.kind != "int" else 4))
        if ext is None:
            ctx.undecided("%s.bounds[%s]" % (label, e.arr.name), "no extent known for array %s" % e.arr.name, fq)
            continue
        n += 1
        goal = tm.mk_and(tm.mk_le(tm.ZERO, e.idx), tm.mk_lt(e.idx, tm.lift(ext)))
        ctx.valid("%s.bounds[%s %s[%s]]#%d" % (label, e.kind, e.arr.name, tm.show(e.idx, 50), n), list(hyps) + list(e.guards), goal, fq)
    return n


def side_obligations(ctx, label, sym, hyps, fq):
    n = 0
    hyps = list(hyps) + [t for kind, t, g, q, w in sym.side if kind == "assume"]
    for kind, t, guards, qvars, where in sym.side:
        n += 1
        if kind == "div":
            ctx.valid("%s.nonzero-divisor#%d" % (label, n), list(hyps) + list(guards), tm.mk_not(tm.mk_eq(t, tm.ZERO)), fq)
        elif kind == "covered":
            ctx.valid("%s.scratch-read-covered-by-its-initialisation#%d" % (label, n), list(hyps) + list(guards), t, fq)
        elif kind == "shared-scalar-reduction":
            ctx.holds("%s.shared-scalar[%s]" % (label, t), False, "scalar %s is accumulated inside a worksharing loop without a reduction clause" % t, fq)
        elif kind == "shared-scalar-write":
            ctx.holds("%s.shared-scalar-write[%s]#%d" % (label, t, n), False, "scalar %s lives outside the parallel region and is written inside it by several threads (not private, no reduction)" % t, fq)
        elif kind == "assume":
            n -= 1
    return n


def side_hyps(sym):
    return [t for kind, t, g, q, w in sym.side if kind == "assume"]


def rename_local(e2, sym_assumes, keep=()):
    """Fresh copies of every variable created inside the parallel region the event belongs to (loop variables, auxiliary iteration counts,
    havocked values): the second iteration / thread of a race pair has its own.  Variables of enclosing serial loops and the team size are shared.
    Returns (index, guards, mapping, renamed copies of the assumptions that mention a renamed variable)."""
    m = {}

    def local(u):
        nm = u.args[0]
        if "#" not in nm or u in keep:
            return False
        if nm.startswith("nthreads#") or nm.startswith("maxthreads#"):
            return False
        try:
            return int(nm.rsplit("#", 1)[1]) >= e2.outer
        except ValueError:
            return False
    if e2.par is not None:
        m[e2.par] = fresh(e2.par.args[0].split("#")[0] + "'", "I")
    terms_ = [e2.idx] + list(e2.guards) + list(sym_assumes)
    for t in terms_:
        for u in tm.free_vars(t):
            if u not in m and local(u):
                m[u] = fresh(u.args[0].split("#")[0] + "'", u.args[1])
    idx = tm.substitute(e2.idx, m)
    guards = [tm.substitute(g, m) for g in e2.guards]
    extra = [tm.substitute(a, m) for a in sym_assumes if any(u in m for u in tm.free_vars(a))]
    return idx, guards, m, extra


def independence_obligations(ctx, label, sym, hyps, fq, shared=None):
    """Data-race freedom of every parallel region (A6):  two accesses to the same element of a shared array, at least one a write, made in
    the same barrier phase by (potentially) different threads.  Pairs:
      same worksharing loop            different iterations  v != v'
      thread-level code (every thread) different threads     tid != tid'
      different constructs, same phase any iteration / thread against any (no barrier orders them)
    `single` / `critical` / `atomic` blocks are executed by one thread at a time; they are compared against the other constructs of the phase."""
    hyps = list(hyps) + side_hyps(sym)
    evs = [e for e in sym.events if e.level in ("loop", "thread", "single") and not e.arr.private and (shared is None or e.arr.name in shared)]
    writes = _dedupe_l([e for e in evs if e.kind == "w"])
    reads = _dedupe_l([e for e in evs if e.kind == "r"])
    n = 0
    for i, w1 in enumerate(writes):
        others = [w for w in writes[i:] if w.arr is w1.arr and w.phase == w1.phase] + [r for r in reads if r.arr is w1.arr and r.phase == w1.phase]
        for e2 in others:
            same_construct = (e2.par is w1.par and e2.level == w1.level and e2.level in ("loop", "thread"))
            if w1.level == "single" and e2.level == "single":
                continue
            idx2, g2, _, m = rename_qvars(e2)
            cs = list(hyps) + list(w1.guards) + g2 + [tm.mk_eq(w1.idx, idx2)]
            if same_construct:
                v2 = m.get(e2.par)
                if v2 is None:
                    continue
                cs.append(tm.mk_not(tm.mk_eq(w1.par, v2)))
            n += 1
            r, env, be = smt.check_sat(cs, ctx.timeout)
            name = "%s.independent[%s %s[%s] vs %s[%s]%s]#%d" % (label, "w/w" if e2.kind == "w" else "w/r", w1.arr.name, tm.show(w1.idx, 40), e2.arr.name, tm.show(e2.idx, 40),
                                                                  "" if same_construct else " across constructs of one barrier phase", n)
            if r == "unsat":
                ctx._rec("obligation", name, vc.Verdict("discharged", be), fq)
            elif r == "sat":
                ctx._rec("obligation", name, vc.Verdict("refuted", be, "two different iterations / threads touch the same element without a barrier between them", witness=env), fq)
            else:
                ctx.undecided(name, "solver unknown", fq)
    return n


def _dedupe_l(events):
    seen, out = set(), []
    nfc = NF()
    for e in events:
        try:
            key = (e.kind, e.arr.name, e.op if e.kind == "w" else "", nfc.canon_rf(nfc.nf(e.idx)), tuple(g.id for g in e.guards), e.par.id if e.par is not None else None, e.phase, e.level)
        except NFError:
            key = (e.seq,)
        if key in seen:
            continue
        seen.add(key)
        out.append(e)
    return out


def written_arrays(sym):
    return sorted(set(e.arr.name for e in sym.events if e.kind == "w"))


def element_updates(sym, arrname, hyps, timeout=10.0):
    """For each class of write events to `arrname`: (event, addressing qvars, free qvars, total contribution to the element
    addressed by the event's own addressing variables).  Injectivity of the index in the addressing variables is checked."""
    out = []
    for e in [x for x in sym.events if x.kind == "w" and x.arr.name == arrname]:
        sub = tm.subterms(e.idx).values()
        addr = [q for q in e.qvars if q[0] in sub]
        free = [q for q in e.qvars if q[0] not in sub]
        # injectivity in the addressing variables
        idx2, g2, _, m = rename_qvars(e)
        neq = tm.mk_or(*[tm.mk_not(tm.mk_eq(q[0], m[q[0]])) for q in addr]) if addr else tm.FALSE
        inj = "vacuous"
        if addr:
            r, env, be = smt.check_sat(list(hyps) + list(e.guards) + g2 + [neq, tm.mk_eq(e.idx, idx2)], timeout)
            inj = r
        total = e.val
        # a store under a condition (other than the ranges of its own loops) contributes only where the condition holds
        ranges = set()
        for q in e.qvars:
            ranges.add(tm.mk_le(tm.lift(q[1]), q[0]).id)
            ranges.add(tm.mk_lt(q[0], tm.lift(q[2])).id)
        conds = [g for g in e.guards if tm.lift(g).id not in ranges]
        if conds and isinstance(total, tm.T):
            total = tm.mk_ite(tm.mk_and(*conds), total, tm.ZERO)
        for q in reversed(free):
            bv = fresh(q[0].args[0].split("#")[0] + "$")
            total = tm.mk_sum(bv, q[1], q[2], tm.substitute(total, {q[0]: bv}))
        out.append((e, addr, free, total, inj))
    return out


def diff_rd(t, arrname, idx0, hyps=()):
    """d t / d rd:arrname(idx0).  Reads of the same array at another index contribute the Kronecker [idx == idx0];
    inside a bound sum the Kronecker is resolved by solving idx(q) == idx0 for the bound variable (unit coefficient)."""
    nfc = NF()
    key = "rd:" + arrname
    cache = {}

    def d(u):
        r = cache.get(u.id)
        if r is not None:
            return r
        op = u.op
        if op == "f" and u.args[0] == key:
            r = tm.mk_ite(tm.mk_eq(u.args[1], idx0), tm.ONE, tm.ZERO) if not _same(nfc, u.args[1], idx0) else tm.ONE
        elif op in ("c", "v", "fi"):
            r = tm.ZERO
        elif op == "+":
            r = tm.mk_add(*[d(a) for a in u.args])
        elif op == "*":
            parts = []
            for i, a in enumerate(u.args):
                da = d(a)
                if da is not tm.ZERO:
                    parts.append(tm.mk_mul(*(u.args[:i] + (da,) + u.args[i + 1:])))
            r = tm.mk_add(*parts) if parts else tm.ZERO
        elif op == "^":
            b, e = u.args
            db = d(b)
            if d(e) is not tm.ZERO:
                raise CUnsupported("derivative of a power with variable exponent")
            r = tm.ZERO if db is tm.ZERO else tm.mk_mul(e, tm.mk_pow(b, tm.mk_add(e, tm.MONE)), db)
        elif op == "f":
            name, a = u.args[0], u.args[1]
            da = d(a)
            if da is tm.ZERO and all(d(z) is tm.ZERO for z in u.args[2:]):
                r = tm.ZERO
            elif name == "exp":
                r = tm.mk_mul(u, da)
            elif name == "log":
                r = tm.mk_mul(da, tm.mk_pow(a, tm.MONE))
            else:
                raise CUnsupported("derivative of %s" % name)
        elif op == "ite":
            r = tm.mk_ite(u.args[0], d(u.args[1]), d(u.args[2]))
        elif op == "sum":
            bv, lo, hi, body = u.args
            db = d(body)
            r = _sum_kronecker(nfc, bv, lo, hi, db)
        else:
            raise CUnsupported("derivative through %s" % op)
        cache[u.id] = r
        return r
    return d(tm.lift(t))


def _same(nfc, a, b):
    try:
        return nfc.equal(a, b)
    except NFError:
        return a is b


def _sum_kronecker(nfc, bv, lo, hi, body):
    """sum_{bv} body, where body is built from ite(idx(bv) == idx0, 1, 0) factors: resolve them when idx(bv) - idx0 = +-(bv - c)."""
    if body is tm.ZERO:
        return tm.ZERO
    conds = [c for c in tm.ite_conditions(body) if c.op == "==" and bv in tm.subterms(c).values()]
    if not conds:
        return tm.mk_sum(bv, lo, hi, body)
    c = conds[0]
    a, b = c.args
    diff = tm.mk_add(a, tm.mk_neg(b))
    # solve diff(bv) = 0: diff = s*(bv - sol) with s = +-1
    try:
        d0 = nfc.rf_to_term(nfc.nf(tm.substitute(diff, {bv: tm.ZERO})))
        d1 = nfc.rf_to_term(nfc.nf(tm.mk_add(tm.substitute(diff, {bv: tm.ONE}), tm.mk_neg(d0))))
    except NFError:
        return tm.mk_sum(bv, lo, hi, body)
    if d1 is tm.ONE:
        sol = tm.mk_neg(d0)
    elif d1 is tm.MONE:
        sol = d0
    else:
        return tm.mk_sum(bv, lo, hi, body)
    # linearity check: diff == d1*bv + d0
    if not _same(nfc, diff, tm.mk_add(tm.mk_mul(d1, bv), d0)):
        return tm.mk_sum(bv, lo, hi, body)
    hit = tm.substitute(tm.assume_conditions(body, {c: True}), {bv: sol})
    miss = tm.assume_conditions(body, {c: False})
    inrange = tm.mk_and(tm.mk_le(lo, sol), tm.mk_lt(sol, hi))
    # sum_bv body = sum_bv miss + [sol in range] * (hit(sol) - miss(sol))
    rest = _sum_kronecker(nfc, bv, lo, hi, miss) if miss is not tm.ZERO else tm.ZERO
    corr = tm.mk_add(hit, tm.mk_neg(tm.substitute(miss, {bv: sol}))) if miss is not tm.ZERO else hit
    return tm.mk_add(tm.mk_ite(inrange, corr, tm.ZERO), rest)
