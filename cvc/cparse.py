"""Engine C, front end: the real C sources of /repo through clang-14's JSON AST dump, reduced to a small IR.

Nothing is copied or rewritten by hand: every run calls
    clang-14 -fsyntax-only -fopenmp -Xclang -ast-dump=json <file>
on the file under /repo (cached per content hash under /verif/.build/ast/) and walks the resulting tree.
What the reduction drops (exhaustive): printf/fprintf/puts calls, `free`, `#pragma omp` clauses other than
private/firstprivate/reduction/schedule/collapse (none other occurs in the listed files), type qualifiers.
"""
import hashlib
import json
import os
import subprocess

VERIF = os.path.dirname(os.path.dirname(os.path.abspath(__file__)))
REPO = os.environ.get("CIDERPRESS_REPO", "/repo")
LIB = os.path.join(REPO, "ciderpress", "lib")
STUBS = os.path.join(VERIF, "cvc", "stubs")


class N(object):
    """IR node: kind + fields."""

    def __init__(self, kind, **kw):
        self.kind = kind
        self.__dict__.update(kw)

    def __repr__(self):
        return "N(%s)" % self.kind


def clang_ast(path):
    src = open(path, "rb").read()
    key = hashlib.sha256(src + path.encode() + b"v3-omp-lines").hexdigest()[:20]
    cdir = os.path.join(VERIF, ".build", "ast")
    os.makedirs(cdir, exist_ok=True)
    cpath = os.path.join(cdir, key + ".json")
    if os.path.exists(cpath):
        try:
            return json.load(open(cpath))
        except ValueError:
            os.unlink(cpath)
    d = os.path.dirname(path)
    cmd = ["clang-14", "-fsyntax-only", "-fopenmp", "-w", "-I" + STUBS, "-I" + d,
           "-I" + os.path.join(LIB, "mod_cider"), "-I" + os.path.join(LIB, "fft_wrapper"),
           "-I/venv/lib/python3.12/site-packages/pyscf/lib", "-I/venv/lib/python3.12/site-packages/pyscf/lib/deps/include", "-Xclang", "-ast-dump=json", path]
    p = subprocess.run(cmd, capture_output=True, text=True)
    if p.returncode != 0 or not p.stdout.strip():
        raise RuntimeError("clang failed on %s: %s" % (path, p.stderr[-800:]))
    tree = json.loads(p.stdout)
    _mark_omp_lines(tree, path)
    slim = _slim(tree)
    tmp = cpath + ".tmp%d" % os.getpid()
    json.dump(slim, open(tmp, "w"))
    os.replace(tmp, cpath)
    return slim


def _mark_omp_lines(tree, path):
    """clang's JSON dump omits the kind of OpenMP clauses.  Recover the pragma text: line numbers are printed only when they change, in
    document order, so one ordered walk over the raw dump tracks the current line; every OMP directive node gets the text of its source line(s)."""
    try:
        lines = open(path, errors="replace").read().split("\n")
    except OSError:
        lines = []
    state = {"line": 0, "file_main": True}

    def pragma_text(ln):
        out = []
        i = ln - 1
        while 0 <= i < len(lines):
            out.append(lines[i].rstrip("\\").strip())
            if not lines[i].rstrip().endswith("\\"):
                break
            i += 1
        return " ".join(out)

    def walk(n):
        if isinstance(n, dict):
            kind = n.get("kind", "")
            is_omp = isinstance(kind, str) and kind.startswith("OMP") and kind.endswith("Directive")
            text = None
            for k, v in list(n.items()):
                if k == "line" and isinstance(v, int):
                    state["line"] = v
                elif k == "inner":
                    if is_omp and text is None:
                        text = pragma_text(state["line"])
                    walk(v)
                else:
                    walk(v)
            if is_omp:
                n["ompText"] = text if text is not None else pragma_text(state["line"])
        elif isinstance(n, list):
            for c in n:
                walk(c)
    walk(tree)
    # the "inner" key comes after loc/range in clang's output, so the line seen when entering "inner" is the directive's own line


_KEEP = ("ompText", "kind", "name", "opcode", "value", "isPostfix", "castKind", "inner", "referencedDecl", "type", "id", "init", "isArrow",
         "tagUsed", "storageClass", "hasElse", "isImplicit", "argType")


def _slim(n, from_main=[True]):
    """Drop location noise; keep only declarations that come from the main file or are structs/typedefs."""
    if isinstance(n, dict):
        out = {}
        for k in _KEEP:
            if k in n:
                v = n[k]
                if k == "inner":
                    v = [_slim(c) for c in v]
                elif k == "referencedDecl":
                    v = {"name": v.get("name"), "id": v.get("id"), "kind": v.get("kind"), "type": v.get("type", {}).get("qualType")}
                elif k == "type":
                    v = {"qualType": v.get("qualType")}
                elif k == "argType":
                    v = {"qualType": v.get("qualType")}
                out[k] = v
        if n.get("kind") == "TranslationUnitDecl":
            keep = []
            for c in out.get("inner", []):
                if c.get("kind") in ("RecordDecl", "TypedefDecl", "EnumDecl") or (c.get("kind") in ("FunctionDecl", "VarDecl") and _has_body_or_init(c)):
                    keep.append(c)
            out["inner"] = keep
        return out
    return n


def _has_body_or_init(c):
    if c.get("kind") == "FunctionDecl":
        return any(x.get("kind") == "CompoundStmt" for x in c.get("inner", []))
    return True


class TU(object):
    """One translation unit: functions by name, struct layouts, file-level constants."""

    def __init__(self, relpath):
        self.relpath = relpath
        self.path = os.path.join(LIB, relpath)
        self.tree = clang_ast(self.path)
        self.functions = {}
        self.structs = {}
        self.typedefs = {}
        self.globals = {}
        pending = None
        for c in self.tree.get("inner", []):
            k = c.get("kind")
            if k == "FunctionDecl":
                self.functions[c["name"]] = c
            elif k == "RecordDecl":
                fields = [(f["name"], f["type"]["qualType"]) for f in c.get("inner", []) if f.get("kind") == "FieldDecl"]
                if c.get("name"):
                    self.structs[c["name"]] = fields
                pending = fields if not c.get("name") else None
                continue
            elif k == "TypedefDecl":
                self.typedefs[c["name"]] = c["type"]["qualType"]
                # `typedef struct { ... } name;`: the anonymous record immediately precedes its typedef
                if pending is not None and ("unnamed" in c["type"]["qualType"] or "anonymous" in c["type"]["qualType"] or c["type"]["qualType"].startswith("struct ")):
                    self.structs[c["name"]] = pending
            elif k == "VarDecl":
                self.globals[c["name"]] = c
            pending = None

    def function(self, name):
        if name not in self.functions:
            raise KeyError("function %s not found in %s" % (name, self.relpath))
        return self.functions[name]

    def params(self, name):
        f = self.function(name)
        return [(p["name"], p["type"]["qualType"]) for p in f.get("inner", []) if p.get("kind") == "ParmVarDecl"]

    def body(self, name):
        f = self.function(name)
        for c in f.get("inner", []):
            if c.get("kind") == "CompoundStmt":
                return c
        raise KeyError("no body for %s" % name)


_TUS = {}


def load(relpath):
    if relpath not in _TUS:
        _TUS[relpath] = TU(relpath)
    return _TUS[relpath]
