/* Stub of fftw3.h for parsing cider_fft.c with clang (FFTW is not installed in this sandbox).
   Only the declarations cider_fft.c uses; FFTW's behaviour is an assumed external contract. */
#ifndef FFTW3_STUB_H
#define FFTW3_STUB_H
#include <stddef.h>
typedef double fftw_complex[2];
typedef struct fftw_plan_s *fftw_plan;
#define FFTW_FORWARD (-1)
#define FFTW_BACKWARD (+1)
#define FFTW_MEASURE (0U)
#define FFTW_ESTIMATE (1U << 6)
#define FFTW_PATIENT (1U << 5)
#define FFTW_EXHAUSTIVE (1U << 3)
#define FFTW_DESTROY_INPUT (1U << 0)
#define FFTW_PRESERVE_INPUT (1U << 4)
#define FFTW_UNALIGNED (1U << 1)
void *fftw_malloc(size_t n);
void fftw_free(void *p);
double *fftw_alloc_real(size_t n);
fftw_complex *fftw_alloc_complex(size_t n);
int fftw_init_threads(void);
void fftw_plan_with_nthreads(int nthreads);
int fftw_planner_nthreads(void);
void fftw_cleanup_threads(void);
void fftw_execute(const fftw_plan p);
void fftw_destroy_plan(fftw_plan p);
fftw_plan fftw_plan_many_dft(int rank, const int *n, int howmany, fftw_complex *in, const int *inembed, int istride, int idist,
                             fftw_complex *out, const int *onembed, int ostride, int odist, int sign, unsigned flags);
fftw_plan fftw_plan_many_dft_r2c(int rank, const int *n, int howmany, double *in, const int *inembed, int istride, int idist,
                                 fftw_complex *out, const int *onembed, int ostride, int odist, unsigned flags);
fftw_plan fftw_plan_many_dft_c2r(int rank, const int *n, int howmany, fftw_complex *in, const int *inembed, int istride, int idist,
                                 double *out, const int *onembed, int ostride, int odist, unsigned flags);
#endif
