/* Stub of omp.h for parsing with clang (gcc's omp.h uses attributes clang 14 rejects). Runtime functions only. */
#ifndef OMP_STUB_H
#define OMP_STUB_H
int omp_get_thread_num(void);
int omp_get_num_threads(void);
int omp_get_max_threads(void);
void omp_set_num_threads(int n);
int omp_in_parallel(void);
double omp_get_wtime(void);
#endif
