"""Engine C: symbolic execution of C functions (clang JSON AST) into *summaries* with quantified loop variables.

Every counted loop whose bounds are not small constants is executed once for a *generic iteration* v (a fresh integer
variable with lo <= v < hi).  Scalars carried around the loop are found, and their per-iteration increments d(v) inferred:
   s(v) = s0 + c*(v-lo)/step   (induction variable, c loop invariant)      or     s(v) = s0 + sum_{v'<v} d(v')   (reduction)
and the body is then re-executed with s(v) as entry value, which *is* the inductive check of the inferred form
(entry form + increment = entry form at v+step).  Any other loop-carried update leaves the supported subset.

The result of a function is a list of memory events
   Ev(kind r|w, array, index term, op (= += -= *= ...), value term, guards, qvars [(v, lo, hi, step)], par (the omp-for variable))
from which the obligation generators in cvc.oblig derive bounds, integer-overflow, iteration-independence, value and
adjointness conditions.  Arrays are unbounded maps; reads of locations not written earlier in the function are
uninterpreted `rd:<array>(index)` (double arrays) or `<array>[index]` integer functions (int arrays).

Assumptions (A5, A6 of DESIGN.md): int is mathematical in index arithmetic (overflow is a separate obligation); double is
real; variables declared inside an `omp parallel` region are private; distinct pointer parameters do not alias unless the
contract says so; calls to dgemm_ are atomic events with the reference-BLAS meaning.
"""
import re
from fractions import Fraction as Q

from pyvc import terms as tm
from pyvc import smt
from pyvc.nf import NF, NFError
from pyvc.terms import T


class CUnsupported(Exception):
    pass


class Arr(object):
    def __init__(self, name, kind="double", extent=None, private=False, origin="param"):
        self.name = name
        self.kind = kind          # 'double' | 'int' | 'ptr' | 'char' | 'complex'
        self.extent = extent      # integer term (number of elements) or None = unknown
        self.private = private    # thread-private (allocated / declared inside a parallel region)
        self.origin = origin
        self.extra_subarrays = {}
        self.elem_kind = "double"
        self.elem_extent = None

    def __repr__(self):
        return "<arr %s>" % self.name


class Ptr(object):
    def __init__(self, arr, off=tm.ZERO):
        self.arr = arr
        self.off = tm.lift(off)

    def __repr__(self):
        return "&%s[%s]" % (self.arr.name, tm.show(self.off, 60))


class Struct(object):
    def __init__(self, name, fields):
        self.name = name
        self.fields = fields      # field name -> value (int term, Ptr, Struct ...)


class Cx(object):
    """A C99 complex value as a pair of real values (exact arithmetic on the two components)."""

    def __init__(self, re, im):
        self.re, self.im = re, im

    def __repr__(self):
        return "Cx(%s, %s)" % (self.re, self.im)


def as_cx(v):
    return v if isinstance(v, Cx) else Cx(v, 0)


class Ev(object):
    __slots__ = ("kind", "arr", "idx", "op", "val", "guards", "qvars", "par", "seq", "fn", "extra", "phase", "level", "outer", "par_extra")

    def __init__(self, kind, arr, idx, op, val, guards, qvars, par, seq, fn, extra=None):
        self.kind, self.arr, self.idx, self.op, self.val = kind, arr, idx, op, val
        self.guards, self.qvars, self.par, self.seq, self.fn, self.extra = tuple(guards), tuple(qvars), par, seq, fn, extra
        self.phase, self.level = 0, "serial"   # level: serial | loop (worksharing iteration) | thread (every thread) | single
        self.outer = 0                          # value of the fresh-variable counter when the enclosing parallel region was entered
        self.par_extra = ()                     # further collapsed loop variables of the worksharing construct

    def __repr__(self):
        return "%s %s[%s] %s %s | q=%s g=%s" % (self.kind, self.arr.name, tm.show(self.idx, 80), self.op or "", tm.show(self.val, 80) if isinstance(self.val, T) else "",
                                               [q[0].args[0] for q in self.qvars], [tm.show(g, 40) for g in self.guards])


class _Return(Exception):
    def __init__(self, v):
        self.v = v


class _Break(Exception):
    pass


class _Continue(Exception):
    pass


UNROLL_MAX = 16
_FRESH = [0]


def fresh(prefix, sort="I"):
    _FRESH[0] += 1
    return tm.var("%s#%d" % (prefix, _FRESH[0]), sort)


def is_int_type(t):
    t = t.replace("const ", "").replace("unsigned ", "").strip()
    return t in ("int", "long", "size_t", "char", "short", "long long", "uint8_t", "int64_t", "int32_t", "unsigned", "_Bool", "unsigned long", "unsigned int", "ptrdiff_t")


def is_real_type(t):
    t = t.replace("const ", "").strip()
    return t in ("double", "float", "long double")


def cdiv_int(a, b):
    if isinstance(a, int) and isinstance(b, int):
        if b == 0:
            raise CUnsupported("division by zero constant")
        q = abs(a) // abs(b)
        return q if (a >= 0) == (b >= 0) else -q
    return tm.mk_fn("idiv", tm.lift(a), tm.lift(b))


def closed_trunc(v):
    """(int) of a closed real term (no variables, e.g. sqrt(24) + 1e-7): evaluated with 60 digits; None when it is within 1e-30 of an integer."""
    t = tm.lift(v)
    if tm.free_vars(t):
        return None
    try:
        import mpmath
        mp = mpmath.mp.clone()
        mp.dps = 60
        x = tm.evaluate(t, {}, mp)
    except Exception:
        return None
    if abs(x - mp.nint(x)) < mp.mpf(10) ** -30:
        return None
    return int(mp.floor(x)) if x >= 0 else -int(mp.floor(-x))


def as_int(v):
    if isinstance(v, T) and v.op == "c" and v.args[0].denominator == 1:
        return int(v.args[0])
    if isinstance(v, Q) and v.denominator == 1:
        return int(v)
    return v


class CSym(object):
    def __init__(self, tus, contracts=None, footprint=False):
        self.tus = tus if isinstance(tus, list) else [tus]
        self.contracts = contracts or {}      # function name -> python callable(sym, args) replacing the body (callee contract)
        # footprint mode (C10): only the read / write *sets* matter.  Values of double locations are never forwarded (a read of a location
        # written earlier yields an unconstrained real), loop-carried real scalars with a non-additive update are havocked.
        self.footprint = footprint
        self.literal_names = {}     # name -> (float value, exact term): decimal literals read as the irrational number they round (assumption, opt-in)
        self.literals_used = set()
        self.global_arrays = {}
        self.genv_entry = {}
        self.genv = {}                        # file-scope variables that are not const: value at the current point (entry value = arbitrary: any call history)
        self.ghost = {}                       # ghost state attached by callee contracts to objects (keyed by variable name)
        self._isqrt = {}
        self.isqrt_defs = {}     # name of an integer-square-root variable -> its radicand (for exact evaluation on concrete inputs)
        self.monotone_tables = set()   # names of int location tables assumed non-decreasing and non-negative (a requires clause of the caller)
        self.hyps = []                        # the function's `requires` (used when separating a read from an earlier write)
        self.private_names = set()            # scalars / pointers declared inside a parallel region or named in private-like clauses
        self.in_single = 0
        self.phase = 0                        # barrier phase counter (explicit barriers, end of omp for / single, region boundaries)
        self.team = None                      # (tid, nthreads) of the current parallel region
        self.region_start = 0
        self.par_extra = []
        self.collapse_pending = 0
        self.max_threads = None
        self.events = []
        self.guards = []
        self.qvars = []
        self.par = None
        self.in_parallel = 0
        self.seq = 0
        self.dry = 0
        self.fn_stack = []
        self.assumptions = []
        self.side = []            # side obligations: (kind, term, guards, qvars, where)
        self.n_malloc = 0
        self.nf = NF()
        self.max_inline_depth = 12
        self.thread_id = None
        self.nthreads = None

    # ------------------------------------------------------------------ helpers
    def find_function(self, name):
        for tu in self.tus:
            if name in tu.functions:
                return tu, tu.functions[name]
        return None, None

    def canon(self, t):
        try:
            return self.nf.canon_rf(self.nf.nf(tm.lift(t)))
        except NFError:
            return "?%d" % tm.lift(t).id

    def same_index(self, a, b):
        a, b = tm.lift(a), tm.lift(b)
        if a is b:
            return True
        try:
            return self.nf.equal(a, b)
        except NFError:
            return False

    def emit(self, kind, ptr, op=None, val=None, extra=None):
        if self.dry:
            return
        self.seq += 1
        par, qv, gd, level = self.par, self.qvars, self.guards, "serial"
        if self.par is not None:
            level = "loop"
        elif self.in_parallel and self.in_single:
            level = "single"
        elif self.in_parallel and self.team is not None:
            # code of a parallel region outside any worksharing construct: executed by every thread of the team
            tid, nth = self.team
            par, level = tid, "thread"
            qv = [(tid, tm.ZERO, nth, tm.ONE)] + list(self.qvars)
            gd = [tm.mk_le(tm.ZERO, tid), tm.mk_lt(tid, nth)] + list(self.guards)
        if extra is None and getattr(self, "in_critical", 0) and self.in_parallel and self.par is None:
            extra = ("every-thread-exclusive",)     # critical / atomic code outside any worksharing loop: run once by EVERY thread of the team
        e = Ev(kind, ptr.arr, ptr.off, op, val, gd, qv, par, self.seq, self.fn_stack[-1] if self.fn_stack else "?", extra)
        e.phase, e.level = self.phase, level
        e.outer = self.region_start if self.in_parallel else 0
        e.par_extra = tuple(self.par_extra)
        self.events.append(e)

    # ------------------------------------------------------------------ entry
    def run(self, fname, args):
        """args: dict parameter name -> int/term/Ptr/Struct.  Returns the return value; events are in self.events."""
        tu, f = self.find_function(fname)
        if f is None:
            raise CUnsupported("function %s not found" % fname)
        params = [(p["name"], p["type"]["qualType"]) for p in f.get("inner", []) if p.get("kind") == "ParmVarDecl"]
        env = {}
        for name, ty in params:
            if name not in args:
                raise CUnsupported("no value for parameter %s of %s" % (name, fname))
            env[name] = args[name]
        return self.call_body(tu, f, env)

    def call_body(self, tu, f, env):
        body = [c for c in f.get("inner", []) if c.get("kind") == "CompoundStmt"][0]
        self.fn_stack.append(f["name"])
        if len(self.fn_stack) > self.max_inline_depth:
            raise CUnsupported("inlining depth")
        try:
            self.exec(body, env, tu)
        except _Return as r:
            return r.v
        finally:
            self.fn_stack.pop()
        return None

    # ------------------------------------------------------------------ statements
    def exec(self, n, env, tu):
        k = n.get("kind")
        m = getattr(self, "s_" + k, None)
        if m is None:
            # expression statement
            if k.endswith("Operator") or k in ("CallExpr", "ParenExpr", "ImplicitCastExpr", "CStyleCastExpr", "DeclRefExpr", "ConditionalOperator"):
                self.rvalue(n, env, tu)
                return
            raise CUnsupported("statement %s in %s" % (k, self.fn_stack[-1]))
        m(n, env, tu)

    def s_CompoundStmt(self, n, env, tu):
        pushed = 0
        try:
            for c in n.get("inner", []):
                if c.get("kind") == "IfStmt" and len(c.get("inner", [])) == 2 and self._only_continue(c["inner"][1]) and id(n) in getattr(self, "loop_bodies", ()):
                    # `if (cond) continue;` at the top level of a loop body: the rest of the body runs under not(cond)
                    cond = self.truth(self.rvalue(c["inner"][0], env, tu))
                    if cond is True:
                        raise _Continue()
                    if cond is False:
                        continue
                    self.guards.append(tm.mk_not(cond))
                    pushed += 1
                    continue
                in_loop = id(n) in getattr(self, "loop_bodies", ())
                if c.get("kind") == "IfStmt" and len(c.get("inner", [])) == 2 and \
                        ((self._ends_with_void_return(c["inner"][1]) and not in_loop and not self.in_parallel) or (in_loop and self._ends_with_void_return(c["inner"][1], "ContinueStmt"))):
                    # `if (cond) { ...; return; }` in a function body (early exit): the block runs under cond, the REST of the body under not(cond)
                    cond = self.truth(self.rvalue(c["inner"][0], env, tu))
                    if cond is not True and cond is not False:
                        blk = [x for x in c["inner"][1].get("inner", []) if x.get("kind") not in ("NullStmt", "ReturnStmt", "ContinueStmt")] if c["inner"][1].get("kind") == "CompoundStmt" else []
                        e1 = dict(env)
                        self.guards.append(cond)
                        try:
                            for x in blk:
                                self.exec(x, e1, tu)
                        finally:
                            self.guards.pop()
                        self.guards.append(tm.mk_not(cond))
                        pushed += 1
                        continue
                self.exec(c, env, tu)
        finally:
            for _ in range(pushed):
                self.guards.pop()

    @staticmethod
    def _ends_with_void_return(n, last="ReturnStmt"):
        """a block `{ stmts; return; }` (or `{ stmts; continue; }` with last = ContinueStmt) whose other statements contain no return / break / continue"""
        def has_jump(x):
            if x.get("kind") in ("ReturnStmt", "BreakStmt", "ContinueStmt", "GotoStmt"):
                return True
            return any(has_jump(y) for y in x.get("inner", []) if isinstance(y, dict))
        if n.get("kind") == last:
            return not n.get("inner")
        if n.get("kind") != "CompoundStmt":
            return False
        inner = [x for x in n.get("inner", []) if x.get("kind") != "NullStmt"]
        return bool(inner) and inner[-1].get("kind") == last and not inner[-1].get("inner") and not any(has_jump(x) for x in inner[:-1])

    @staticmethod
    def _only_continue(n):
        if n.get("kind") == "ContinueStmt":
            return True
        if n.get("kind") == "CompoundStmt":
            inner = [x for x in n.get("inner", []) if x.get("kind") != "NullStmt"]
            return len(inner) == 1 and inner[0].get("kind") == "ContinueStmt"
        return False

    def s_NullStmt(self, n, env, tu):
        pass

    def s_DeclStmt(self, n, env, tu):
        for d in n.get("inner", []):
            if d.get("kind") != "VarDecl":
                continue
            name, ty = d["name"], d["type"]["qualType"]
            inner = d.get("inner", [])
            if self.in_parallel:
                self.private_names.add(name)
            else:
                self.private_names.discard(name)
            if ty.endswith("]"):
                # local array: double buf[N]
                base, _, dim = ty.partition("[")
                dims = [x.strip("]") for x in ty[len(base):].replace("][", "] [").split() if x]
                dims = [int(x.strip("[]")) for x in dims if x.strip("[]").isdigit()]
                size = 1
                for x in dims:
                    size *= x
                arr = Arr("%s.%s" % (self.fn_stack[-1], name), "double" if "double" in base else "int", tm.const(size), private=self.in_parallel > 0, origin="local")
                env[name] = Ptr(arr)
                if inner and inner[0].get("kind") == "InitListExpr":
                    for i, e in enumerate(inner[0].get("inner", [])):
                        self.store(Ptr(arr, tm.const(i)), "=", self.rvalue(e, env, tu))
                continue
            if inner:
                v = self.rvalue(inner[0], env, tu)
                env[name] = self.coerce(v, ty)
            else:
                env[name] = Undef(name)
                base = ty.replace("const ", "").strip()
                for t_ in self.tus:
                    b2 = t_.typedefs.get(base, base).replace("struct ", "")
                    if "*" not in base and b2 in t_.structs:
                        # a struct object with indeterminate fields
                        env[name] = Struct(b2, {f: Undef(f) for f, _ in t_.structs[b2]})
                        break

    def coerce(self, v, ty):
        if isinstance(v, (Ptr, Struct, Undef)) or v is None:
            return v
        if "_Complex" in ty and "*" not in ty:
            return as_cx(v)
        if isinstance(v, Cx):
            return v.re if "*" not in ty else v
        if isinstance(v, T) and v.is_bool:
            # C: the value of a comparison / logical expression is the int 1 or 0
            return tm.mk_ite(v, tm.ONE, tm.ZERO)
        if is_int_type(ty) and isinstance(v, T) and not _is_int_term(v):
            return tm.mk_fn("trunc", v)
        return v

    def s_ReturnStmt(self, n, env, tu):
        inner = n.get("inner", [])
        raise _Return(self.rvalue(inner[0], env, tu) if inner else None)

    def s_BreakStmt(self, n, env, tu):
        raise _Break()

    def s_ContinueStmt(self, n, env, tu):
        raise _Continue()

    def s_IfStmt(self, n, env, tu):
        inner = n["inner"]
        c = self.truth(self.rvalue(inner[0], env, tu))
        if c is True:
            self.exec(inner[1], env, tu)
            return
        if c is False:
            if len(inner) > 2:
                self.exec(inner[2], env, tu)
            return
        # symbolic: execute both sides under guards and merge scalar state
        e1, e2 = dict(env), dict(env)
        g0 = dict(self.genv)
        self.guards.append(c)
        try:
            r1 = self._branch(inner[1], e1, tu)
        finally:
            self.guards.pop()
        g1 = self.genv
        self.genv = dict(g0)
        self.guards.append(tm.mk_not(c))
        try:
            r2 = self._branch(inner[2], e2, tu) if len(inner) > 2 else None
        finally:
            self.guards.pop()
        g2 = self.genv
        if r1 is not None or r2 is not None:
            raise CUnsupported("return/break under a symbolic condition")
        self.genv = {}
        for name in set(g1) | set(g2):
            a, b = g1.get(name, self.genv_entry.get(name)), g2.get(name, self.genv_entry.get(name))
            if a is b:
                self.genv[name] = a
            elif isinstance(a, (int, Q, T)) and isinstance(b, (int, Q, T)):
                self.genv[name] = tm.mk_ite(c, tm.lift(a), tm.lift(b))
            else:
                raise CUnsupported("file-scope variable %s assigned a non-scalar under a symbolic condition" % name)
        for name in set(e1) | set(e2):
            a, b = e1.get(name), e2.get(name)
            if a is b:
                env[name] = a
            elif isinstance(a, (int, Q, T)) and isinstance(b, (int, Q, T)):
                env[name] = tm.mk_ite(c, tm.lift(a), tm.lift(b))
            elif isinstance(a, Ptr) and isinstance(b, Ptr) and a.arr is b.arr:
                env[name] = Ptr(a.arr, tm.mk_ite(c, a.off, b.off))
            elif name in env:
                env[name] = Undef(name)

    def _branch(self, n, env, tu):
        try:
            self.exec(n, env, tu)
        except (_Return, _Break, _Continue) as e:
            return e
        return None

    def s_SwitchStmt(self, n, env, tu):
        inner = n["inner"]
        v = as_int(self.rvalue(inner[0], env, tu))
        if not isinstance(v, int):
            raise CUnsupported("switch on a symbolic value (fix it in the contract)")
        body = inner[1].get("inner", [])
        # flatten case labels: CaseStmt(inner=[ConstantExpr, stmt]) possibly nested
        active = False
        matched = any(self._case_matches(s, v, env, tu) for s in body)
        try:
            for s in body:
                stmts = [s]
                while stmts:
                    s2 = stmts.pop(0)
                    if s2.get("kind") == "CaseStmt":
                        cv = as_int(self.rvalue(s2["inner"][0], env, tu))
                        if cv == v:
                            active = True
                        stmts = list(s2["inner"][1:]) + stmts
                        continue
                    if s2.get("kind") == "DefaultStmt":
                        if not matched:
                            active = True
                        stmts = list(s2["inner"]) + stmts
                        continue
                    if active:
                        self.exec(s2, env, tu)
        except _Break:
            pass

    def _case_matches(self, s, v, env, tu):
        while s.get("kind") in ("CaseStmt", "DefaultStmt"):
            if s.get("kind") == "CaseStmt" and as_int(self.rvalue(s["inner"][0], env, tu)) == v:
                return True
            s = s["inner"][-1]
        return False

    def s_WhileStmt(self, n, env, tu):
        cnt = 0
        while True:
            c = self.truth(self.rvalue(n["inner"][0], env, tu))
            if c is False:
                break
            if c is not True:
                raise CUnsupported("while loop with a symbolic condition")
            cnt += 1
            if cnt > 10000:
                raise CUnsupported("while loop bound")
            try:
                self.exec(n["inner"][1], env, tu)
            except _Break:
                break
            except _Continue:
                continue

    # ---- OpenMP
    def _omp_stmt(self, n):
        for c in n.get("inner", []):
            if c.get("kind") == "CapturedStmt":
                cd = c["inner"][0]
                return cd["inner"][0] if cd.get("kind") == "CapturedDecl" else cd
        for c in n.get("inner", []):
            if c.get("kind", "").endswith("Stmt"):
                return c
        raise CUnsupported("omp directive without a statement")

    def _omp_clauses(self, n):
        """Clauses of a directive, parsed from the pragma text recovered by the front end (clang's JSON dump does not name clause kinds)."""
        import re
        text = n.get("ompText", "") or ""
        out = {"text": text}
        if "pragma" not in text or "omp" not in text:
            # a pragma produced by a macro expansion: the text of the expansion line carries no clause information
            out["unknown"] = True
            return out
        for key, name in (("OMPPrivateClause", "private"), ("OMPFirstprivateClause", "firstprivate"), ("OMPLastprivateClause", "lastprivate"), ("OMPSharedClause", "shared")):
            for m in re.finditer(r"\b%s\s*\(([^)]*)\)" % name, text):
                out.setdefault(key, []).extend(x.strip() for x in m.group(1).split(",") if x.strip())
        for m in re.finditer(r"\breduction\s*\(\s*([^:]+):([^)]*)\)", text):
            out.setdefault("OMPReductionClause", []).extend(x.strip() for x in m.group(2).split(",") if x.strip())
        m = re.search(r"\bcollapse\s*\(\s*(\d+)\s*\)", text)
        if m:
            out["collapse"] = int(m.group(1))
        if re.search(r"\bnowait\b", text):
            out["nowait"] = True
        return out

    def _enter_region(self, cl):
        if self.in_parallel:
            raise CUnsupported("nested parallel regions")
        self.in_parallel += 1
        self.phase += 1
        self.team = (fresh("tid"), fresh("nthreads"))
        self.region_start = _FRESH[0] + 1
        self.thread_id, self.nthreads = self.team
        self.side.append(("assume", tm.mk_le(tm.ONE, self.team[1]), (), (), self.fn_stack[-1]))
        for k in ("OMPPrivateClause", "OMPFirstprivateClause", "OMPReductionClause", "OMPLastprivateClause"):
            for nm in cl.get(k, []):
                self.private_names.add(nm)

    def _leave_region(self):
        self.in_parallel -= 1
        self.phase += 1
        self.team = None
        self.thread_id = self.nthreads = None

    def s_OMPParallelDirective(self, n, env, tu):
        cl = self._omp_clauses(n)
        self._enter_region(cl)
        before = set(env)
        try:
            self.exec(self._omp_stmt(n), env, tu)
        finally:
            self._leave_region()
        # variables declared inside the region are private and die with it
        for k in list(env):
            if k not in before:
                del env[k]

    def s_OMPForDirective(self, n, env, tu):
        cl = self._omp_clauses(n)
        st = self._omp_stmt(n)
        if st.get("kind") != "ForStmt":
            raise CUnsupported("omp for on a non-for statement")
        added = [nm for k in ("OMPPrivateClause", "OMPFirstprivateClause", "OMPReductionClause", "OMPLastprivateClause") for nm in cl.get(k, []) if nm not in self.private_names]
        self.private_names.update(added)
        try:
            self.exec_for(st, env, tu, parallel=True, clauses=cl)
        finally:
            self.private_names.difference_update(added)
        if not cl.get("nowait"):
            self.phase += 1     # implicit barrier at the end of the worksharing loop

    def s_OMPParallelForDirective(self, n, env, tu):
        cl = self._omp_clauses(n)
        self._enter_region(cl)
        try:
            st = self._omp_stmt(n)
            self.exec_for(st, env, tu, parallel=True, clauses=cl)
        finally:
            self._leave_region()

    def s_OMPBarrierDirective(self, n, env, tu):
        self.phase += 1

    def s_OMPCriticalDirective(self, n, env, tu):
        self.in_single += 1
        self.in_critical = getattr(self, "in_critical", 0) + 1
        try:
            self.exec(self._omp_stmt(n), env, tu)
        finally:
            self.in_single -= 1
            self.in_critical -= 1

    def s_OMPAtomicDirective(self, n, env, tu):
        self.in_single += 1
        self.in_critical = getattr(self, "in_critical", 0) + 1
        try:
            self.exec(self._omp_stmt(n), env, tu)
        finally:
            self.in_single -= 1
            self.in_critical -= 1

    def s_OMPSingleDirective(self, n, env, tu):
        self.in_single += 1
        try:
            self.exec(self._omp_stmt(n), env, tu)
        finally:
            self.in_single -= 1
        if not self._omp_clauses(n).get("nowait"):
            self.phase += 1     # implicit barrier at the end of single

    def s_OMPMasterDirective(self, n, env, tu):
        self.in_single += 1
        try:
            self.exec(self._omp_stmt(n), env, tu)
        finally:
            self.in_single -= 1

    def s_ForStmt(self, n, env, tu):
        self.exec_for(n, env, tu, parallel=False, clauses={})

    # ------------------------------------------------------------------ loops
    def _loop_header(self, n, env, tu):
        inner = n["inner"]
        init, cond, inc, body = inner[0], inner[2], inner[3], inner[4]
        if init and init.get("kind"):
            self.exec(init, env, tu)
        # condition  v < hi | v <= hi | v > lo | v >= lo
        c = _strip(cond)
        if c.get("kind") != "BinaryOperator" or c.get("opcode") not in ("<", "<=", ">", ">=", "!="):
            raise CUnsupported("loop condition %s" % c.get("opcode"))
        lhs = _strip(c["inner"][0])
        if lhs.get("kind") != "DeclRefExpr":
            raise CUnsupported("loop condition lhs")
        var = lhs["referencedDecl"]["name"]
        bound = self.rvalue(c["inner"][1], env, tu)
        # increment; `v++, w++` : the first operand drives the loop, the others are executed at the end of every iteration
        i = _strip(inc)
        tail = []
        while i.get("kind") == "BinaryOperator" and i.get("opcode") == ",":
            tail.insert(0, i["inner"][1])
            i = _strip(i["inner"][0])
        if tail:
            body = {"kind": "CompoundStmt", "inner": [body] + tail}
        step = None
        if i.get("kind") == "UnaryOperator" and i.get("opcode") in ("++", "--"):
            step = 1 if i["opcode"] == "++" else -1
        elif i.get("kind") == "CompoundAssignOperator" and i.get("opcode") in ("+=", "-="):
            s = as_int(self.rvalue(i["inner"][1], env, tu))
            step = s if i["opcode"] == "+=" else (-s if isinstance(s, int) else tm.mk_neg(tm.lift(s)))
        elif i.get("kind") == "BinaryOperator" and i.get("opcode") == "=":
            rhs = _strip(i["inner"][1])
            if rhs.get("kind") == "BinaryOperator" and rhs.get("opcode") == "+":
                s = as_int(self.rvalue(rhs["inner"][1], env, tu))
                step = s
        if step is None:
            raise CUnsupported("loop increment")
        return var, c["opcode"], bound, step, body

    def exec_for(self, n, env, tu, parallel, clauses):
        var, cmp_, bound, step, body = self._loop_header(n, env, tu)
        lo = as_int(env[var])
        hi = as_int(bound)
        if cmp_ in (">", ">=", "!=") or (isinstance(step, int) and step < 0) or not isinstance(step, int):
            # only small concrete down-counting loops are supported (by unrolling)
            if isinstance(lo, int) and isinstance(hi, int) and isinstance(step, int) and not parallel:
                return self._unroll(n, env, tu, var, cmp_, lo, hi, step, body)
            if isinstance(step, T) or (not isinstance(step, int)):
                return self._generic(n, env, tu, var, cmp_, lo, hi, step, body, parallel, clauses)
            raise CUnsupported("down-counting symbolic loop")
        if isinstance(lo, int) and isinstance(hi, int) and not parallel:
            cnt = max(0, (hi - lo + (1 if cmp_ == "<=" else 0) + step - 1) // step)
            if cnt <= UNROLL_MAX:
                return self._unroll(n, env, tu, var, cmp_, lo, hi, step, body)
        return self._generic(n, env, tu, var, cmp_, lo, hi, step, body, parallel, clauses)

    def _unroll(self, n, env, tu, var, cmp_, lo, hi, step, body):
        v = lo
        ok = {"<": lambda a, b: a < b, "<=": lambda a, b: a <= b, ">": lambda a, b: a > b, ">=": lambda a, b: a >= b, "!=": lambda a, b: a != b}[cmp_]
        cnt = 0
        while ok(v, hi):
            env[var] = v
            cnt += 1
            if cnt > 4096:
                raise CUnsupported("unroll bound")
            try:
                self.exec(body, env, tu)
            except _Break:
                break
            except _Continue:
                pass
            v = as_int(env[var])
            if not isinstance(v, int):
                raise CUnsupported("loop variable modified symbolically")
            v += step
        env[var] = v

    def _assigned_names(self, body):
        """Names assigned in the body that are not declared inside it."""
        declared, assigned = set(), set()
        for x in _walk(body):
            k = x.get("kind")
            if k == "VarDecl":
                declared.add(x["name"])
            elif k in ("BinaryOperator", "CompoundAssignOperator") and x.get("opcode", "").endswith("=") and x.get("opcode") not in ("==", "!=", "<=", ">="):
                t = _strip(x["inner"][0])
                if t.get("kind") == "DeclRefExpr":
                    assigned.add(t["referencedDecl"]["name"])
            elif k == "UnaryOperator" and x.get("opcode") in ("++", "--"):
                t = _strip(x["inner"][0])
                if t.get("kind") == "DeclRefExpr":
                    assigned.add(t["referencedDecl"]["name"])
        return assigned - declared

    def _generic(self, n, env, tu, var, cmp_, lo, hi, step, body, parallel, clauses):
        if not hasattr(self, "loop_bodies"):
            self.loop_bodies = set()
        self.loop_bodies.add(id(body))
        lo_t, hi_t = tm.lift(lo), tm.lift(hi)
        if cmp_ == "<=":
            hi_t = hi_t + 1
        v = fresh(var)
        rng = [tm.mk_le(lo_t, v), tm.mk_lt(v, hi_t)]
        step_t = tm.lift(step)
        q = (v, lo_t, hi_t, step_t)
        if not (isinstance(step, int) and step == 1):
            k = fresh(var + "_k")
            rng.append(tm.mk_eq(v, lo_t + k * step_t))
            rng.append(tm.mk_le(tm.ZERO, k))
        # collapse(n): decided on entry (before the dry pass runs the nested loops)
        collapse_here = (not parallel) and self.par is not None and self.collapse_pending > 0 and not self.dry
        pending_after = (self.collapse_pending - 1) if collapse_here else 0
        self.collapse_pending = 0
        carried = sorted(x for x in self._assigned_names(body) if x in env and x != var)
        # ---- pass A (dry): increments of the carried scalars
        entry = {}
        envA = dict(env)
        for name in carried:
            cur = env[name]
            if isinstance(cur, Ptr):
                e = fresh(name + "@in")
                entry[name] = e
                envA[name] = Ptr(cur.arr, e)
            elif isinstance(cur, (int, Q, T)):
                e = fresh(name + "@in", "I" if _is_int_term(tm.lift(cur)) else "R")
                entry[name] = e
                envA[name] = e
            elif isinstance(cur, Undef):
                entry[name] = None
            elif isinstance(cur, Struct) and all(isinstance(fv_, Undef) for fv_ in cur.fields.values()):
                # a struct object declared without initialiser and assigned as a whole inside the loop: no value is carried in
                entry[name] = None
                envA[name] = Undef(name)
            else:
                raise CUnsupported("loop-carried variable %s of unsupported kind" % name)
        envA[var] = v
        self.dry += 1
        self.guards.extend(rng)
        try:
            try:
                self.exec(body, envA, tu)
            except _Continue:
                pass
            except _Break:
                raise CUnsupported("break in a symbolic loop")
        finally:
            self.dry -= 1
            del self.guards[len(self.guards) - len(rng):]
        forms = {}      # name -> (entry value at iteration v, value after the loop)
        niter = _niter(lo_t, hi_t, step)
        if niter.op == "ite" or any(u.op == "ite" for u in tm.subterms(niter).values()):
            # max(hi - lo, 0) with an undetermined sign: name it, and record its definition as an assumption usable by every obligation
            nv = fresh("niter")
            d_ = hi_t - lo_t
            if not hasattr(self, "niter_defs"):
                self.niter_defs = {}
            self.niter_defs[nv] = d_
            self.side.append(("assume", tm.mk_and(tm.mk_le(tm.ZERO, nv), tm.mk_le(d_, nv), tm.mk_or(tm.mk_eq(nv, tm.ZERO), tm.mk_eq(nv, d_))), tuple(self.guards), tuple(self.qvars), self.fn_stack[-1]))
            niter = nv
        for name in carried:
            e = entry[name]
            out = envA.get(name)
            cur = env[name]
            if e is None:
                forms[name] = ("temp", None, None)
                continue
            outv = out.off if isinstance(out, Ptr) else tm.lift(out) if isinstance(out, (int, Q, T)) else None
            if outv is None:
                if isinstance(out, Undef):
                    # became the counter of an inner loop: dead at the end of every iteration; pass B starts the iteration with it undefined, so a
                    # read before it is written again is reported as unsupported rather than given a wrong value
                    forms[name] = ("temp", None, None)
                    continue
                raise CUnsupported("loop-carried variable %s changes kind" % name)
            if outv is e:
                continue
            fv = tm.subterms(outv).values()
            if e not in fv:
                forms[name] = ("temp", None, None)     # overwritten every iteration, not read before
                continue
            delta = tm.mk_add(outv, tm.mk_neg(e))
            is_real = not isinstance(cur, Ptr) and not _is_int_term(tm.lift(cur))
            try:
                dn = self.nf.nf(delta)
                delta_s = self.nf.rf_to_term(dn)
            except NFError:
                if (self.footprint and is_real) or not isinstance(cur, Ptr):
                    srt = "R" if is_real else "I"
                    forms[name] = ("havoc", fresh(name + "@any", srt), fresh(name + "@out", srt))
                    continue
                raise CUnsupported("loop-carried update of %s is not additive" % name)
            if any(x is e for x in tm.subterms(delta_s).values()):
                if (self.footprint and is_real) or not isinstance(cur, Ptr):
                    # a non-additive scalar recurrence (e.g. a running maximum): its value is left unconstrained inside and after the loop (sound
                    # over-approximation; an obligation that depends on it becomes undecided, never wrongly discharged)
                    srt = "R" if is_real else "I"
                    forms[name] = ("havoc", fresh(name + "@any", srt), fresh(name + "@out", srt))
                    continue
                raise CUnsupported("loop-carried update of %s is not additive (increment depends on the value)" % name)
            others = [entry[o] for o in carried if entry.get(o) is not None and o != name]
            if any(x in others for x in tm.subterms(delta_s).values()):
                raise CUnsupported("coupled loop-carried updates (%s)" % name)
            s0 = cur.off if isinstance(cur, Ptr) else tm.lift(cur)
            if v not in tm.subterms(delta_s).values():
                idx = (v - lo_t) if (isinstance(step, int) and step == 1) else tm.mk_fn("idiv", v - lo_t, step_t)
                forms[name] = ("ind", s0 + delta_s * idx, s0 + delta_s * niter)
            else:
                if not (isinstance(step, int) and step == 1):
                    raise CUnsupported("reduction in a strided loop")
                bv = fresh(var + "'")
                part = tm.mk_sum(bv, lo_t, v, tm.substitute(delta_s, {v: bv}))
                bv2 = fresh(var + "'")
                full = tm.mk_sum(bv2, lo_t, hi_t, tm.substitute(delta_s, {v: bv2}))
                after_ = s0 + full
                if parallel and is_real and self._is_private(name) and name not in set(clauses.get("OMPReductionClause", [])):
                    # a thread-private scalar accumulated in a worksharing loop holds this thread's PARTIAL sum afterwards (only a reduction-clause
                    # variable or a shared scalar holds the total)
                    after_ = tm.mk_fn("tpart:" + name, after_)
                forms[name] = ("red", s0 + part, after_)
        # ---- pass B: the real execution of the generic iteration
        envB = dict(env)
        for name, (kind, at_v, after) in forms.items():
            cur = env[name]
            if kind == "temp":
                envB[name] = Undef(name)
            elif isinstance(cur, Ptr):
                envB[name] = Ptr(cur.arr, at_v)
            else:
                envB[name] = at_v
        envB[var] = v
        old_par = self.par
        collapsed = False
        if parallel:
            if self.par is not None:
                raise CUnsupported("nested worksharing loops")
            self.par = v
            self.collapse_pending = int(clauses.get("collapse", 1)) - 1
        elif collapse_here:
            # a loop collapsed into the enclosing worksharing loop: its variable is distributed over the threads as well
            self.collapse_pending = pending_after
            self.par_extra.append(v)
            collapsed = True
        self.qvars.append(q)
        self.guards.extend(rng)
        red_clause = set(clauses.get("OMPReductionClause", []))
        try:
            try:
                self.exec(body, envB, tu)
            except _Continue:
                pass
        finally:
            self.qvars.pop()
            del self.guards[len(self.guards) - len(rng):]
            self.par = old_par
            if collapsed:
                self.par_extra.pop()
            if parallel:
                self.collapse_pending = 0
        # scalars written in a parallel loop that live outside the region must be private or reductions
        if parallel:
            for name in carried:
                if name in red_clause or self._is_private(name):
                    continue
                if forms.get(name, ("",))[0] == "red":
                    self.side.append(("shared-scalar-reduction", name, (), (), self.fn_stack[-1]))
                elif name in forms:
                    self.side.append(("shared-scalar-write", name, (), (), self.fn_stack[-1]))
        for name, (kind, at_v, after) in forms.items():
            cur = env[name]
            if kind == "temp":
                env[name] = Undef(name)
            elif isinstance(cur, Ptr):
                env[name] = Ptr(cur.arr, after)
            else:
                env[name] = after
        env[var] = hi_t

    def _is_private(self, name):
        return name in self.private_names

    # ------------------------------------------------------------------ expressions
    def truth(self, v):
        v = as_int(v)
        if isinstance(v, bool):
            return v
        if isinstance(v, (int, Q)):
            return v != 0
        if isinstance(v, T):
            if v is tm.TRUE:
                return True
            if v is tm.FALSE:
                return False
            if v.is_bool:
                return v
            if v.op == "ite" and v.args[1] is tm.ONE and v.args[2] is tm.ZERO:
                return v.args[0]
            if v.op == "c":
                return v.args[0] != 0
            return tm.mk_not(tm.mk_eq(v, tm.ZERO))
        if isinstance(v, Ptr):
            return True
        if v is None:
            return False
        raise CUnsupported("truth value of %r" % (v,))

    def rvalue(self, n, env, tu):
        k = n.get("kind")
        m = getattr(self, "e_" + k, None)
        if m is None:
            raise CUnsupported("expression %s in %s" % (k, self.fn_stack[-1] if self.fn_stack else "?"))
        return m(n, env, tu)

    def e_IntegerLiteral(self, n, env, tu):
        return int(n["value"])

    def e_FloatingLiteral(self, n, env, tu):
        if self.literal_names:
            f = float(n["value"])
            for nm, (val, term) in self.literal_names.items():
                if abs(f - val) <= 4e-16 * abs(val):
                    self.literals_used.add(nm)
                    return term
        return Q(n["value"]) if "e" not in n["value"].lower() and "inf" not in n["value"] else Q(repr(float(n["value"])))

    def e_ImaginaryLiteral(self, n, env, tu):
        return Cx(0, self.rvalue(n["inner"][0], env, tu))

    def e_CharacterLiteral(self, n, env, tu):
        return int(n["value"])

    def e_ConstantExpr(self, n, env, tu):
        return self.rvalue(n["inner"][0], env, tu)

    def e_ParenExpr(self, n, env, tu):
        return self.rvalue(n["inner"][0], env, tu)

    def e_ImplicitCastExpr(self, n, env, tu):
        ck = n.get("castKind")
        inner = n["inner"][0]
        if ck == "LValueToRValue":
            return self.load(self.lvalue(inner, env, tu), env)
        if ck in ("ArrayToPointerDecay",):
            if inner.get("kind") == "DeclRefExpr" and inner["referencedDecl"]["name"] not in env:
                return self._global_array(inner["referencedDecl"]["name"])
            return self.rvalue(inner, env, tu) if inner.get("kind") != "DeclRefExpr" else env[inner["referencedDecl"]["name"]]
        if ck == "FunctionToPointerDecay":
            return ("fn", _strip(inner)["referencedDecl"]["name"])
        v = self.rvalue(inner, env, tu)
        if ck == "FloatingToIntegral":
            v2 = as_int(v)
            if isinstance(v2, (int, Q)):
                return int(v2)
            return self._trunc(v)
        if ck == "NullToPointer":
            return None
        if ck in ("FloatingRealToComplex", "IntegralRealToComplex"):
            return as_cx(v)
        if ck in ("FloatingComplexToReal", "IntegralComplexToReal"):
            return v.re if isinstance(v, Cx) else v
        return v

    def _trunc(self, v):
        """(int) of a real value.  For (int) sqrt(t) the result is named k with the defining facts 0 <= k, k^2 <= t < (k+1)^2 (sound for t >= 0,
        the domain of sqrt); otherwise the uninterpreted trunc."""
        t = tm.lift(v)
        c_ = closed_trunc(t)
        if c_ is not None:
            return c_
        # (int)(sqrt(u) + c) with an integer u (a C int, so u < 2^31) and a fudge 0 <= c <= 1e-6: k = floor(sqrt(u) + c) gives (k - c)^2 <= u < (k + 1 - c)^2,
        # and for integers with 2 k c < 1 (k < 46341 for a C int) that is k^2 <= u < (k + 1)^2 — the same facts as for c = 0
        if t.op == "+" and len(t.args) == 2:
            cs_ = [a for a in t.args if a.op == "c"]
            rt_ = [a for a in t.args if a.op == "^" and a.args[1].op == "c" and a.args[1].args[0] == Q(1, 2)]
            if len(cs_) == 1 and len(rt_) == 1 and 0 <= cs_[0].args[0] <= Q(1, 10 ** 6) and _is_int_term(rt_[0].args[0]):
                t = rt_[0]
            elif len(cs_) == 1 and len(rt_) == 1 and cs_[0].args[0] == -1:
                # (int)(sqrt(x) - 1): isqrt(x) - 1 when isqrt(x) >= 1, else 0 (truncation toward zero of a value in [-1, 0))
                k_ = self._trunc(rt_[0])
                return tm.mk_max(tm.lift(k_) - 1, tm.ZERO) if not isinstance(k_, int) else max(k_ - 1, 0)
        # sqrt(u + c1) with an integer u and a fudge 0 <= c1 <= 1e-6: same integer square root as sqrt(u)
        if t.op == "^" and t.args[1].op == "c" and t.args[1].args[0] == Q(1, 2) and t.args[0].op == "+":
            cs_ = [a for a in t.args[0].args if a.op == "c"]
            rest_ = [a for a in t.args[0].args if a.op != "c"]
            if len(cs_) == 1 and 0 < cs_[0].args[0] <= Q(1, 10 ** 6) and rest_ and all(_is_int_term(a) for a in rest_):
                t = tm.mk_sqrt(tm.mk_add(*rest_))
        if t.op == "^" and t.args[1].op == "c" and t.args[1].args[0] == Q(1, 2):
            key = t.id
            if key not in self._isqrt:
                k = fresh("isqrt")
                self._isqrt[key] = k
                self.isqrt_defs[k.args[0]] = t.args[0]
                self.side.append(("assume", tm.mk_and(tm.mk_le(tm.ZERO, k), tm.mk_le(k * k, t.args[0]), tm.mk_lt(t.args[0], (k + 1) * (k + 1))), (), (), self.fn_stack[-1] if self.fn_stack else "?"))
            return self._isqrt[key]
        return tm.mk_fn("trunc", t)

    def _global_array(self, name):
        """A file-scope const array with an initialiser list: an array whose elements are the evaluated initialisers (reads at concrete indices only)."""
        if name in self.global_arrays:
            return Ptr(self.global_arrays[name])
        for t_ in self.tus:
            g = t_.globals.get(name)
            if g is None or not g.get("inner") or g["inner"][0].get("kind") != "InitListExpr":
                continue
            if "const" not in g.get("type", {}).get("qualType", ""):
                raise CUnsupported("global array %s is not const" % name)
            vals = [self.rvalue(e, {}, t_) for e in g["inner"][0].get("inner", [])]
            arr = Arr(name, "int" if is_int_type(g["type"]["qualType"].split("[")[0]) else "double", tm.const(len(vals)), origin="global")
            arr.const_values = vals
            self.global_arrays[name] = arr
            return Ptr(arr)
        raise CUnsupported("unknown global array %s" % name)

    def e_CStyleCastExpr(self, n, env, tu):
        ty = n["type"]["qualType"]
        v = self.rvalue(n["inner"][0], env, tu)
        if isinstance(v, Ptr) and ty.strip().endswith("*") and getattr(v.arr, "origin", "") == "malloc":
            base = ty.strip()[:-1].strip().replace("const ", "")
            sname = None
            for t_ in self.tus:
                b2 = t_.typedefs.get(base, base).replace("struct ", "")
                if b2 in t_.structs:
                    sname = b2
                    fields = t_.structs[b2]
                    break
                if base.replace("struct ", "") in t_.structs:
                    sname = base.replace("struct ", "")
                    fields = t_.structs[sname]
                    break
            if sname is not None:
                # (T *)malloc(sizeof(T)): a fresh struct object with uninitialised fields; a member declared `T name[N]` is an array of capacity N inside it
                vals = {}
                for f, fty in fields:
                    m_ = re.match(r"^\s*([A-Za-z_][A-Za-z0-9_ ]*?)\s*\[(\d+)\]\s*$", fty or "")
                    if m_:
                        base_t = m_.group(1).replace("const ", "").strip()
                        arr_ = Arr("%s.%s" % (sname, f), "int" if is_int_type(base_t) else "double", tm.const(int(m_.group(2))), origin="member")
                        vals[f] = Ptr(arr_)
                    else:
                        vals[f] = Undef(f)
                return Struct(sname, vals)
        if isinstance(v, Ptr) and "*" in ty and ty.replace("const ", "").replace("unsigned ", "").replace(" ", "") in ("char*", "uint8_t*") \
                and v.arr.kind in ("double", "complex", "int"):
            # (char *)p: the same memory addressed in bytes — a companion byte array; offsets scale by the element size
            esz = {"double": 8, "complex": 16, "int": 4}[v.arr.kind]
            if not hasattr(v.arr, "byte_view"):
                bv_ = Arr(v.arr.name + ".bytes", "char", None if v.arr.extent is None else tm.lift(v.arr.extent) * esz, private=v.arr.private, origin=v.arr.origin)
                bv_.byte_parent, bv_.elem_size = v.arr, esz
                v.arr.byte_view = bv_
            return Ptr(v.arr.byte_view, tm.lift(v.off) * esz)
        if isinstance(v, Ptr) and "*" in ty:
            if "_Complex" in ty and v.arr.kind in ("raw", "void", "double") and tm.lift(v.off) is tm.ZERO and not any(e.arr is v.arr for e in self.events):
                # (double complex *)p at the start of an array nothing has touched yet: the array is addressed in complex elements from here on
                v.arr.kind = "complex"
                return v
            kind = "double" if "double" in ty else "int" if "int" in ty else v.arr.kind
            if v.arr.kind in ("raw", "void"):
                v.arr.kind = kind
            return v
        if is_int_type(ty) and not isinstance(v, Ptr):
            v2 = as_int(v)
            if isinstance(v2, int):
                return v2
            if isinstance(v2, Q):
                return int(v2)
            if isinstance(v2, T) and _is_int_term(v2):
                return v2
            return self._trunc(v2)
        return v

    def e_DeclRefExpr(self, n, env, tu):
        name = n["referencedDecl"]["name"]
        if n["referencedDecl"].get("kind") == "FunctionDecl":
            return ("fn", name)
        if name in env:
            return env[name]
        gv = self._global_scalar(name)
        if gv is not None:
            return gv
        raise CUnsupported("unknown identifier %s" % name)

    def _global_decl(self, name):
        for t in self.tus:
            if name in t.globals:
                return t, t.globals[name]
        return None, None

    def _global_scalar(self, name):
        """Value of a file-scope scalar: its initialiser when const-qualified; otherwise the current value of mutable file-scope state, which on entry
        is an arbitrary value (the function may run after any history of earlier calls)."""
        t, g = self._global_decl(name)
        if g is None:
            return None
        qt = g.get("type", {}).get("qualType", "")
        if "const" in qt:
            if g.get("inner"):
                return self.rvalue(g["inner"][0], {}, t)
            return None
        if "[" in qt or "*" in qt:
            return None
        base = qt.replace("static ", "").replace("volatile ", "").strip()
        if not (is_int_type(base) or base in ("double", "float")):
            return None                       # struct objects are referred to by address only; contracts keep their ghost state
        if name not in self.genv:
            if name not in self.genv_entry:
                self.genv_entry[name] = fresh("entry_" + name, "I" if is_int_type(base) else "R")
            self.genv[name] = self.genv_entry[name]
        return self.genv[name]

    def e_UnaryExprOrTypeTraitExpr(self, n, env, tu):
        ty = (n.get("argType") or {}).get("qualType") or ""
        if not ty and n.get("inner"):
            ty = n["inner"][0].get("type", {}).get("qualType", "")
        return ("sizeof", ty)

    def e_ConditionalOperator(self, n, env, tu):
        c = self.truth(self.rvalue(n["inner"][0], env, tu))
        if c is True:
            return self.rvalue(n["inner"][1], env, tu)
        if c is False:
            return self.rvalue(n["inner"][2], env, tu)
        a, b = self.rvalue(n["inner"][1], env, tu), self.rvalue(n["inner"][2], env, tu)
        if isinstance(a, Ptr) and isinstance(b, Ptr) and a.arr is b.arr:
            return Ptr(a.arr, tm.mk_ite(c, a.off, b.off))
        return tm.mk_ite(c, tm.lift(a), tm.lift(b))

    def e_UnaryOperator(self, n, env, tu):
        op = n["opcode"]
        a = n["inner"][0]
        if op in ("++", "--"):
            lv = self.lvalue(a, env, tu)
            cur = self.load(lv, env)
            new = self.arith("+" if op == "++" else "-", cur, 1)
            self.assign(lv, new, env)
            return cur if n.get("isPostfix") else new
        if op == "*":
            return self.load(("mem", self._as_ptr(self.rvalue(a, env, tu))), env)
        if op == "&":
            lv = self.lvalue(a, env, tu)
            if lv[0] == "mem":
                return lv[1]
            if lv[0] == "var":
                # address of a scalar (e.g. passed to dgemm_): a one-element private cell holding its current value
                return ("addr", lv[1])
            raise CUnsupported("address-of")
        v = self.rvalue(a, env, tu)
        if op == "-":
            return self.arith("-", 0, v)
        if op in ("+", "__extension__"):
            return v
        if op == "__real":
            return v.re if isinstance(v, Cx) else v
        if op == "__imag":
            return v.im if isinstance(v, Cx) else 0
        if op == "!":
            c = self.truth(v)
            return (not c) if isinstance(c, bool) else tm.mk_not(c)
        if op == "~":
            v = as_int(v)
            if isinstance(v, int):
                return ~v
        raise CUnsupported("unary %s" % op)

    def _as_ptr(self, v):
        if isinstance(v, Ptr):
            return v
        raise CUnsupported("dereference of a non-pointer %r" % (v,))

    def e_ArraySubscriptExpr(self, n, env, tu):
        return self.load(self.lvalue(n, env, tu), env)

    def e_MemberExpr(self, n, env, tu):
        return self.load(self.lvalue(n, env, tu), env)

    def e_BinaryOperator(self, n, env, tu):
        op = n["opcode"]
        if op == "=":
            lv = self.lvalue(n["inner"][0], env, tu)
            v = self.rvalue(n["inner"][1], env, tu)
            v = self.coerce(v, n["inner"][0].get("type", {}).get("qualType", ""))
            self.assign(lv, v, env)
            return v
        if op == ",":
            self.rvalue(n["inner"][0], env, tu)
            return self.rvalue(n["inner"][1], env, tu)
        if op in ("&&", "||"):
            a = self.truth(self.rvalue(n["inner"][0], env, tu))
            if op == "&&" and a is False:
                return 0
            if op == "||" and a is True:
                return 1
            b = self.truth(self.rvalue(n["inner"][1], env, tu))
            if isinstance(a, bool) and isinstance(b, bool):
                return int(a and b) if op == "&&" else int(a or b)
            ta = tm.const(a) if isinstance(a, bool) else a
            tb = tm.const(b) if isinstance(b, bool) else b
            return tm.mk_and(ta, tb) if op == "&&" else tm.mk_or(ta, tb)
        a = self.rvalue(n["inner"][0], env, tu)
        b = self.rvalue(n["inner"][1], env, tu)
        ity = is_int_type(n["inner"][0].get("type", {}).get("qualType", "")) and is_int_type(n["inner"][1].get("type", {}).get("qualType", ""))
        return self.arith(op, a, b, int_div=ity)

    def e_CompoundAssignOperator(self, n, env, tu):
        op = n["opcode"][:-1]
        lv = self.lvalue(n["inner"][0], env, tu)
        rhs = self.rvalue(n["inner"][1], env, tu)
        if lv[0] == "mem" and op in ("+", "-") and lv[1].arr.kind == "complex" and not self.footprint:
            cur = self.load(lv, env)
            self.store(lv[1], "=", self.arith(op, cur, rhs))
            return None
        if lv[0] == "mem" and op in ("+", "-", "*", "/") and lv[1].arr.kind == "double":
            # an accumulating store: recorded as such (no read event), value of the update
            self.store(lv[1], op + "=", rhs)
            return None
        cur = self.load(lv, env)
        ity = is_int_type(n["inner"][0].get("type", {}).get("qualType", ""))
        new = self.arith(op, cur, rhs, int_div=ity)
        new = self.coerce(new, n["inner"][0].get("type", {}).get("qualType", ""))
        self.assign(lv, new, env)
        return new

    def arith(self, op, a, b, int_div=False):
        if isinstance(a, tuple) and a and a[0] == "sizeof":
            a = _sizeof(a[1])
        if isinstance(b, tuple) and b and b[0] == "sizeof":
            b = _sizeof(b[1])
        if isinstance(a, Ptr) or isinstance(b, Ptr):
            if op == "+":
                p, o = (a, b) if isinstance(a, Ptr) else (b, a)
                return Ptr(p.arr, p.off + tm.lift(o))
            if op == "-" and isinstance(a, Ptr) and not isinstance(b, Ptr):
                return Ptr(a.arr, a.off - tm.lift(b))
            if op == "-" and isinstance(a, Ptr) and isinstance(b, Ptr) and a.arr is b.arr:
                return a.off - b.off
            if op in ("==", "!="):
                same = isinstance(a, Ptr) and isinstance(b, Ptr) and a.arr is b.arr and self.same_index(a.off, b.off)
                if b is None or a is None:
                    return int(op == "!=")
                return int(same) if op == "==" else int(not same)
            raise CUnsupported("pointer arithmetic %s" % op)
        if a is None or b is None:
            if op == "==":
                return int(a is b)
            if op == "!=":
                return int(a is not b)
            raise CUnsupported("arithmetic on NULL")
        if isinstance(a, Undef) or isinstance(b, Undef):
            raise CUnsupported("use of an undefined value (%s)" % (a if isinstance(a, Undef) else b).name)
        if isinstance(a, Cx) or isinstance(b, Cx):
            a, b = as_cx(a), as_cx(b)
            ar = lambda o, x, y: self.arith(o, x, y)
            if op in ("+", "-"):
                return Cx(ar(op, a.re, b.re), ar(op, a.im, b.im))
            if op == "*":
                return Cx(ar("-", ar("*", a.re, b.re), ar("*", a.im, b.im)), ar("+", ar("*", a.re, b.im), ar("*", a.im, b.re)))
            if op == "/" and as_int(b.im) == 0:
                return Cx(ar("/", a.re, b.re), ar("/", a.im, b.re))
            raise CUnsupported("complex operator %s" % op)
        a, b = as_int(a), as_int(b)
        conc = isinstance(a, (int, Q)) and isinstance(b, (int, Q))
        if op == "+":
            return a + b
        if op == "-":
            return a - b
        if op == "*":
            return a * b
        if op == "/":
            if int_div:
                return cdiv_int(a, b)
            if conc:
                if b == 0:
                    raise CUnsupported("division by the constant zero")
                return Q(a) / Q(b)
            self.side.append(("div", tm.lift(b), tuple(self.guards), tuple(self.qvars), self.fn_stack[-1]))
            return tm.lift(a) / tm.lift(b)
        if op == "%":
            if conc:
                return int(a) % int(b) if (a >= 0 and b > 0) else int(__import__("math").fmod(a, b))
            return tm.mk_fn("imod", tm.lift(a), tm.lift(b))
        if op in ("<", "<=", ">", ">=", "==", "!="):
            if conc:
                return int({"<": a < b, "<=": a <= b, ">": a > b, ">=": a >= b, "==": a == b, "!=": a != b}[op])
            ta, tb = tm.lift(a), tm.lift(b)
            return {"<": tm.mk_lt(ta, tb), "<=": tm.mk_le(ta, tb), ">": tm.mk_lt(tb, ta), ">=": tm.mk_le(tb, ta),
                    "==": tm.mk_eq(ta, tb), "!=": tm.mk_not(tm.mk_eq(ta, tb))}[op]
        if op in ("<<", ">>", "&", "|", "^") and isinstance(a, int) and isinstance(b, int):
            return {"<<": a << b, ">>": a >> b, "&": a & b, "|": a | b, "^": a ^ b}[op]
        if op == "&" and isinstance(b, int) and not isinstance(a, int):
            # masks of the forms 2^k - 1 and ~(2^k - 1) on a non-negative int: remainder / rounding down to a multiple of 2^k
            if b >= 0 and (b & (b + 1)) == 0:
                return tm.mk_fn("imod", tm.lift(a), tm.const(b + 1))
            if b < 0 and ((-b) & (-b - 1)) == 0:
                return tm.lift(a) - tm.mk_fn("imod", tm.lift(a), tm.const(-b))
        if op in ("<<", ">>") and isinstance(b, int) and b >= 0 and not isinstance(a, int):
            return tm.lift(a) * (2 ** b) if op == "<<" else tm.mk_fn("idiv", tm.lift(a), tm.const(2 ** b))
        raise CUnsupported("binary operator %s on symbolic values" % op)

    # ------------------------------------------------------------------ lvalues, loads, stores
    def lvalue(self, n, env, tu):
        k = n.get("kind")
        if k == "ParenExpr":
            return self.lvalue(n["inner"][0], env, tu)
        if k == "DeclRefExpr":
            return ("var", n["referencedDecl"]["name"])
        if k == "ArraySubscriptExpr":
            base = self.rvalue(n["inner"][0], env, tu)
            idx = self.rvalue(n["inner"][1], env, tu)
            if isinstance(base, Ptr):
                if "_Complex" in n.get("type", {}).get("qualType", "") and base.arr.kind in ("raw", "void", "double"):
                    base.arr.kind = "complex"
                return ("mem", Ptr(base.arr, base.off + tm.lift(idx)))
            raise CUnsupported("subscript of a non-pointer")
        if k == "UnaryOperator" and n.get("opcode") == "*":
            return ("mem", self._as_ptr(self.rvalue(n["inner"][0], env, tu)))
        if k == "MemberExpr":
            base = self.rvalue(n["inner"][0], env, tu) if n.get("isArrow") else self.load(self.lvalue(n["inner"][0], env, tu), env)
            if isinstance(base, Struct):
                return ("field", base, n["name"])
            if isinstance(base, Ptr) and isinstance(base.arr, StructArr):
                return ("field", base.arr.element(self, base.off), n["name"])
            raise CUnsupported("member access on %r" % (base,))
        if k == "ImplicitCastExpr":
            return self.lvalue(n["inner"][0], env, tu)
        if k == "CStyleCastExpr":
            return self.lvalue(n["inner"][0], env, tu)
        raise CUnsupported("lvalue %s" % k)

    def load(self, lv, env):
        if lv[0] == "var":
            if lv[1] not in env:
                gv = self._global_scalar(lv[1])
                if gv is not None:
                    return gv
                raise CUnsupported("unknown variable %s" % lv[1])
            v = env[lv[1]]
            if isinstance(v, Undef):
                raise CUnsupported("read of the uninitialised / loop-local variable %s after its loop" % lv[1])
            return v
        if lv[0] == "field":
            st, name = lv[1], lv[2]
            if name not in st.fields:
                raise CUnsupported("struct %s has no modelled field %s" % (st.name, name))
            return st.fields[name]
        return self.read(lv[1])

    def assign(self, lv, v, env):
        if lv[0] == "var":
            if self.in_parallel and not self.in_single and not self.dry and self.par is None and not self._is_private(lv[1]):
                # executed by every thread of the team on a variable that lives outside the region
                self.side.append(("shared-scalar-write", lv[1], (v,), (), self.fn_stack[-1]))
            if lv[1] not in env and self._global_decl(lv[1])[1] is not None:
                self._global_scalar(lv[1])
                self.genv[lv[1]] = v
                return
            env[lv[1]] = v
        elif lv[0] == "field":
            lv[1].fields[lv[2]] = v
        else:
            self.store(lv[1], "=", v)

    def read(self, p):
        arr = p.arr
        if isinstance(arr, StructArr):
            return arr.element(self, p.off)
        if arr.kind == "ptr":
            # array of pointers (double **da): element k is its own array
            k = as_int(p.off)
            key = self.canon(p.off)
            sub = arr.extra_subarrays.get(key)
            if sub is None:
                # the element array is named after its index term; two different index terms never share a name (a numeric suffix separates them when the
                # printed forms coincide after truncation)
                nm = "%s[%s]" % (arr.name, tm.show(tm.lift(p.off), 30))
                if any(x.name == nm for x in arr.extra_subarrays.values()):
                    nm = "%s~%d" % (nm, len(arr.extra_subarrays))
                sub = Arr(nm, arr.elem_kind, arr.elem_extent, origin="param")
                sub.parent, sub.parent_index = arr, tm.lift(p.off)
                arr.extra_subarrays[key] = sub
            return Ptr(sub)
        if getattr(arr, "const_values", None) is not None:
            k = as_int(p.off)
            if isinstance(k, int) and 0 <= k < len(arr.const_values):
                return arr.const_values[k]
            raise CUnsupported("read of the constant table %s at a symbolic or out-of-range index" % arr.name)
        if arr.kind == "complex":
            re_, im_ = self._cx_parts(arr)
            return Cx(self.read(Ptr(re_, p.off)), self.read(Ptr(im_, p.off)))
        # store forwarding from writes of the same generic iteration / earlier completed loops
        if self.footprint and arr.kind != "int":
            self.emit("r", p)
            if any(e.kind == "w" and e.arr is arr for e in self.events):
                return fresh("anyp" if arr.private else "any", "R")      # 'anyp': content of a thread-private array (a thread-partial result)
            return tm.mk_fn("rd:" + arr.name, p.off)
        fw = self._forward(p)
        if fw is not None:
            return fw
        self.emit("r", p)
        if arr.kind == "int":
            return tm.mk_fi(arr.name, p.off)
        return tm.mk_fn("rd:" + arr.name, p.off)

    def _forward(self, p):
        """Value most recently stored at p by this function, or None when the location still holds its initial content."""
        cands = [e for e in self.events if e.kind == "w" and e.arr is p.arr]
        if not cands:
            return None
        is_tid = lambda v: v.op == "v" and v.args[0].startswith("tid#")
        cur_q = [q[0] for q in self.qvars if not (p.arr.private and is_tid(q[0]))]
        acc = []          # contributions of accumulating stores of completed loop nests met so far (latest first)
        for e in reversed(cands):
            # a per-thread scratch array is addressed by every thread in its own copy: the thread index is not a coordinate of it
            eq_ = [q[0] for q in e.qvars if not (p.arr.private and is_tid(q[0]))]
            if eq_ == cur_q[:len(eq_)] and len(eq_) <= len(cur_q):
                # written in this very iteration context (same enclosing generic iterations)
                if self.same_index(e.idx, p.off):
                    if e.op != "=":
                        raise CUnsupported("read of %s after an accumulating store in the same iteration" % p.arr.name)
                    # events of code run by every thread carry the (always true) range of the thread index as two leading guards
                    eg = e.guards[2:] if e.level == "thread" else e.guards
                    if [g.id for g in eg] != [g.id for g in self.guards][:len(eg)]:
                        raise CUnsupported("read of %s written under a different guard" % p.arr.name)
                    return e.val
                if len(eq_) == len(cur_q) or any(q in tm.subterms(e.idx).values() for q in eq_):
                    try:
                        d_ = self.nf.rf_to_term(self.nf.nf(e.idx - p.off))
                    except NFError:
                        d_ = None
                    if d_ is not None and d_.op == "c" and d_.args[0] != 0:
                        continue          # the two indices differ by a non-zero constant
                    ok = smt.check_sat(list(self.hyps) + list(self.guards) + list(e.guards) + [tm.mk_eq(e.idx, p.off)], 3.0, use_cvc5=False)[0]
                    if ok != "unsat" and not self.footprint and self._cannot_alias(e, [], p):
                        ok = "unsat"
                    if ok != "unsat":
                        raise CUnsupported("cannot separate a read of %s[%s] from the earlier write %s[%s]" % (p.arr.name, tm.show(p.off, 40), e.arr.name, tm.show(e.idx, 40)))
                continue
            # written by an earlier, completed loop nest: solve the index equation for a single quantified variable
            extra = [q for q in e.qvars if q[0] not in cur_q]
            if p.arr.private:
                # a per-thread scratch array (allocated inside the region): every thread filled its own copy, the thread index is not a coordinate
                extra = [q for q in extra if not (q[0].op == "v" and q[0].args[0].startswith("tid#"))]
            if len(extra) == 1 and e.op == "=" and not acc:
                qv, lo, hi, st = extra[0]
                d = tm.mk_add(e.idx, tm.mk_neg(qv))
                if qv not in tm.subterms(self.nf.rf_to_term(self.nf.nf(d))).values():
                    sol = tm.mk_add(p.off, tm.mk_neg(self.nf.rf_to_term(self.nf.nf(d))))
                    # the read must fall into the range initialised by that loop
                    self.side.append(("covered", tm.mk_and(tm.mk_le(lo, sol), tm.mk_lt(sol, hi)), tuple(self.guards), tuple(self.qvars), self.fn_stack[-1]))
                    return tm.substitute(e.val, {qv: sol})
            if not self.footprint and e.op in ("=", "+=", "-=") and extra and isinstance(e.val, T):
                # value mode, element (re)built by earlier completed loop nests: `x[k] = init` followed by `x[k] += term(m, k)` over reduction loops m.
                # One loop variable of the store addresses the element (unit coefficient, solved from the index equation); the others do not occur in the
                # index and are summed over.  The store is taken as a writer only if the solved position provably lies in its loop range; provably outside:
                # it cannot alias; undecided: unsupported.
                in_idx = [q for q in extra if q[0] in tm.subterms(e.idx).values()]
                red = [q for q in extra if q[0] not in tm.subterms(e.idx).values()]
                eg = e.guards[2:] if e.level == "thread" else e.guards
                own = set()
                for q_ in e.qvars:
                    own.add(tm.mk_le(tm.lift(q_[1]), q_[0]).id)
                    own.add(tm.mk_lt(q_[0], tm.lift(q_[2])).id)
                cond_guards = [g_ for g_ in eg if tm.lift(g_).id not in own and g_ not in self.guards]
                if len(in_idx) == 1 and not cond_guards and all(tm.lift(q_[3]) is tm.ONE for q_ in extra):
                    qv, lo, hi, st = in_idx[0]
                    try:
                        d = self.nf.rf_to_term(self.nf.nf(tm.mk_add(e.idx, tm.mk_neg(qv))))
                    except NFError:
                        d = None
                    if d is not None and qv not in tm.subterms(d).values():
                        sol = tm.mk_add(p.off, tm.mk_neg(d))
                        inside = tm.mk_and(tm.mk_le(tm.lift(lo), sol), tm.mk_lt(sol, tm.lift(hi)))
                        ctx_h = list(self.hyps) + [x[1] for x in self.side if x[0] == "assume"] + list(self.guards)
                        from pyvc import intarith
                        if intarith.check_sat_int(ctx_h + [tm.mk_not(inside)], 3.0)[0] == "unsat":
                            term = tm.substitute(e.val, {qv: sol})
                            for rq, rlo, rhi, rst in reversed(red):
                                bv = fresh(rq.args[0].split("#")[0] + "$")
                                term = tm.mk_sum(bv, tm.lift(rlo), tm.lift(rhi), tm.substitute(term, {rq: bv}))
                            if e.op == "=":
                                return tm.mk_add(term, *acc) if acc else term
                            acc.append(term if e.op == "+=" else tm.mk_neg(term))
                            continue
                        if intarith.check_sat_int(ctx_h + [inside], 3.0)[0] == "unsat":
                            continue          # the solved position lies outside the range this store runs over: another element
            if not self.footprint and self._cannot_alias(e, extra, p):
                continue
            if p.arr.private or p.arr.origin in ("malloc", "local"):
                raise CUnsupported("read of scratch array %s written by an earlier loop in an unsupported pattern (qvars of the write %s, of the read %s, op %s)" % (p.arr.name, [tm.show(q[0]) for q in e.qvars], [tm.show(q) for q in cur_q], e.op))
            raise CUnsupported("read of %s after writes by an earlier loop nest" % p.arr.name)
        if acc:
            # accumulated onto the content the array had on entry
            return tm.mk_add(tm.mk_fn("rd:" + p.arr.name, p.off) if p.arr.kind != "int" else tm.mk_fi(p.arr.name, p.off), *acc)
        return None

    def _cannot_alias(self, e, extra, p):
        """True when the earlier write e (over the ranges of its own loop variables) provably never hits the location p read now."""
        from pyvc import intarith
        rng = [c for (qv, lo, hi, st) in e.qvars for c in (tm.mk_le(tm.lift(lo), qv), tm.mk_lt(qv, tm.lift(hi)))]
        rng += [c for (qv, lo, hi, st) in self.qvars for c in (tm.mk_le(tm.lift(lo), qv), tm.mk_lt(qv, tm.lift(hi)))]
        assumes = [x[1] for x in self.side if x[0] == "assume"]
        cons = list(self.hyps) + assumes + rng + list(self.guards) + list(e.guards) + [tm.mk_eq(e.idx, p.off)]
        for tab in self.monotone_tables:
            idxs = {}
            for c in cons:
                for u in tm.subterms(tm.lift(c)).values():
                    if u.op == "fi" and u.args[0] == tab:
                        idxs[u.args[1].id] = u.args[1]
            for a in idxs.values():
                cons.append(tm.mk_le(tm.ZERO, tm.mk_fi(tab, a)))
                for b in idxs.values():
                    if a is not b:
                        cons.append(tm.mk_implies(tm.mk_le(a, b), tm.mk_le(tm.mk_fi(tab, a), tm.mk_fi(tab, b))))
        try:
            return intarith.check_sat_int(cons, 3.0)[0] == "unsat"
        except Exception:
            return False

    def store(self, p, op, v):
        if isinstance(v, tuple) and v and v[0] == "sizeof":
            v = _sizeof(v[1])
        if p.arr.kind == "ptr":
            raise CUnsupported("store into an array of pointers")
        if isinstance(v, Ptr) or v is None:
            raise CUnsupported("pointer stored to memory")
        if p.arr.kind == "complex" or isinstance(v, Cx):
            if p.arr.kind in ("raw", "void"):
                p.arr.kind = "complex"
            if p.arr.kind != "complex":
                raise CUnsupported("complex value stored into a %s array" % p.arr.kind)
            if op not in ("=", "+=", "-="):
                raise CUnsupported("complex compound assignment %s" % op)
            v = as_cx(v)
            re_, im_ = self._cx_parts(p.arr)
            self.store(Ptr(re_, p.off), op, v.re)
            self.store(Ptr(im_, p.off), op, v.im)
            return
        self.emit("w", p, op, tm.lift(as_int(v)))

    def _cx_parts(self, arr):
        if not hasattr(arr, "cx_parts"):
            arr.cx_parts = tuple(Arr("%s.%s" % (arr.name, part), "double", arr.extent, private=arr.private, origin=arr.origin) for part in ("re", "im"))
            for a_, part in zip(arr.cx_parts, ("re", "im")):
                a_.zeroed = getattr(arr, "zeroed", False)
                a_.cx_parent, a_.cx_part = arr, part
        return arr.cx_parts

    # ------------------------------------------------------------------ calls
    def e_CallExpr(self, n, env, tu):
        callee = self.rvalue(n["inner"][0], env, tu)
        if not (isinstance(callee, tuple) and callee[0] == "fn"):
            raise CUnsupported("call through a function pointer")
        name = callee[1]
        argn = n["inner"][1:]
        if name in ("printf", "fprintf", "puts", "free", "fflush", "exit", "fftw_free", "assert"):
            return 0
        args = []
        for a in argn:
            v = self.rvalue(a, env, tu)
            if isinstance(v, tuple) and v and v[0] == "addr":
                v = ("addr", v[1], env)
            args.append(v)
        if name in self.contracts:
            return self.contracts[name](self, args)
        if name in ("malloc", "calloc", "fftw_malloc", "fftw_alloc_real", "fftw_alloc_complex"):
            size = args[0] if name != "calloc" else self.arith("*", args[0], args[1])
            self.n_malloc += 1
            arr = Arr("%s.malloc%d" % (self.fn_stack[-1], self.n_malloc), "raw", None, private=self.in_parallel > 0 and not self.in_single, origin="malloc")
            arr.bytes = size
            arr.zeroed = name == "calloc"
            return Ptr(arr)
        if name in MATH:
            return MATH[name](*[a for a in args])
        if name == "omp_get_thread_num":
            if self.team is None:
                return 0                      # outside a parallel region
            return self.team[0]
        if name == "omp_get_num_threads":
            if self.team is None:
                return 1
            return self.team[1]
        if name == "omp_get_max_threads":
            # an upper bound of the team size of a later region, not the team size itself
            if self.max_threads is None:
                self.max_threads = fresh("maxthreads")
                self.side.append(("assume", tm.mk_le(tm.ONE, self.max_threads), (), (), self.fn_stack[-1]))
            return self.max_threads
        if name == "dgemm_":
            return self.dgemm(args)
        if name in ("memcpy", "memmove"):
            return self.memcpy(args)
        tu2, f = self.find_function(name)
        if f is None:
            raise CUnsupported("call of external function %s without a contract" % name)
        params = [p["name"] for p in f.get("inner", []) if p.get("kind") == "ParmVarDecl"]
        env2 = {}
        for pn, a in zip(params, args):
            if isinstance(a, tuple) and a and a[0] == "addr":
                raise CUnsupported("address of a scalar passed to %s" % name)
            env2[pn] = a
        return self.call_body(tu2, f, env2)

    def memcpy(self, args):
        """memcpy(dst, src, nbytes) between two arrays of one element type: element k of the source window is copied to element k of the destination window
        for 0 <= k < nbytes / sizeof(element) (a quantified copy event; byte counts that are not a multiple of the element size are outside the subset)."""
        dst, src, nbytes = args[0], args[1], args[2]
        if not (isinstance(dst, Ptr) and isinstance(src, Ptr)):
            raise CUnsupported("memcpy between objects that are not arrays")
        kinds = {"complex": 16, "double": 8, "int": 4, "char": 1}
        kd, ks = dst.arr.kind, src.arr.kind
        if kd in ("raw", "void") and ks in kinds:
            dst.arr.kind = kd = ks
        if ks in ("raw", "void") and kd in kinds:
            src.arr.kind = ks = kd
        if kd != ks or kd not in kinds:
            raise CUnsupported("memcpy between arrays of different / unknown element types (%s, %s)" % (kd, ks))
        if isinstance(nbytes, tuple) and nbytes and nbytes[0] == "sizeof":
            nbytes = _sizeof(nbytes[1])
        nb = tm.lift(as_int(nbytes))
        try:
            count = self.nf.rf_to_term(self.nf.nf(nb * Q(1, kinds[kd])))
        except NFError:
            # a conditional element count (len = cond ? a : b): divide the branches
            def div_(u):
                if u.op == "ite":
                    return tm.mk_ite(u.args[0], div_(u.args[1]), div_(u.args[2]))
                try:
                    return self.nf.rf_to_term(self.nf.nf(u * Q(1, kinds[kd])))
                except NFError:
                    raise CUnsupported("memcpy byte count")
            factors = list(nb.args) if nb.op == "*" else [nb]
            ites = [f for f in factors if f.op == "ite"]
            if len(ites) == 1:
                rest = tm.mk_mul(*[f for f in factors if f is not ites[0]]) if len(factors) > 1 else tm.ONE
                count = div_(tm.mk_ite(ites[0].args[0], ites[0].args[1] * rest, ites[0].args[2] * rest))
            else:
                raise CUnsupported("memcpy byte count")
        if not _is_int_term(count):
            raise CUnsupported("memcpy byte count %s is not a whole number of elements" % tm.show(nb, 40))
        if self.dry:
            return dst
        k = fresh("mc")
        self.qvars.append((k, tm.ZERO, count, tm.ONE))
        g = [tm.mk_le(tm.ZERO, k), tm.mk_lt(k, count)]
        self.guards.extend(g)
        try:
            v = self.read(Ptr(src.arr, src.off + k))
            self.store(Ptr(dst.arr, dst.off + k), "=", v)
        finally:
            del self.guards[len(self.guards) - len(g):]
            self.qvars.pop()
        return dst

    def dgemm(self, args):
        def val(a):
            if isinstance(a, tuple) and a[0] == "addr":
                return as_int(a[2][a[1]])
            raise CUnsupported("dgemm_ scalar argument not passed by address")
        ta, tb = val(args[0]), val(args[1])
        M, N_, K = [tm.lift(val(a)) for a in args[2:5]]
        alpha = tm.lift(val(args[5]))
        A, lda, B, ldb = args[6], tm.lift(val(args[7])), args[8], tm.lift(val(args[9]))
        beta = tm.lift(val(args[10]))
        C, ldc = args[11], tm.lift(val(args[12]))
        ta = chr(ta) if isinstance(ta, int) else ta
        tb = chr(tb) if isinstance(tb, int) else tb
        ta = ta.upper() if isinstance(ta, str) else ta      # BLAS accepts either case
        tb = tb.upper() if isinstance(tb, str) else tb
        if ta not in ("N", "T") or tb not in ("N", "T"):
            raise CUnsupported("dgemm_ transposition flag")
        # reference BLAS: C(m,n) = alpha * sum_k opA(m,k) opB(k,n) + beta*C(m,n), column major
        m, nn, k = fresh("gm"), fresh("gn"), fresh("gk")
        ia = (m + k * lda) if ta == "N" else (k + m * lda)
        ib = (k + nn * ldb) if tb == "N" else (nn + k * ldb)
        ic = m + nn * ldc
        qm, qn, qk = (m, tm.ZERO, M, tm.ONE), (nn, tm.ZERO, N_, tm.ONE), (k, tm.ZERO, K, tm.ONE)
        gm = [tm.mk_le(tm.ZERO, m), tm.mk_lt(m, M), tm.mk_le(tm.ZERO, nn), tm.mk_lt(nn, N_)]
        gk = [tm.mk_le(tm.ZERO, k), tm.mk_lt(k, K)]
        if self.dry:
            return None
        # reads
        self.qvars.extend([qm, qn, qk])
        self.guards.extend(gm + gk)
        self.emit("r", Ptr(A.arr, A.off + ia), extra="dgemm")
        self.emit("r", Ptr(B.arr, B.off + ib), extra="dgemm")
        del self.guards[len(self.guards) - len(gk):]
        self.qvars.pop()
        prod = tm.mk_fn("rd:" + A.arr.name, A.off + ia) * tm.mk_fn("rd:" + B.arr.name, B.off + ib)
        s = alpha * tm.mk_sum(k, tm.ZERO, K, prod)
        if beta is tm.ZERO:
            self.emit("w", Ptr(C.arr, C.off + ic), "=", s, extra="dgemm")
        elif beta is tm.ONE:
            self.emit("w", Ptr(C.arr, C.off + ic), "+=", s, extra="dgemm")
        else:
            raise CUnsupported("dgemm_ with beta not in {0, 1}")
        del self.guards[len(self.guards) - len(gm):]
        self.qvars.pop()
        self.qvars.pop()
        return None


class Undef(object):
    def __init__(self, name):
        self.name = name

    def __repr__(self):
        return "<undef %s>" % self.name


class StructArr(Arr):
    """Array of structs (atc_atom *atc_convs): element i has integer fields  <name>.<field>(i)  and pointer fields that are windows
    <name>.<field>[ base_<field>(i) + k ]  of one flat array per field (blocks of different elements are not assumed disjoint)."""

    def __init__(self, name, fields):
        Arr.__init__(self, name, "struct")
        self.sfields = fields     # [(field name, C type)]
        self.flat = {}

    def element(self, sym, off):
        vals = {}
        off = tm.lift(off)
        for fname, fty in self.sfields:
            t = fty.replace("const ", "").strip()
            if t.endswith("*"):
                base = t[:-1].strip()
                arr = self.flat.setdefault(fname, Arr("%s.%s" % (self.name, fname), "int" if is_int_type(base) else "double"))
                vals[fname] = Ptr(arr, tm.mk_fi("%s.%s@base" % (self.name, fname), off))
            elif is_int_type(t):
                vals[fname] = tm.mk_fi("%s.%s" % (self.name, fname), off)
            elif is_real_type(t):
                vals[fname] = tm.mk_fn("rd:%s.%s" % (self.name, fname), off)
        return Struct(self.name + "[]", vals)


def _sizeof(ty):
    ty = ty.replace("const ", "").strip()
    if "*" in ty:
        return 8
    return {"double": 8, "float": 4, "int": 4, "char": 1, "long": 8, "size_t": 8, "double _Complex": 16, "_Complex double": 16, "fftw_complex": 16,
            "short": 2, "long long": 8, "uint8_t": 1, "int64_t": 8}.get(ty, 8)


def _is_int_term(t):
    if t.op == "c":
        return t.args[0].denominator == 1
    if t.op == "v":
        return t.args[1] == "I"
    if t.op == "fi":
        return True
    if t.op in ("+", "*"):
        return all(_is_int_term(a) for a in t.args)
    if t.op == "f":
        return t.args[0] in ("idiv", "imod", "trunc")
    if t.op == "ite":
        return _is_int_term(t.args[1]) and _is_int_term(t.args[2])
    if t.op == "^":
        return _is_int_term(t.args[0]) and t.args[1].op == "c" and t.args[1].args[0].denominator == 1 and t.args[1].args[0] >= 0
    return False


def _niter(lo, hi, step):
    if isinstance(step, int) and step == 1:
        return tm.mk_max(hi - lo, tm.ZERO) if not (lo.op == "c" and hi.op == "c") else tm.const(max(hi.args[0] - lo.args[0], 0))
    return tm.mk_fn("idiv", hi - lo + tm.lift(step) - 1, tm.lift(step))


def _strip(n):
    while n.get("kind") in ("ImplicitCastExpr", "ParenExpr", "ConstantExpr"):
        n = n["inner"][0]
    return n


def _walk(n):
    yield n
    for c in n.get("inner", []) or []:
        if isinstance(c, dict):
            for x in _walk(c):
                yield x


def _m1(name):
    def f(x):
        x = as_int(x)
        if name == "sqrt":
            if isinstance(x, (int, Q)) and x >= 0:
                q = Q(x)
                import math as _m
                rn, rd_ = _m.isqrt(q.numerator), _m.isqrt(q.denominator)
                if rn * rn == q.numerator and rd_ * rd_ == q.denominator:
                    return as_int(Q(rn, rd_))
            return tm.mk_sqrt(tm.lift(x))
        if name == "fabs":
            return tm.mk_fn("abs", tm.lift(x))
        return tm.mk_fn(name, tm.lift(x))
    return f


MATH = {n: _m1(n) for n in ("exp", "log", "sqrt", "fabs", "erf", "erfc", "sin", "cos", "tanh", "floor", "ceil", "tgamma", "atan", "lgamma", "cbrt", "expm1", "log1p", "sinh", "cosh", "acos", "asin")}
MATH["creal"] = lambda z: z.re if isinstance(z, Cx) else z
MATH["cimag"] = lambda z: z.im if isinstance(z, Cx) else 0
MATH["conj"] = lambda z: Cx(z.re, tm.mk_neg(tm.lift(z.im))) if isinstance(z, Cx) else z
MATH["fmax"] = lambda a, b: tm.mk_max(tm.lift(as_int(a)), tm.lift(as_int(b)))
MATH["fmin"] = lambda a, b: tm.mk_min(tm.lift(as_int(a)), tm.lift(as_int(b)))
MATH["pow"] = lambda a, b: tm.mk_pow(tm.lift(as_int(a)), tm.lift(as_int(b)))
MATH["atan"] = lambda x: (tm.PI / 4) if as_int(x) == 1 else tm.mk_fn("atan", tm.lift(x))
MATH["abs"] = lambda x: abs(x) if isinstance(as_int(x), int) else tm.mk_fn("abs", tm.lift(x))
MATH["cbrt"] = lambda x: tm.mk_pow(tm.lift(as_int(x)), tm.const(Q(1, 3)))
