"""A-spec (DESIGN 2.6): two linear routines are adjoint iff the multisets of triples (input index, output index, coefficient) of the one and
(output index, input index, coefficient) of the other coincide.

From a value-mode summary every write event   out[J(t)] (= | +=) value(t)   whose value is a sum of products with exactly one read of the
input array per product is decomposed into *families* of triples
        t in T (loop variables + bound variables of sums, with their ranges / guards):   (I(t), J(t), c(t)).
Two families are matched by a bijection of their iteration variables (searched among the permutations that respect the ranges) under which
guards are equivalent, indices are swapped-equal and coefficients are equal.  Index obligations go to the linearised integer procedure,
coefficient obligations to the exact normal form.
"""
import itertools

from pyvc import terms as tm
from pyvc import intarith, vc
from pyvc.nf import NF, NFError
from .csym import fresh


class Family(object):
    def __init__(self, ev, in_idx, coef, qvars, guards, in_arr):
        self.ev, self.in_idx, self.coef, self.qvars, self.guards, self.in_arr = ev, in_idx, coef, list(qvars), list(guards), in_arr
        self.out_idx, self.op, self.out_arr = ev.idx, ev.op, ev.arr.name

    def __repr__(self):
        return "<family %s[%s] %s c*%s[%s] over %s>" % (self.out_arr, tm.show(self.out_idx, 40), self.op, self.in_arr, tm.show(self.in_idx, 40), [q[0].args[0] for q in self.qvars])


def _products(t):
    """Expand a term into a list of (factors list, bound qvars, extra guards)."""
    t = tm.lift(t)
    if t.op == "+":
        out = []
        for a in t.args:
            out += _products(a)
        return out
    if t.op == "sum":
        bv, lo, hi, body = t.args
        q = fresh(bv.args[0].split("#")[0].split("$")[0].rstrip("'"))
        body = tm.substitute(body, {bv: q})
        return [(fs, [(q, lo, hi, tm.ONE)] + qs, [tm.mk_le(lo, q), tm.mk_lt(q, hi)] + gs) for fs, qs, gs in _products(body)]
    if t.op == "*":
        acc = [([], [], [])]
        for a in t.args:
            parts = _products(a) if a.op in ("+", "sum") else [([a], [], [])]
            acc = [(f1 + f2, q1 + q2, g1 + g2) for f1, q1, g1 in acc for f2, q2, g2 in parts]
        return acc
    return [([t], [], [])]


def families(sym, out_arr, in_arr, hyps=()):
    """Linear decomposition of the writes to out_arr w.r.t. reads of in_arr.  Returns (families, nonlinear events)."""
    fams, bad = [], []
    key = "rd:" + in_arr
    for e in sym.events:
        if e.kind != "w" or e.arr.name != out_arr:
            continue
        if not isinstance(e.val, tm.T):
            bad.append((e, "non-term value"))
            continue
        if e.val is tm.ZERO:
            fams.append(Family(e, None, tm.ZERO, e.qvars, e.guards, in_arr))      # zeroing store
            continue
        for factors, qs, gs in _products(e.val):
            reads = [f for f in factors if f.op == "f" and f.args[0] == key]
            nested = [f for f in factors if f not in reads and any(u.op == "f" and u.args[0] == key for u in tm.subterms(f).values())]
            if len(reads) != 1 or nested:
                bad.append((e, "a product with %d reads of %s" % (len(reads) + len(nested), in_arr)))
                continue
            coef = tm.mk_mul(*[f for f in factors if f is not reads[0]]) if len(factors) > 1 else tm.ONE
            fams.append(Family(e, reads[0].args[1], coef, list(e.qvars) + qs, list(e.guards) + gs, in_arr))
    return fams, bad


def _implies(hyps, prem, concl, timeout):
    for c in concl:
        r, env, be = intarith.check_sat_int(list(hyps) + list(prem) + [tm.mk_not(c)], timeout)
        if r != "unsat":
            return False, (c, r, env)
    return True, None


def match(F, B, hyps, timeout=5.0, b_assumes=()):
    """Is family B (of the backward routine) the transpose of family F?  Returns (status, detail) with status in
    'matched' | 'index-mismatch' | 'coef-mismatch' | 'no-bijection'."""
    if len(F.qvars) != len(B.qvars):
        return "no-bijection", "different numbers of iteration variables"
    nfc = NF()
    fv = [q[0] for q in F.qvars]
    best = None
    for perm in itertools.permutations(range(len(B.qvars))):
        m = {B.qvars[perm[k]][0]: fv[k] for k in range(len(fv))}
        sub = lambda t: tm.substitute(tm.lift(t), m)
        hyps_ = list(hyps) + [sub(a) for a in b_assumes]
        try:
            idx_ok = nfc.equal(F.in_idx, sub(B.out_idx)) and nfc.equal(F.out_idx, sub(B.in_idx))
        except NFError:
            idx_ok = False
        if not idx_ok:
            r1 = intarith.check_sat_int(hyps_ + F.guards + [tm.mk_not(tm.mk_and(tm.mk_eq(F.in_idx, sub(B.out_idx)), tm.mk_eq(F.out_idx, sub(B.in_idx))))], timeout)[0]
            idx_ok = r1 == "unsat"
        if not idx_ok:
            continue
        best = best or ("index-ok", perm)
        g_ok, why = _implies(hyps_, F.guards, [sub(g) for g in B.guards], timeout)
        if g_ok:
            g_ok, why = _implies(hyps_, [sub(g) for g in B.guards], F.guards, timeout)
        if not g_ok:
            best = ("guard-mismatch", perm, why)
            continue
        v = vc.decide_equal(hyps_ + F.guards, F.coef, sub(B.coef), timeout)
        if v.status != "discharged":
            # coefficients that are reads of a table at provably equal indices
            cf, cb = tm.lift(F.coef), sub(B.coef)
            if cf.op == "f" and cb.op == "f" and cf.args[0] == cb.args[0] and len(cf.args) == 2:
                if intarith.check_sat_int(hyps_ + F.guards + [tm.mk_not(tm.mk_eq(cf.args[1], cb.args[1]))], timeout)[0] == "unsat":
                    return "matched", perm
        if v.status == "discharged":
            return "matched", perm
        best = ("coef-mismatch", perm, v)
    if best is None:
        return "index-mismatch", "no renaming of the iteration variables makes (input, output) indices of the forward family equal to (output, input) of the backward family"
    return best[0], best


# ------------------------------------------------------------------ concrete comparison of the two operators (refutation side)
import zlib


def _table(name, idx):
    """Deterministic small integer tables for the concrete instance: location tables are increasing with step 2 (so that shells with two
    contractions / blocks of two rows occur), angular-momentum-like entries are 0/1, everything else small."""
    base = name.split(".")[-1]
    if base == "bas":
        return int(idx) % 2 if int(idx) % 8 == 1 else (int(idx) // 8) % 2
    if base.endswith("loc") or base.endswith("loc_ao") or base.startswith("loc") or base == "shls_slice":
        return 2 * int(idx)
    return (3 * int(idx) + 1) % 4


def _num(arr, idx):
    h = zlib.crc32(("%s|%d" % (arr, int(idx))).encode())
    return 0.25 + (h % 9973) / 9973.0


class _Eval(object):
    def __init__(self, env, niter_defs):
        self.env = env
        self.nd = niter_defs

    def ev(self, t):
        t = tm.lift(t)
        op = t.op
        if op == "c":
            v = t.args[0]
            return int(v) if v.denominator == 1 else float(v)
        if op == "v":
            if t in self.env:
                return self.env[t]
            if t in self.nd:
                return max(self.ev(self.nd[t]), 0)
            raise KeyError(t.args[0])
        if op == "+":
            return sum(self.ev(a) for a in t.args)
        if op == "*":
            r = 1
            for a in t.args:
                r = r * self.ev(a)
            return r
        if op == "^":
            return self.ev(t.args[0]) ** self.ev(t.args[1])
        if op == "fi":
            return _table(t.args[0], self.ev(t.args[1]))
        if op == "f":
            nm = t.args[0]
            if nm in ("idiv", "imod"):
                x, y = self.ev(t.args[1]), self.ev(t.args[2])
                q = abs(x) // abs(y)
                q = q if (x >= 0) == (y >= 0) else -q
                return q if nm == "idiv" else x - q * y
            if nm.startswith("rd:"):
                return _num(nm[3:], self.ev(t.args[1]))
            raise KeyError(nm)
        if op == "ite":
            return self.ev(t.args[1]) if self.ev(t.args[0]) else self.ev(t.args[2])
        if op == "<":
            return self.ev(t.args[0]) < self.ev(t.args[1])
        if op == "<=":
            return self.ev(t.args[0]) <= self.ev(t.args[1])
        if op == "==":
            return self.ev(t.args[0]) == self.ev(t.args[1])
        if op == "and":
            return all(self.ev(a) for a in t.args)
        if op == "or":
            return any(self.ev(a) for a in t.args)
        if op == "not":
            return not self.ev(t.args[0])
        if op == "T":
            return True
        if op == "F":
            return False
        raise KeyError(op)


def concrete_matrix(fams, params, niter_defs, transpose=False, limit=200000):
    """Matrix {(out, in): value} of a linear routine on a concrete instance (sizes from `params`), from its triple families."""
    M = {}
    count = [0]
    for F in fams:
        if F.in_idx is None:
            continue

        def rec(k, env):
            if k == len(F.qvars):
                E = _Eval(env, niter_defs)
                if not all(E.ev(g) for g in F.guards):
                    return
                count[0] += 1
                if count[0] > limit:
                    raise OverflowError
                key = (E.ev(F.out_idx), E.ev(F.in_idx))
                if transpose:
                    key = (key[1], key[0])
                sign = -1.0 if F.op == "-=" else 1.0
                M[key] = M.get(key, 0.0) + sign * float(E.ev(F.coef))
                return
            q, lo, hi, st = F.qvars[k]
            E = _Eval(env, niter_defs)
            try:
                l, h = E.ev(lo), E.ev(hi)
            except KeyError:
                l, h = 0, 4
            for v in range(int(l), int(h)):
                e2 = dict(env)
                e2[q] = v
                rec(k + 1, e2)
        rec(0, dict(params))
    return M


def concrete_discrepancy(Ff, Fb, int_params, niter_f, niter_b, instances=((3, 2), (5, 3), (4, 1))):
    """Search a concrete instance on which the backward operator is not the transpose of the forward one.  Returns a witness dict or None."""
    for size, nth in instances:
        params = {}
        for v in int_params:
            nm = v.args[0]
            if nm.startswith("nthreads") or nm.startswith("maxthreads"):
                params[v] = nth
            elif nm in ("offset", "offset1", "offset2", "offset_spline", "offset_orb", "ig"):
                params[v] = 0
            elif nm in ("stride", "stride1", "stride2", "nf"):
                params[v] = size + 2
            else:
                params[v] = size
        try:
            A = concrete_matrix(Ff, params, niter_f)
            B = concrete_matrix(Fb, params, niter_b, transpose=True)
        except (KeyError, OverflowError, ZeroDivisionError, TypeError):
            continue
        keys = set(A) | set(B)
        bad = [(k, A.get(k, 0.0), B.get(k, 0.0)) for k in keys if abs(A.get(k, 0.0) - B.get(k, 0.0)) > 1e-9]
        if bad and A and B:
            bad.sort()
            return {"instance": {v.args[0]: params[v] for v in params}, "entries (output index, input index): forward value vs transposed backward value": [list(map(float, (k[0], k[1], a, b))) for k, a, b in bad[:4]],
                    "nonzeros_forward": len(A), "nonzeros_backward": len(B)}
    return None


def reparametrise(F, tname, gname, total):
    """Partition lemma: if the iterations (t, g) of a partitioned loop visit every position P(t, g) of [0, total) exactly once (proved separately),
    the family can be indexed by the position G itself.  Requires that all indices / the coefficient depend on (t, g) only through P."""
    t = [q for q in F.qvars if q[0].args[0].split("#")[0] == tname]
    g = [q for q in F.qvars if q[0].args[0].split("#")[0] == gname]
    if len(t) != 1 or not g:
        return None
    t, g = t[0][0], g[-1][0]
    nfc = NF()
    z = lambda term: tm.substitute(tm.lift(term), {t: tm.ZERO, g: tm.ZERO})
    try:
        P_out = nfc.rf_to_term(nfc.nf(tm.lift(F.out_idx) - z(F.out_idx)))
        P_in = nfc.rf_to_term(nfc.nf(tm.lift(F.in_idx) - z(F.in_idx)))
        if not nfc.equal(P_out, P_in):
            return None
    except NFError:
        return None
    G = fresh("G")
    # the coefficient must depend on (t, g) through P only: replace P by G syntactically inside its read indices
    def conv(term):
        term = tm.lift(term)
        out = {}
        for u in tm.subterms(term).values():
            if u.op == "f" and u.args[0].startswith("rd:") and (t in tm.subterms(u).values() or g in tm.subterms(u).values()):
                idx = u.args[1]
                try:
                    rest = nfc.rf_to_term(nfc.nf(idx - P_out))
                except NFError:
                    return None
                if t in tm.subterms(rest).values() or g in tm.subterms(rest).values():
                    return None
                out[u] = tm.mk_fn(u.args[0], rest + G)
        r = tm.substitute(term, out)
        if t in tm.subterms(r).values() or g in tm.subterms(r).values():
            return None
        return r
    coef = conv(F.coef)
    if coef is None:
        return None
    keep_q = [q for q in F.qvars if q[0] is not t and q[0] is not g]
    keep_g = [x for x in F.guards if t not in tm.subterms(x).values() and g not in tm.subterms(x).values()]
    F2 = Family(F.ev, z(F.in_idx) + G, coef, keep_q + [(G, tm.ZERO, tm.lift(total), tm.ONE)], keep_g + [tm.mk_le(tm.ZERO, G), tm.mk_lt(G, tm.lift(total))], F.in_arr)
    F2.out_idx = z(F.out_idx) + G
    return F2
