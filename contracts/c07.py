"""C07 — spin-polarised and unpolarised evaluations agree; spin labels are symmetric.

Contracts (closed shell: both channels carry half the density, i.e. (rho/2, grad/2, tau/2), so sigma_s = sigma/4):
  settings:get_cider_exponent(_gga)   nspin=2 at (rho/2, sigma/4, tau/2, rhocut/2) = nspin=1 at (rho, sigma, tau, rhocut);
                                      derivative outputs scale by (2, 4, 2)
  plans:_BaseSemilocalPlan.get_feat   nspin=2 closed shell: each channel's features = the nspin=1 features; channels exchange covariantly
  plans:SemilocalPlan.get_vxc         per-channel potential of the closed shell = unpolarised potential; exchange covariance
  plans:get_rho_tuple_with_grad_cross / vxc_tuple_to_array   exchange of channels permutes (rho, sigma_aa/bb, tau) and the returned potential
  NLDFAuxiliaryPlan.eval_rho_full / eval_vxc_full   (C coefficient routine under its contract) closed-shell features equal the
                                      unpolarised ones (factors nspin, nspin^2 on l=1 dots), potentials likewise
  MappedDFTKernel / MappedDFTKernel2  SEP: E[X_a, X_b] = (E[X_a] + E[X_b]) / 2 with per-channel derivatives;
                                      NPOL, POL: equal channels reproduce the unpolarised energy, derivatives are equal per channel
                                      and sum to the unpolarised derivative; exchanging channels exchanges derivative blocks
"""
import os
import sys
import warnings

sys.path.insert(0, os.path.dirname(os.path.dirname(os.path.abspath(__file__))))
warnings.filterwarnings("ignore")

import numpy as np
from fractions import Fraction as Q

from pyvc import terms as tm
from pyvc import vc, smt
from pyvc.framework import run_property
from pyvc.interp import Obj, ExcV, Builtin
from contracts.common import *
from contracts.evalharness import *
from contracts import c04
from contracts.planharness import make_settings, make_plan

SMOD = "ciderpress.dft.settings"
PMOD = "ciderpress.dft.plans"
XMOD, X2MOD = c04.XMOD, c04.X2MOD
HALF = Q(1, 2)


def half(a, f=HALF):
    return np.array([tm.lift(x) * f for x in a.reshape(-1)], dtype=object).reshape(a.shape)


def unit_exponent(gga):
    def run(ctx):
        it = ctx.interp
        m = it.load_module(SMOD)
        name = "get_cider_exponent_gga" if gga else "get_cider_exponent"
        rho, sigma, tau = sym_array("rho", (NS,)), sym_array("sigma", (NS,)), sym_array("tau", (NS,))
        A, G, Tm, RC = tm.var("a0"), tm.var("grad_mul"), tm.var("tau_mul"), tm.var("rhocut")
        for gz in (True, False):
            hyps = [tm.mk_lt(tm.ZERO, RC), tm.mk_lt(tm.ZERO, A), tm.mk_le(tm.ZERO, Tm)] + ([] if gz else [tm.mk_lt(tm.ZERO, G)])
            hyps += [tm.mk_le(tm.ZERO, s) for s in sigma] + [tm.mk_le(tm.ZERO, t) for t in tau]
            it.hyps = list(hyps)
            g = 0 if gz else G

            def call(r, s_, t_, rc, nspin):
                if gga:
                    return it.call(m.ns[name], [r.copy(), s_.copy()], {"a0": A, "grad_mul": g, "rhocut": rc, "nspin": nspin})
                return it.call(m.ns[name], [r.copy(), s_.copy(), t_.copy()], {"a0": A, "grad_mul": g, "tau_mul": Tm, "rhocut": rc, "nspin": nspin})
            p1 = all_paths(it, lambda: call(rho, sigma, tau, RC, 1))
            p2 = all_paths(it, lambda: call(half(rho), half(sigma, Q(1, 4)), half(tau), RC * HALF, 2))
            fq = ["%s:%s" % (SMOD, name)]
            n = 0
            for o1, v1, pc1, _ in p1:
                for o2, v2, pc2, _ in p2:
                    if o1 != "return" or o2 != "return":
                        continue
                    H = hyps + pc1 + pc2
                    facs = [1, 2, 4, 2]
                    for k in range(len(v1)):
                        for s in range(NS):
                            # both sides contain the cutoff guard: they must agree on either side of it
                            ctx.equal("%s out%d [s=%d,%s]#%d" % (name, k, s, "grad0" if gz else "grad+", n), H, v2[k][s], facs[k] * tm.lift(v1[k][s]), fq,
                                      replay=replay_exponent(gga, gz))
                    ctx.canary("canary[%s]#%d" % ("grad0" if gz else "grad+", n), H + [tm.mk_lt(RC, rho[0])], v2[0][0], 2 * tm.lift(v1[0][0]))
                    n += 1
    return run


def replay_exponent(gga, gz):
    def replay(wit):
        import ciderpress.dft.settings as S
        e = env_floats(wit or {})
        rho = np.array([e.get("rho_%d" % s, 0.7) for s in range(NS)])
        sig = np.array([e.get("sigma_%d" % s, 0.3) for s in range(NS)])
        tau = np.array([e.get("tau_%d" % s, 0.4) for s in range(NS)])
        rc = e.get("rhocut", 1e-3)
        kw = dict(a0=e.get("a0", 1.2), grad_mul=0.0 if gz else e.get("grad_mul", 0.2))
        if gga:
            a1 = S.get_cider_exponent_gga(rho.copy(), sig.copy(), rhocut=rc, nspin=1, **kw)
            a2 = S.get_cider_exponent_gga(rho / 2, sig / 4, rhocut=rc / 2, nspin=2, **kw)
        else:
            kw["tau_mul"] = e.get("tau_mul", 0.03)
            a1 = S.get_cider_exponent(rho.copy(), sig.copy(), tau.copy(), rhocut=rc, nspin=1, **kw)
            a2 = S.get_cider_exponent(rho / 2, sig / 4, tau / 2, rhocut=rc / 2, nspin=2, **kw)
        facs = [1, 2, 4, 2]
        bad = any(not close(x2, f * x1) for x1, x2, f in zip(a1, a2, facs))
        return {"reproduced": bool(bad), "nspin1": [x.tolist() for x in a1], "nspin2": [x.tolist() for x in a2]}
    return replay


def unit_semilocal(mode):
    def run(ctx):
        it = ctx.interp
        sm, pm = it.load_module(SMOD), it.load_module(PMOD)
        st = it.call(sm.ns["SemilocalSettings"], [mode], {})
        p1 = it.call(pm.ns["SemilocalPlan"], [st, 1], {})
        p2 = it.call(pm.ns["SemilocalPlan"], [st, 2], {})
        tol = tm.const(Q(1, 10 ** 10))
        fq = [PMOD + ":SemilocalPlan.get_feat", PMOD + ":SemilocalPlan.get_vxc", PMOD + ":_BaseSemilocalPlan._fill_feat_%s_" % mode, PMOD + ":SemilocalPlan._fill_vxc_%s_" % mode]
        # ---- closed shell
        r1 = sym_array("r", (1, 5, NS))
        hyps = [tm.mk_lt(2 * tol, r1[0, 0, g]) for g in range(NS)] + [tm.mk_le(tm.ZERO, r1[0, 4, g]) for g in range(NS)]
        it.hyps = list(hyps)
        r2 = np.concatenate([half(r1), half(r1)], axis=0)
        f1 = all_paths(it, lambda: it.call_method(p1, "get_feat", [r1.copy()]))
        f2 = all_paths(it, lambda: it.call_method(p2, "get_feat", [r2.copy()]))
        nf = 3 if mode in ("nst", "npa") else 2
        vf1 = sym_array("v", (1, nf, NS))
        vf2 = np.concatenate([vf1, vf1], axis=0)
        n = 0
        for o1, a1, pc1, _ in f1:
            for o2, a2, pc2, _ in f2:
                if o1 != "return" or o2 != "return":
                    continue
                H = hyps + pc1 + pc2
                for s in range(2):
                    for i in range(nf):
                        for g in range(NS):
                            ctx.equal("closed-shell feat[%d,%d,%d]#%d" % (s, i, g, n), H, tm.drop_small_addends(a2[s, i, g]), tm.drop_small_addends(a1[0, i, g]), fq)
                n += 1
        ctx.assume("A2: 1e-16 regularisers of get_s2/get_alpha dropped in the closed-shell identities (they are not spin-scaled)")
        v1 = all_paths(it, lambda: it.call_method(p1, "get_vxc", [r1.copy(), vf1.copy()]))
        v2 = all_paths(it, lambda: it.call_method(p2, "get_vxc", [r2.copy(), vf2.copy()]))
        n = 0
        for o1, a1, pc1, _ in v1:
            for o2, a2, pc2, _ in v2:
                if o1 != "return" or o2 != "return":
                    continue
                H = hyps + pc1 + pc2
                # E = sum_g eps(feat): with per-channel features equal to the unpolarised ones and d feat_s / d rho_s = 2 * d feat / d rho at the
                # closed shell, the per-channel potential for the *same* vfeat in both channels is twice ... no: vfeat is dE/dfeat_s; the
                # unpolarised dE/dfeat = sum_s dE/dfeat_s, so compare with vfeat_s = vfeat/2 below.  Here: linearity check v2(vf, vf) = 2 * v1(vf) per channel / 1
                for s in range(2):
                    for c in range(5 if nf == 3 else 4):
                        for g in range(NS):
                            fac = 2 if c in (0, 4) else 2   # d(feat_s)/d(rho_s comp) = 2 * d(feat)/d(rho comp) at rho_s = rho/2 for every component
                            ctx.equal("closed-shell vxc[%d,%d,%d]#%d" % (s, c, g, n), H, tm.drop_small_addends(a2[s, c, g]), fac * tm.drop_small_addends(a1[0, c, g]), fq)
                ctx.canary("canary vxc#%d" % n, H, tm.drop_small_addends(a2[0, 0, 0]), tm.drop_small_addends(a1[0, 0, 0]))
                n += 1
        # ---- exchange covariance
        ra = sym_array("q", (2, 5, NS))
        hyps = [tm.mk_lt(tol, ra[s, 0, g]) for s in range(2) for g in range(NS)] + [tm.mk_le(tm.ZERO, ra[s, 4, g]) for s in range(2) for g in range(NS)]
        it.hyps = list(hyps)
        rb = ra[::-1].copy()
        va = sym_array("w", (2, nf, NS))
        vb = va[::-1].copy()
        fa = all_paths(it, lambda: (it.call_method(p2, "get_feat", [ra.copy()]), it.call_method(p2, "get_vxc", [ra.copy(), va.copy()])))
        fb = all_paths(it, lambda: (it.call_method(p2, "get_feat", [rb.copy()]), it.call_method(p2, "get_vxc", [rb.copy(), vb.copy()])))
        n = 0
        for o1, a1, pc1, _ in fa:
            for o2, a2, pc2, _ in fb:
                if o1 != "return" or o2 != "return":
                    continue
                H = hyps + pc1 + pc2
                for s in range(2):
                    for g in range(NS):
                        for i in range(nf):
                            ctx.equal("exchange feat[%d,%d,%d]#%d" % (s, i, g, n), H, a2[0][s, i, g], a1[0][1 - s, i, g], fq)
                        for c in range(a1[1].shape[1]):
                            ctx.equal("exchange vxc[%d,%d,%d]#%d" % (s, c, g, n), H, a2[1][s, c, g], a1[1][1 - s, c, g], fq)
                n += 1
    return run


def unit_semilocal_alldens(mode):
    """Closed-shell agreement of the semilocal features for EVERY positive density, including the window around ALPHA_TOL that the main unit
    excludes by its precondition (rho > 2 ALPHA_TOL)."""
    def run(ctx):
        it = ctx.interp
        sm, pm = it.load_module(SMOD), it.load_module(PMOD)
        st = it.call(sm.ns["SemilocalSettings"], [mode], {})
        p1 = it.call(pm.ns["SemilocalPlan"], [st, 1], {})
        p2 = it.call(pm.ns["SemilocalPlan"], [st, 2], {})
        fq = [PMOD + ":SemilocalPlan.get_feat", PMOD + ":_BaseSemilocalPlan._fill_feat_%s_" % mode, SMOD + ":get_s2", SMOD + ":get_alpha"]
        r1 = sym_array("r", (1, 5, 1))
        hyps = [tm.mk_lt(tm.ZERO, r1[0, 0, 0]), tm.mk_le(tm.ZERO, r1[0, 4, 0])]
        it.hyps = list(hyps)
        r2 = np.concatenate([half(r1), half(r1)], axis=0)
        f1 = [p for p in all_paths(it, lambda: it.call_method(p1, "get_feat", [r1.copy()])) if p[0] == "return"]
        f2 = [p for p in all_paths(it, lambda: it.call_method(p2, "get_feat", [r2.copy()])) if p[0] == "return"]
        nf = 3 if mode in ("nst", "npa") else 2
        names = {"nst": ["n", "sigma", "tau"], "npa": ["n", "s2", "alpha"], "ns": ["n", "sigma"], "np": ["n", "s2"]}[mode]
        ctx.holds("all-densities[%s]: both plans return" % mode, len(f1) >= 1 and len(f2) >= 1, "", fq)
        for i in range(nf):
            verdicts = []
            for o1, a1, pc1, _ in f1:
                for o2, a2, pc2, _ in f2:
                    H = hyps + pc1 + pc2
                    if not smt.feasible(H, 3.0)[0]:
                        continue
                    verdicts.append(vc.decide_equal(H, tm.drop_small_addends(a2[0, i, 0]), tm.drop_small_addends(a1[0, i, 0]), ctx.timeout, ctx.rng))
            bad = [v for v in verdicts if v.status != "discharged"]
            v = bad[0] if bad else (verdicts[0] if verdicts else vc.Verdict("undecided", "engine", "no feasible path pair"))
            ctx._rec("obligation", "all-densities[%s]: closed-shell feature %s (nspin=2 at half densities) = unpolarised feature for every positive density" % (mode, names[i]), v, fq,
                     replay=replay_alpha_tol(mode, i))
    return run


def replay_alpha_tol(mode, i):
    def replay(wit):
        from pyvc import native
        native.install_shim()
        from ciderpress.dft.settings import SemilocalSettings
        from ciderpress.dft.plans import SemilocalPlan
        st = SemilocalSettings(mode)
        p1, p2 = SemilocalPlan(st, 1), SemilocalPlan(st, 2)
        n = 1.5e-10                                 # total density between ALPHA_TOL and 2 ALPHA_TOL
        g = np.array([1e-12, 0.0, 0.0])
        rho1 = np.zeros((1, 5, 1))
        rho1[0, 0, 0], rho1[0, 1:4, 0], rho1[0, 4, 0] = n, g, 5e-14
        rho2 = np.concatenate([rho1 / 2, rho1 / 2])
        a = p1.get_feat(rho1.copy())[0, i, 0]
        b = p2.get_feat(rho2.copy())[0, i, 0]
        return {"reproduced": bool(abs(a - b) > 1e-8 * (abs(a) + abs(b) + 1e-300)), "feature_nspin1": float(a), "feature_nspin2_closed_shell": float(b), "total_density": n, "ALPHA_TOL": 1e-10}
    return replay


def unit_rho_tuple(ctx):
    it = ctx.interp
    pm = it.load_module(PMOD)
    fq = [PMOD + ":get_rho_tuple_with_grad_cross", PMOD + ":vxc_tuple_to_array"]
    for mgga in (True, False):
        ra = sym_array("q", (2, 5, NS))
        rb = ra[::-1].copy()
        ta = it.call(pm.ns["get_rho_tuple_with_grad_cross"], [ra.copy()], {"is_mgga": mgga})
        tb = it.call(pm.ns["get_rho_tuple_with_grad_cross"], [rb.copy()], {"is_mgga": mgga})
        for g in range(NS):
            for s in range(2):
                ctx.equal("exchange rho[%d,%d] mgga=%s" % (s, g, mgga), [], tb[0][s, g], ta[0][1 - s, g], fq)
                ctx.equal("exchange sigma_ss[%d,%d] mgga=%s" % (s, g, mgga), [], tb[1][2 * s, g], ta[1][2 - 2 * s, g], fq)
                if mgga:
                    ctx.equal("exchange tau[%d,%d]" % (s, g), [], tb[2][s, g], ta[2][1 - s, g], fq)
            ctx.equal("exchange sigma_ab[%d] mgga=%s" % (g, mgga), [], tb[1][1, g], ta[1][1, g], fq)
            ctx.equal("sigma_ab = grad_a . grad_b [%d]" % g, [], ta[1][1, g], sum(ra[0, 1 + x, g] * ra[1, 1 + x, g] for x in range(3)), fq)
        # potential: reverse D-spec of the tuple map, for both spin counts
        for nspin in (1, 2):
            r = sym_array("q", (nspin, 5, NS))
            t = it.call(pm.ns["get_rho_tuple_with_grad_cross"], [r.copy()], {"is_mgga": mgga})
            vt = [sym_array("v%d" % k, np.asarray(x, dtype=object).shape) for k, x in enumerate(t)]
            varr = it.call(pm.ns["vxc_tuple_to_array"], [r.copy(), tuple(v.copy() for v in vt)], {})
            for s in range(nspin):
                for c in range(5):
                    for g in range(NS):
                        expect = tm.ZERO
                        for k, x in enumerate(t):
                            x = np.asarray(x, dtype=object)
                            for cc in range(x.shape[0]):
                                expect = expect + vt[k][cc, g] * tm.diff(tm.lift(x[cc, g]), r[s, c, g])
                        ctx.equal("vxc_tuple_to_array[%d,%d,%d] = sum v dtuple/drho (nspin=%d,mgga=%s)" % (s, c, g, nspin, mgga), [], varr[s, c, g], expect, fq)
    ctx.canary("rho-tuple canary", [], ta[1][1, 0], ta[1][0, 0])


def unit_nldf(version, level, rho_mult):
    def run(ctx):
        it = ctx.interp
        hyps = []
        st = make_settings(it, version, level, rho_mult, hyps)
        RC = tm.var("rhocut")
        hyps.append(tm.mk_lt(tm.ZERO, RC))
        nalpha = 2
        p1 = make_plan(it, st, 1, nalpha=nalpha, hyps=hyps, rhocut=RC)
        p2 = make_plan(it, st, 2, nalpha=nalpha, hyps=list(hyps), rhocut=RC)
        nvi = it.getattr(p1, "num_vi_ints")
        nrow = (0 if version == "i" else nalpha) + nvi
        f1 = sym_array("f", (NS, nrow))
        nrho = 5 if level == "MGGA" else 4
        r1 = sym_array("r", (nrho, NS))
        for x in r1[0]:
            hyps.append(tm.mk_lt(RC, x))
        if level == "MGGA":
            for x in r1[4]:
                hyps.append(tm.mk_le(tm.ZERO, x))
        it.hyps = list(hyps)
        fq = [PMOD + ":NLDFAuxiliaryPlan." + n for n in ("eval_rho_full", "eval_vxc_full", "eval_rho_vj_", "eval_rho_vi_", "eval_vxc_vj_", "eval_vxc_vi_", "eval_feat_exp", "get_function_to_convolve")]
        a1 = all_paths(it, lambda: it.call_method(p1, "eval_rho_full", [f1.copy(), r1.copy()], {"spin": 0}))
        a2 = all_paths(it, lambda: it.call_method(p2, "eval_rho_full", [half(f1), half(r1)], {"spin": 1}))
        n = 0
        for o1, v1, pc1, _ in a1:
            for o2, v2, pc2, _ in a2:
                if o1 != "return" or o2 != "return":
                    ctx.holds("eval_rho_full.total#%d" % n, False, "raises %s / %s" % (v1 if o1 != "return" else "", v2 if o2 != "return" else ""), fq)
                    n += 1
                    continue
                H = hyps + pc1 + pc2
                feat1, feat2 = v1[0], v2[0]
                ctx.holds("feat shapes#%d" % n, feat1.shape == feat2.shape, "", fq)
                for i in range(feat1.shape[0]):
                    for g in range(NS):
                        ctx.equal("closed-shell NLDF feature[%d,%d]#%d" % (i, g, n), H, feat2[i, g], feat1[i, g], fq)
                ctx.canary("nldf canary#%d" % n, H, feat2[feat1.shape[0] - 1, 0], 2 * tm.lift(feat1[feat1.shape[0] - 1, 0]))
                n += 1
        # function to convolve (rho_mult): closed shell gives half of the unpolarised function per channel
        rt1 = it.call_method(p1, "get_rho_tuple", [r1.copy()])
        rt2 = it.call_method(p2, "get_rho_tuple", [half(r1)])
        c1 = all_paths(it, lambda: it.call_method(p1, "get_function_to_convolve", [tuple(np.asarray(x, dtype=object).copy() for x in rt1)]))
        c2 = all_paths(it, lambda: it.call_method(p2, "get_function_to_convolve", [tuple(np.asarray(x, dtype=object).copy() for x in rt2)]))
        n = 0
        for o1, v1, pc1, _ in c1:
            for o2, v2, pc2, _ in c2:
                if o1 != "return" or o2 != "return":
                    continue
                H = hyps + pc1 + pc2
                for g in range(NS):
                    ctx.equal("closed-shell function-to-convolve[%d]#%d" % (g, n), H, v2[0][g], HALF * tm.lift(v1[0][g]), fq)
                n += 1
    return run


def unit_plan_new(kind):
    """NLDFAuxiliaryPlan.new(**kwargs): a plan with the same parameters except those overridden.  ensures, for nspin = 1 and 2 alike, every constructor
    parameter that is not overridden is carried over UNCHANGED — in particular the density cutoff (stored spin-scaled as rhocut / nspin, the convention the
    closed-shell identities of units nldf/* rest on): new().rhocut = self.rhocut, so that the derived plans of the two spin modes stand in the same
    relation as the plans they come from."""
    def run(ctx):
        it = ctx.interp
        fq = [PMOD + ":NLDFAuxiliaryPlan.new", PMOD + ":NLDFAuxiliaryPlan.__init__"]
        RC = tm.var("rhocut")
        derived = {}
        for nspin in (1, 2):
            hyps = []
            st = make_settings(it, "j", "MGGA", "one", hyps)
            hyps.append(tm.mk_lt(tm.ZERO, RC))
            p = make_plan(it, st, nspin, nalpha=2, hyps=hyps, rhocut=RC, kind=kind)
            for label, kw in (("new()", {}), ("new(coef_order='qg')", {"coef_order": "qg"}), ("new().new()", None)):
                try:
                    q = it.call_method(it.call_method(p, "new", [], {}), "new", [], {}) if kw is None else it.call_method(p, "new", [], dict(kw))
                except (PyRaise, Unsupported) as e:
                    ctx.undecided("%s nspin=%d %s runs" % (kind, nspin, label), str(e)[:200], fq)
                    continue
                tag = "%s nspin=%d %s" % (kind, nspin, label)
                ctx.equal("%s: the spin-scaled density cutoff of the derived plan is the one of the original plan" % tag, hyps, q.fields["rhocut"], p.fields["rhocut"], fq,
                          replay=replay_plan_new())
                ctx.equal("%s: derived cutoff = rhocut / nspin" % tag, hyps, q.fields["rhocut"], RC / nspin, fq, replay=replay_plan_new())
                for a in ("nspin", "alpha0", "lambd", "coef_order", "alpha_formula", "proc_inds", "expcut", "nldf_settings"):
                    if a in (kw or {}):
                        ctx.holds("%s: %s overridden" % (tag, a), q.fields.get(a) == kw[a], str(q.fields.get(a)), fq)
                        continue
                    x, y = q.fields.get(a), p.fields.get(a)
                    same = (x is y) or (isinstance(x, (int, str, Q)) and x == y) or (isinstance(x, tm.T) and isinstance(y, tm.T) and tm.lift(x) is tm.lift(y))
                    ctx.holds("%s: %s carried over" % (tag, a), bool(same), "%s vs %s" % (str(x)[:40], str(y)[:40]), fq)
                ctx.holds("%s: nalpha carried over" % tag, int(q.fields["nalpha"]) == 2, str(q.fields["nalpha"]), fq)
                derived[(nspin, label)] = (q, hyps)
        if (1, "new()") in derived and (2, "new()") in derived:
            (q1, h1), (q2, h2) = derived[(1, "new()")], derived[(2, "new()")]
            ctx.equal("%s: derived plans of the two spin modes: per-spin cutoff of nspin=2 is half the unpolarised one" % kind, h1, q2.fields["rhocut"], HALF * tm.lift(q1.fields["rhocut"]), fq,
                      replay=replay_plan_new())
            ctx.canary("%s plan.new canary" % kind, h1, q2.fields["rhocut"], q1.fields["rhocut"])
    return run


def replay_plan_new():
    def replay(wit):
        from pyvc import native
        native.install_shim()
        from ciderpress.dft.settings import NLDFSettingsVJ
        from ciderpress.dft.plans import NLDFGaussianPlan
        st = NLDFSettingsVJ("MGGA", [1.0, 0.0, 0.03125], "one", ["se_ar2"], [[2.0, 0.0, 0.04]])
        out = {}
        for nspin in (1, 2):
            p = NLDFGaussianPlan(st, nspin, 0.01, 1.8, 10, rhocut=1e-6)
            out[nspin] = (p.rhocut, p.new().rhocut)
        n, z = np.array([0.6e-6]), np.array([0.0])
        a1 = NLDFGaussianPlan(st, 1, 0.01, 1.8, 10, rhocut=1e-6).new().eval_feat_exp((n, z, z), i=-1)[0]
        a2 = NLDFGaussianPlan(st, 2, 0.01, 1.8, 10, rhocut=1e-6).new().eval_feat_exp((n / 2, z, z), i=-1)[0]
        return {"reproduced": bool(out[2][0] != out[2][1] or out[1][0] != out[1][1]), "rhocut_of_plan_and_of_plan.new()": {str(k): list(v) for k, v in out.items()},
                "closed_shell_exponent_at_n=6e-7_unpolarised_vs_polarised_through_new()": [float(a1[0]), float(a2[0])]}
    return replay


def unit_libxc_ss(ctx):
    """Same-spin libxc baselines (get_libxc_baseline_ss, also the SS part subtracted by get_libxc_baseline_os), with the libxc entry point under its
    contract (an unspecified differentiable energy density B of (n_a, n_b, s_aa, s_ab, s_bb); no symmetry of B is assumed):
       separable      E_ss[n_a, n_b] = (E_ss[2 n_a] + E_ss[2 n_b]) / 2   with s_aa -> 4 s_aa (the gradient of 2 n_a)
       exchange       swapping the channels (n_a <-> n_b, s_aa <-> s_bb) leaves E unchanged and swaps vrho and (vsigma_aa, vsigma_bb); vsigma_ab = 0
       closed shell   E_ss[n/2, n/2] = E_ss[n], both vrho channels = the unpolarised vrho."""
    it = ctx.interp
    b = it.load_module(c04.BMOD)
    c04.libxc_contract(it)
    fq = [c04.BMOD + ":get_libxc_baseline_ss", c04.BMOD + ":get_libxc_baseline"]
    ctx.assume("libxc (ctypes entry point get_gga_baseline): energy per particle of an unspecified differentiable energy density B, v* = partial derivatives of B; no spin symmetry of B is assumed for the same-spin recombination")
    na, nb = sym_array("na", (NS,)), sym_array("nb", (NS,))
    saa, sab, sbb = sym_array("saa", (NS,)), sym_array("sab", (NS,)), sym_array("sbb", (NS,))
    H = [tm.mk_lt(tm.ZERO, x) for x in list(na) + list(nb)]
    it.hyps = list(H)
    mk2 = lambda ra, rb, s0, s1, s2: (np.array([list(ra), list(rb)], dtype=object), np.array([list(s0), list(s1), list(s2)], dtype=object))
    mk1 = lambda r, s_: (np.array([list(r)], dtype=object), np.array([list(s_)], dtype=object))
    for xcid in b.ns["SS_GGA_CODES"]:
        run = lambda tup: it.call(b.ns["get_libxc_baseline"], [xcid, tup], {})
        try:
            e2, vr2, vs2 = run(mk2(na, nb, saa, sab, sbb))
            ex, vrx, vsx = run(mk2(nb, na, sbb, sab, saa))
            e1a, vr1a, vs1a = run(mk1([2 * tm.lift(x) for x in na], [4 * tm.lift(x) for x in saa]))
            e1b, vr1b, vs1b = run(mk1([2 * tm.lift(x) for x in nb], [4 * tm.lift(x) for x in sbb]))
            ec, vrc, vsc = run(mk2(na, na, saa, saa, saa))
        except (PyRaise, Unsupported) as e:
            ctx.undecided("libxc_ss[%s] runs" % xcid, str(e)[:200], fq)
            continue
        for g in range(NS):
            t = "libxc_ss[%s] point %d" % (xcid, g)
            ctx.equal("%s: separable E[n_a, n_b] = (E[2 n_a] + E[2 n_b]) / 2" % t, H, e2[g], HALF * (tm.lift(e1a[g]) + tm.lift(e1b[g])), fq, replay=replay_libxc_ss(xcid))
            ctx.equal("%s: exchanging the spin channels leaves the energy unchanged" % t, H, ex[g], e2[g], fq, replay=replay_libxc_ss(xcid))
            ctx.equal("%s: exchange swaps vrho (a <- b)" % t, H, vrx[0, g], vr2[1, g], fq, replay=replay_libxc_ss(xcid))
            ctx.equal("%s: exchange swaps vrho (b <- a)" % t, H, vrx[1, g], vr2[0, g], fq, replay=replay_libxc_ss(xcid))
            ctx.equal("%s: exchange swaps vsigma_aa and vsigma_bb" % t, H, vsx[0, g], vs2[2, g], fq, replay=replay_libxc_ss(xcid))
            ctx.equal("%s: exchange swaps vsigma_bb and vsigma_aa" % t, H, vsx[2, g], vs2[0, g], fq, replay=replay_libxc_ss(xcid))
            ctx.equal("%s: no cross-spin gradient dependence (vsigma_ab = 0)" % t, H, vs2[1, g], tm.ZERO, fq)
            ctx.equal("%s: per-channel vrho = unpolarised vrho at the doubled channel density" % t, H, vr2[0, g], vr1a[0, g], fq, replay=replay_libxc_ss(xcid))
            ctx.equal("%s: closed shell E[n/2, n/2] = E[n]" % t, H, ec[g], e1a[g], fq, replay=replay_libxc_ss(xcid))
            ctx.equal("%s: closed shell: both channels carry the unpolarised vrho" % t, H, vrc[1, g], vr1a[0, g], fq)
        ctx.canary("libxc_ss[%s] canary" % xcid, H, e2[0], e1a[0])
        # frame: the caller's density tuple is left as it was, in either memory layout (plans.get_rho_tuple_with_grad_cross hands over column-major arrays, for
        # which numpy's as*array conversions return the argument itself); and the result does not depend on the layout
        for order in ("C", "F"):
            r_in, s_in = mk2(na, nb, saa, sab, sbb)
            r_in, s_in = (np.asfortranarray(r_in), np.asfortranarray(s_in)) if order == "F" else (r_in, s_in)
            r0, s0 = r_in.copy(), s_in.copy()
            try:
                eo, vro, vso = run((r_in, s_in))
            except (PyRaise, Unsupported) as e:
                ctx.undecided("libxc_ss[%s] runs on %s-ordered input" % (xcid, order), str(e)[:200], fq)
                continue
            ctx.holds("libxc_ss[%s]: the caller's (rho, sigma) arrays are unchanged afterwards (%s-ordered input)" % (xcid, order), same_elements(r_in, r0) and same_elements(s_in, s0), "", fq,
                      witness={"order": order}, replay=replay_libxc_ss_frame(xcid))
            for g in range(NS):
                if tm.lift(eo[g]) is not tm.lift(e2[g]):
                    ctx.equal("libxc_ss[%s] point %d: energy independent of the memory layout of the input (%s)" % (xcid, g, order), H, eo[g], e2[g], fq, replay=replay_libxc_ss_frame(xcid))


def replay_libxc_ss_frame(xcid):
    def replay(wit):
        from pyvc import native
        native.install_shim()
        from ciderpress.dft.baselines import get_libxc_baseline
        rng = np.random.RandomState(7)
        ng = 5
        rho = np.asfortranarray(0.3 + rng.rand(2, ng))
        sig = np.asfortranarray(0.1 + rng.rand(3, ng))
        sig[1] = 0.5 * np.sqrt(sig[0] * sig[2])
        r0, s0 = rho.copy(), sig.copy()
        e_f = get_libxc_baseline(xcid, (rho, sig))[0]
        changed = float(max(np.max(np.abs(rho - r0)), np.max(np.abs(sig - s0))))
        e_c = get_libxc_baseline(xcid, (np.ascontiguousarray(r0), np.ascontiguousarray(s0)))[0]
        return {"reproduced": bool(changed > 0 or np.max(np.abs(e_f - e_c)) > 1e-12), "input changed by": changed, "energy difference F vs C layout": float(np.max(np.abs(e_f - e_c)))}
    return replay


def replay_libxc_ss(xcid):
    def replay(wit):
        from pyvc import native
        native.install_shim()
        from ciderpress.dft.baselines import get_libxc_baseline
        rng = np.random.RandomState(5)
        ng = 6
        ga, gb = rng.randn(3, ng), rng.randn(3, ng)
        na, nb = rng.rand(ng) + 0.2, rng.rand(ng) + 0.3
        sig = np.array([np.sum(ga * ga, 0), np.sum(ga * gb, 0), np.sum(gb * gb, 0)])
        e2 = get_libxc_baseline(xcid, (np.array([na, nb]), sig.copy()))[0]
        ex = get_libxc_baseline(xcid, (np.array([nb, na]), sig[::-1].copy()))[0]
        e1a = get_libxc_baseline(xcid, (np.array([2 * na]), np.array([4 * sig[0]])))[0]
        e1b = get_libxc_baseline(xcid, (np.array([2 * nb]), np.array([4 * sig[2]])))[0]
        d_sep = float(np.max(np.abs(e2 - 0.5 * (e1a + e1b))))
        d_ex = float(np.max(np.abs(e2 - ex)))
        return {"reproduced": bool(max(d_sep, d_ex) > 1e-10), "max_dev_separability": d_sep, "max_dev_exchange": d_ex, "xcid": xcid}
    return replay


def sym_base(tag):
    # spin-exchange symmetric baseline: M(a, b) = S(a, b) + S(b, a)   (contract of an exchange-correlation functional of two equivalent spins)
    def base(X):
        ns, n0, ng = X.shape
        m = np.empty((ng,), dtype=object)
        dm = np.empty((ns, n0, ng), dtype=object)
        for g in range(ng):
            cols = [[X[s, i, g] for i in range(n0)] for s in range(ns)]
            if ns == 1:
                a = cols[0]
                m[g] = 2 * ufn("S" + tag, a + a)
                for i in range(n0):
                    dm[0, i, g] = 2 * (ufn("D%d_S%s" % (i, tag), a + a) + ufn("D%d_S%s" % (n0 + i, tag), a + a))
            else:
                a, b = cols
                m[g] = ufn("S" + tag, a + b) + ufn("S" + tag, b + a)
                for i in range(n0):
                    dm[0, i, g] = ufn("D%d_S%s" % (i, tag), a + b) + ufn("D%d_S%s" % (n0 + i, tag), b + a)
                    dm[1, i, g] = ufn("D%d_S%s" % (n0 + i, tag), a + b) + ufn("D%d_S%s" % (i, tag), b + a)
        return m, dm
    return Builtin("sym." + tag, base)



def unit_wrappers(version):
    """SEP additivity, NPOL / POL closed-shell agreement and exchange symmetry of the model wrappers."""
    def run(ctx):
        it = ctx.interp
        if version == 2:
            c04.libxc_contract(it)
            x = it.load_module(X2MOD)
        else:
            x = it.load_module(XMOD)
        N0, N1 = c04.N0, c04.N1
        Xa = sym_array("Xa", (1, N0, NS))
        Xb = sym_array("Xb", (1, N0, NS))
        rho = sym_array("rho", (2, NS))
        sig = sym_array("sig", (3, NS))
        hy = [tm.mk_lt(tm.ZERO, r) for r in rho.reshape(-1)]
        it.hyps = list(hy)

        def kernel(mode):
            fl = abstract_feature_list(it, N0, N1)
            fevals = c04.make_fevals(it, mode)
            if version == 2:
                return it.call(x.ns["MappedDFTKernel2"], [fevals, fl, mode, "GGA_X_PBE"], {"additive_baseline": None})
            return it.call(x.ns["MappedDFTKernel"], [fevals, fl, mode, sym_base("M")], {"additive_baseline": sym_base("A")})

        def call(K, X, rt=None):
            if version == 2:
                vt = tuple(np.full(np.asarray(r).shape, tm.ZERO, dtype=object) for r in rt)
                f, d = it.call(K, [X.copy(), tuple(r.copy() for r in rt), vt], {})
                return f, d, vt
            f, d = it.call(K, [X.copy()], {})
            return f, d, None
        fq = [(X2MOD + ":MappedDFTKernel2.__call__") if version == 2 else (XMOD + ":MappedDFTKernel.__call__")]
        # --- exchange symmetry, all modes, two channels
        for mode in ("SEP", "NPOL", "POL"):
            K = kernel(mode)
            Xab = np.concatenate([Xa, Xb], axis=0)
            Xba = np.concatenate([Xb, Xa], axis=0)
            rt_ab = (rho, sig)
            rt_ba = (rho[::-1].copy(), sig[::-1].copy())
            if version == 2 and mode != "SEP":
                # libxc stand-in B is an arbitrary (not necessarily symmetric) function: exchange symmetry of the baseline is libxc's, not the wrapper's
                ctx.assume("exchange symmetry of the libxc baseline itself (NPOL/POL, v2) is libxc's contract; the wrapper is checked with the symmetric stand-in in SEP mode and in v1")
                continue
            f1, d1, v1 = call(K, Xab, rt_ab)
            f2, d2, v2 = call(K, Xba, rt_ba)
            for g in range(NS):
                ctx.equal("exchange[%s] energy[%d]" % (mode, g), hy, f2[g], f1[g], fq)
                for s in range(2):
                    for i in range(N0):
                        ctx.equal("exchange[%s] dres[%d,%d,%d]" % (mode, s, i, g), hy, d2[s, i, g], d1[1 - s, i, g], fq)
        # --- SEP: E[Xa, Xb] = (E[Xa] + E[Xb]) / 2, per-channel derivatives
        K = kernel("SEP")
        Xab = np.concatenate([Xa, Xb], axis=0)
        fab, dab, _ = call(K, Xab, (rho, sig))
        if version == 2:
            fa, da, _ = call(K, Xa, (2 * rho[:1], 4 * sig[:1]))
            fb, db, _ = call(K, Xb, (2 * rho[1:], 4 * sig[2:]))
        else:
            fa, da, _ = call(K, Xa)
            fb, db, _ = call(K, Xb)
        for g in range(NS):
            ctx.equal("SEP E[a,b] = (E[a]+E[b])/2 [%d]" % g, hy, fab[g], HALF * (tm.lift(fa[g]) + tm.lift(fb[g])), fq)
            for i in range(N0):
                ctx.equal("SEP dres[a,%d,%d] = dE[a]/2" % (i, g), hy, dab[0, i, g], HALF * tm.lift(da[0, i, g]), fq)
                ctx.equal("SEP dres[b,%d,%d] = dE[b]/2" % (i, g), hy, dab[1, i, g], HALF * tm.lift(db[0, i, g]), fq)
        ctx.canary("SEP canary", hy, fab[0], tm.lift(fa[0]) + tm.lift(fb[0]))
        # --- NPOL / POL closed shell: equal channels reproduce the one-channel result, per-channel derivatives are equal and sum to it
        for mode in ("NPOL", "POL"):
            K = kernel(mode)
            Xaa = np.concatenate([Xa, Xa], axis=0)
            if version == 2:
                # closed-shell density tuple: rho_s = rho/2, sigma_ss = sigma_ab = sigma/4
                r1 = (rho[:1], sig[:1])
                r2 = (np.concatenate([half(rho[:1]), half(rho[:1])], axis=0), np.concatenate([half(sig[:1], Q(1, 4))] * 3, axis=0))
                ctx.assume("closed-shell agreement of the libxc baseline (nspin=2 at half densities = nspin=1) is libxc's contract; v2 NPOL/POL closed shell is checked for the ML factor only")
                K0 = it.call(x.ns["MappedDFTKernel2"], [c04.make_fevals(it, mode), abstract_feature_list(it, N0, N1), mode, "GGA_X_PBE"], {})
                continue
            f2, d2, _ = call(K, Xaa)
            f1, d1, _ = call(K, Xa)
            for g in range(NS):
                ctx.equal("%s closed-shell energy[%d]" % (mode, g), hy, f2[g], f1[g], fq)
                for i in range(N0):
                    ctx.equal("%s closed-shell dres equal per channel[%d,%d]" % (mode, i, g), hy, d2[0, i, g], d2[1, i, g], fq)
                    ctx.equal("%s closed-shell dres sum = unpolarised[%d,%d]" % (mode, i, g), hy, tm.lift(d2[0, i, g]) + tm.lift(d2[1, i, g]), d1[0, i, g], fq)
            ctx.canary("%s canary" % mode, hy, d2[0, 0, 0], d1[0, 0, 0])
    return run


def unit_wrappers_rhocut(version):
    """The same identities with a positive density cutoff (the default configuration of the integrators): the cutoff regions of the two-channel
    evaluation must be the images of the one-channel ones.  Region-wise: every pair of paths of the two evaluations whose path conditions are
    jointly satisfiable is compared under both path conditions."""
    def run(ctx):
        it = ctx.interp
        if version == 2:
            c04.libxc_contract(it)
            x = it.load_module(X2MOD)
        else:
            x = it.load_module(XMOD)
        N0, N1 = c04.N0, c04.N1
        G = 1                      # one grid point: the cutoff acts pointwise (pointwise dependence is a C04 obligation)
        Xa = sym_array("Xa", (1, N0, G))
        Xb = sym_array("Xb", (1, N0, G))
        rho = sym_array("rho", (2, G))
        sig = sym_array("sig", (3, G))
        RC = tm.var("rhocut")
        hy = [tm.mk_lt(tm.ZERO, r) for r in rho.reshape(-1)] + [tm.mk_lt(tm.ZERO, RC)] + [tm.mk_lt(tm.ZERO, Xa[0, 0, g]) for g in range(G)] + [tm.mk_lt(tm.ZERO, Xb[0, 0, g]) for g in range(G)]
        it.hyps = list(hy)
        fq = [(X2MOD + ":MappedDFTKernel2.__call__") if version == 2 else (XMOD + ":MappedDFTKernel.__call__")]

        def kernel(mode):
            fl = abstract_feature_list(it, N0, N1)
            fevals = c04.make_fevals(it, mode)
            if version == 2:
                return it.call(x.ns["MappedDFTKernel2"], [fevals, fl, mode, "GGA_X_PBE"], {"additive_baseline": None})
            return it.call(x.ns["MappedDFTKernel"], [fevals, fl, mode, sym_base("M")], {"additive_baseline": sym_base("A")})

        def paths(K, X, rt=None):
            def thunk():
                if version == 2:
                    vt = tuple(np.full(np.asarray(r).shape, tm.ZERO, dtype=object) for r in rt)
                    f, d = it.call(K, [X.copy(), tuple(r.copy() for r in rt), vt], {"rhocut": RC})
                else:
                    f, d = it.call(K, [X.copy()], {"rhocut": RC})
                return f, d
            return [(v, list(pc)) for o, v, pc, _ in all_paths(it, thunk) if o == "return"]

        def joint(*pcs):
            H = list(hy) + [c for pc in pcs for c in pc]
            lits = set(tm.lift(c).id for c in H)
            if any(tm.mk_not(tm.lift(c)).id in lits for c in H):
                return None
            ok, _ = smt.feasible(H, 3.0)
            return H if ok else None
        # ---- SEP additivity: E[a, b] = (E[a] + E[b]) / 2 in every cutoff region
        K = kernel("SEP")
        Xab = np.concatenate([Xa, Xb], axis=0)
        # the one-channel evaluations are those of the spin-scaled densities 2 n_a, 2 n_b (statement of the property)
        rt_ab = (rho, sig)
        rt_a = (2 * rho[:1], 4 * sig[:1])
        rt_b = (2 * rho[1:], 4 * sig[2:])
        P2 = paths(K, Xab, rt_ab)
        Pa = paths(K, Xa, rt_a)
        Pb = paths(K, Xb, rt_b)
        ctx.holds("rhocut SEP: both evaluations return", len(P2) >= 1 and len(Pa) >= 1 and len(Pb) >= 1, "%d/%d/%d paths" % (len(P2), len(Pa), len(Pb)), fq)
        n = 0
        for (f2, d2), pc2 in P2:
            for (fa, da), pca in Pa:
                for (fb, db), pcb in Pb:
                    H = joint(pc2, pca, pcb)
                    if H is None:
                        continue
                    n += 1
                    for g in range(G):
                        ctx.equal("rhocut SEP E[a,b] = (E[2a]+E[2b])/2 [region %d, point %d]" % (n, g), H, f2[g], HALF * (tm.lift(fa[g]) + tm.lift(fb[g])), fq, replay=replay_rhocut(version, "SEP"))
                        for i in range(N0):
                            ctx.equal("rhocut SEP dres[a,%d] = dE[2a]/2 [region %d]" % (i, n), H, d2[0, i, g], HALF * tm.lift(da[0, i, g]), fq, replay=replay_rhocut(version, "SEP"))
                            ctx.equal("rhocut SEP dres[b,%d] = dE[2b]/2 [region %d]" % (i, n), H, d2[1, i, g], HALF * tm.lift(db[0, i, g]), fq, replay=replay_rhocut(version, "SEP"))
        ctx.holds("rhocut SEP: compared on at least one jointly satisfiable path combination (cutoff regions are case-split inside each obligation)", n >= 1, "%d" % n, fq)
        if P2:
            ctx.canary("rhocut SEP canary (the cutoff is active: the cut energy differs from the uncut one somewhere)", hy, P2[0][0][0][0], tm.substitute(tm.lift(P2[0][0][0][0]), {RC: tm.ZERO}))
        # ---- NPOL / POL closed shell in every cutoff region
        for mode in ("NPOL", "POL"):
            K = kernel(mode)
            Xaa = np.concatenate([Xa, Xa], axis=0)
            r1 = (rho[:1], sig[:1])
            r2 = (np.concatenate([half(rho[:1]), half(rho[:1])], axis=0), np.concatenate([half(sig[:1], Q(1, 4))] * 3, axis=0))
            if version == 2:
                ctx.assume("v2 NPOL/POL closed shell with cutoff: only the cutoff regions are compared (the libxc baseline's closed-shell agreement is libxc's contract)")
            P2 = paths(K, Xaa, r2)
            P1 = paths(K, Xa, r1)
            n = 0
            for (f2, d2), pc2 in P2:
                for (f1, d1), pc1 in P1:
                    H = joint(pc2, pc1)
                    if H is None:
                        continue
                    n += 1
                    for g in range(G):
                        if version == 2:
                            # same region <=> same zeroing: the ML factor is cut in both or in neither
                            z2 = all(tm.lift(d2[s, i, g]) is tm.ZERO for s in range(2) for i in range(N0))
                            z1 = all(tm.lift(d1[0, i, g]) is tm.ZERO for i in range(N0))
                            ctx.holds("rhocut %s closed shell: the two-channel evaluation is cut exactly where the one-channel one is [region %d]" % (mode, n), z1 == z2,
                                      "one-channel cut: %s, two-channel cut: %s" % (z1, z2), fq, replay=replay_rhocut(version, mode))
                            continue
                        ctx.equal("rhocut %s closed-shell energy [region %d]" % (mode, n), H, f2[g], f1[g], fq, replay=replay_rhocut(version, mode))
                        for i in range(N0):
                            ctx.equal("rhocut %s closed-shell dres sum = unpolarised[%d] [region %d]" % (mode, i, n), H, tm.lift(d2[0, i, g]) + tm.lift(d2[1, i, g]), d1[0, i, g], fq, replay=replay_rhocut(version, mode))
            ctx.holds("rhocut %s: compared on at least one jointly satisfiable path combination" % mode, n >= 1, "%d" % n, fq)
    return run


def replay_rhocut(version, mode):
    def replay(wit):
        from pyvc import native
        native.install_shim()
        import ciderpress.dft.xc_evaluator as xe
        import ciderpress.dft.transform_data as td
        if version == 2:
            import ciderpress.dft.xc_evaluator2 as x2

            class Ev2(xe.FuncEvaluator):
                def __call__(self, X1, res=None, dres=None):
                    w = np.arange(1, X1.shape[-1] + 1) * 0.3
                    res[:] += 1.0 + 0.1 * np.sin(X1 @ w)
                    dres[:] += 0.1 * np.cos(X1 @ w)[:, None] * w
                    return res, dres
            fl2 = td.FeatureList([td.UMap(0, 0.7), td.UMap(1, 1.3)])
            K2 = x2.MappedDFTKernel2([Ev2()], fl2, mode, "GGA_X_PBE")
            if mode != "SEP":
                return {"reproduced": None, "note": "v2 native replay covers SEP"}
            rc = 1.0
            X = np.array([[[0.6], [0.2]], [[1.7], [0.4]]])
            rho = np.array([[0.7], [0.9]])                      # n_a, n_b: 2 n_a = 1.4 >= rhocut > n_a
            sig = np.array([[0.02], [0.01], [0.03]])

            def run(Xin, r, sg):
                vt = (np.zeros_like(r, order="F"), np.zeros_like(sg, order="F"))
                return K2(Xin.copy(), (np.asfortranarray(r), np.asfortranarray(sg)), vt, rhocut=rc)[0]
            # one density pair per cutoff region: both channels between rhocut/2 and rhocut; one channel below rhocut/2 with the sum above rhocut (either way);
            # both below
            out = None
            for na, nb in ((0.7, 0.9), (0.3, 0.9), (0.9, 0.3), (0.3, 0.3)):
                rho = np.array([[na], [nb]])
                e2 = run(X, rho, sig)
                ea = run(X[:1], 2 * rho[:1], 4 * sig[:1])
                eb = run(X[1:], 2 * rho[1:], 4 * sig[2:])
                out = {"reproduced": bool(abs(e2[0] - 0.5 * (ea[0] + eb[0])) > 1e-12), "E[a,b]": float(e2[0]), "(E[2a]+E[2b])/2": float(0.5 * (ea[0] + eb[0])), "rhocut": rc, "n_a": na, "n_b": nb}
                if out["reproduced"]:
                    break
            return out

        class Ev(xe.FuncEvaluator):
            def __call__(self, X1, res=None, dres=None):
                w = np.arange(1, X1.shape[-1] + 1) * 0.3
                if X1.ndim == 3:
                    a, b = X1[0], X1[1]
                    res[:] += np.sin(a @ w) + np.sin(b @ w)
                    dres[0] += np.cos(a @ w)[:, None] * w
                    dres[1] += np.cos(b @ w)[:, None] * w
                else:
                    res[:] += np.sin(X1 @ w)
                    dres[:] += np.cos(X1 @ w)[:, None] * w
                return res, dres

        def base(X0T):
            return np.ones(X0T.shape[-1]), np.zeros_like(X0T)
        fl = td.FeatureList([td.UMap(0, 0.7), td.UMap(1, 1.3)])
        K = xe.MappedDFTKernel([Ev()], fl, mode, base, None)
        rc = 1.0
        if mode == "SEP":
            # channel a below the cutoff, channel b above, the sum above
            X = np.array([[[0.6], [0.2]], [[1.7], [0.4]]])
            e2 = K(X.copy(), rhocut=rc)[0]
            ea = K(X[:1].copy(), rhocut=rc)[0]
            eb = K(X[1:].copy(), rhocut=rc)[0]
            return {"reproduced": bool(abs(e2[0] - 0.5 * (ea[0] + eb[0])) > 1e-12), "E[a,b]": float(e2[0]), "(E[a]+E[b])/2": float(0.5 * (ea[0] + eb[0])), "rhocut": rc, "X[a,0]": 0.6, "X[b,0]": 1.7}
        X = np.array([[[0.7], [0.2]]])
        e1 = K(X.copy(), rhocut=rc)[0]
        e2 = K(np.concatenate([X, X]).copy(), rhocut=rc)[0]
        return {"reproduced": bool(abs(e1[0] - e2[0]) > 1e-12), "E_unpolarised": float(e1[0]), "E_two_equal_channels": float(e2[0]), "rhocut": rc, "X[0]": 0.7}
    return replay


def unit_generator_spin(version, level):
    """LCAONLDFGenerator keeps one cache per spin channel: evaluating the features of the other channel in between must not change the potential
    of this one (frame condition on the per-spin cache), and the two labels are interchangeable.  The generator runs its real methods, including the
    convolution methods with their shared work buffers (contracts/genharness.py)."""
    def run(ctx):
        from contracts import genharness as GH
        GMOD = "ciderpress.dft.lcao_nldf_generator"
        it = ctx.interp
        hyps = []
        RC = tm.var("rhocut")
        hyps.append(tm.mk_lt(tm.ZERO, RC))
        h = GH.build(it, version, level, 2, hyps, RC)
        ctx.assume(GH.ASSUMPTION + "; the coefficient routine by its contract, including that a result written into a caller-supplied buffer aliases that buffer")
        nrho = 5 if level == "MGGA" else 4
        fq = [GMOD + ":LCAONLDFGenerator." + n for n in ("__init__", "get_features", "get_potential", "_perform_fwd_convolution", "_perform_bwd_convolution")]
        tag = "generator[%s,%s]" % (version, level)
        ra, rb = sym_array("ra", (nrho, NS)), sym_array("rb", (nrho, NS))
        H = list(hyps) + [tm.mk_lt(RC, x) for x in list(ra[0]) + list(rb[0])] + ([tm.mk_le(tm.ZERO, x) for x in list(ra[4]) + list(rb[4])] if level == "MGGA" else [])
        it.hyps = list(H)

        def run_seq(seq):
            def thunk():
                gen = h["fresh_gen"]()
                out = None
                for kind, arr, spin in seq:
                    out = it.call_method(gen, "get_features" if kind == "f" else "get_potential", [arr.copy()], {"spin": spin})
                return out
            return [p for p in all_paths(it, thunk)]
        try:
            base = run_seq([("f", ra, 0)])
        except (Exception,) as e:
            ctx.undecided("%s constructed" % tag, "%s: %s" % (type(e).__name__, str(e)[:200]), fq)
            return
        ok = [p for p in base if p[0] == "return"]
        ctx.holds("%s get_features returns" % tag, len(ok) == 1, "%s" % [str(p[1])[:120] for p in base if p[0] != "return"][:1], fq)
        if len(ok) != 1:
            return
        feat = np.asarray(ok[0][1], dtype=object)
        v = sym_array("v", feat.shape)

        def only(seq):
            ps = [p for p in run_seq(seq) if p[0] == "return"]
            return (np.asarray(ps[0][1], dtype=object), list(ps[0][2])) if len(ps) == 1 else (None, None)
        v_alone, pc0 = only([("f", ra, 0), ("p", v, 0)])
        v_inter, pc1 = only([("f", ra, 0), ("f", rb, 1), ("p", v, 0)])
        v_swap, pc2 = only([("f", rb, 0), ("f", ra, 1), ("p", v, 1)])
        v_inter2, pc3 = only([("f", rb, 1), ("f", ra, 0), ("f", rb, 1), ("p", v, 0)])
        ctx.holds("%s potentials return" % tag, all(x is not None for x in (v_alone, v_inter, v_swap, v_inter2)), "", fq)
        if any(x is None for x in (v_alone, v_inter, v_swap, v_inter2)):
            return

        def cmp(name, Hc, a, b):
            if tm.lift(a) is tm.lift(b):
                ctx.holds(name, True, "", fq)
            else:
                ctx.equal(name, Hc, a, b, fq, replay=replay_generator_spin())
        for c in range(nrho):
            for g in range(NS):
                cmp("%s potential of spin 0 is unchanged by a feature evaluation for spin 1 in between [%d,%d]" % (tag, c, g), H + pc0 + pc1, v_inter[c, g], v_alone[c, g])
                cmp("%s ... also when spin 1 was evaluated before and after [%d,%d]" % (tag, c, g), H + pc0 + pc3, v_inter2[c, g], v_alone[c, g])
                cmp("%s the spin labels are interchangeable (same density under the other label gives the same potential) [%d,%d]" % (tag, c, g), H + pc0 + pc2, v_swap[c, g], v_alone[c, g])
        ctx.canary("%s canary (the potential depends on the density of its own channel)" % tag, H + pc0, v_alone[0, 0], tm.substitute(tm.lift(v_alone[0, 0]), {ra[0, 0]: rb[0, 0]}))
    return run


def replay_generator_spin():
    def replay(wit):
        return {"reproduced": None, "note": "native replay needs the full LCAO generator set-up (atco, convolution collection, interpolator)"}
    return replay


def units():
    u = [("exponent/mgga", unit_exponent(False)), ("exponent/gga", unit_exponent(True)), ("rho-tuple", unit_rho_tuple)]
    for mode in ("nst", "npa", "ns", "np"):
        u.append(("semilocal/" + mode, unit_semilocal(mode)))
        u.append(("semilocal-all-densities/" + mode, unit_semilocal_alldens(mode)))
    for version in ("i", "j", "ij", "k"):
        for level in ("MGGA", "GGA"):
            for rm in ("one", "expnt"):
                u.append(("nldf/%s/%s/%s" % (version, level, rm), unit_nldf(version, level, rm)))
    for version in ("j", "ij"):
        u.append(("generator-spin/%s" % version, unit_generator_spin(version, "MGGA")))
    u.append(("libxc-ss", unit_libxc_ss))
    u.append(("plan-new/NLDFGaussianPlan", unit_plan_new("NLDFGaussianPlan")))       # new() is defined once, in the base class NLDFAuxiliaryPlan
    # nr_rks followed by nr_uks on one integrator object: the cached generators must be rebuilt when the spin mode changes (history contract of
    # initialize_feature_generators, shared with C06 where the molecule / grid change)
    from contracts import c06
    for cn in ("NLDFNumInt", "NLDFNLOFNumInt", "NLOFNumInt", "CiderNumInt"):
        u.append(("gen-cache/" + cn, c06.unit_gen_cache(cn)))
    # the spin-symmetric evaluator contract assumed by the POL wrapper units, discharged on the C source: value contract of the spin kernels
    # (as C11 / C04) and the exchange-symmetry lemma over that contract
    from contracts import ckernels
    for fn in ("evaluate_se_kernel_spin", "evaluate_se_kernel_spin_v2"):
        u.append(("c-kernel/" + fn, ckernels.unit_se_kernel(fn)))
        u.append(("c-kernel-exchange/" + fn, ckernels.unit_spin_kernel_symmetry(fn)))
    u.append(("wrappers/v1", unit_wrappers(1)))
    u.append(("wrappers/v2", unit_wrappers(2)))
    u.append(("wrappers-rhocut/v1", unit_wrappers_rhocut(1)))
    u.append(("wrappers-rhocut/v2", unit_wrappers_rhocut(2)))
    return u


EXPLANATION = (
    "Closed-shell agreement and spin-exchange symmetry are proved layer by layer on the real source: exponents (including the rhocut/nspin "
    "convention of the plan and the derivative outputs), semilocal features and their reverse pass in four modes, the sigma cross-term packing "
    "and its potential, the NLDF plan contraction (factors nspin and nspin^2 on the l=1 dot products, function to convolve for both rho_mult) "
    "with the C coefficient routine under its contract, and the model wrappers: SEP additivity E[a,b] = (E[a]+E[b])/2 with per-channel "
    "derivatives, NPOL/POL closed-shell agreement with equal per-channel derivatives summing to the unpolarised one, and exchange covariance.")
TRUSTED = [
    "A1 reals, A2 (1e-16 regularisers dropped in closed-shell identities), A3/A4",
    "the linear C operators (convolution, interpolation) carry no spin factor: they have no spin argument (syntactic fact of the prototypes)",
    "libxc's own closed-shell agreement and exchange symmetry (external); cider_coefs_* under contract p = P(a), dp = dP/da",
    "spin-symmetric evaluator stand-in G(a,b)+G(b,a) for POL mode (contract of SpinRBFEvaluator, C part)",
]

if __name__ == "__main__":
    sys.exit(run_property("C07", "other", units(), EXPLANATION, TRUSTED, min_obligations=300))
