"""C07 — spin-polarised and unpolarised evaluations agree; spin labels are symmetric.

Contracts (closed shell: both channels carry half the density, i.e. (rho/2, grad/2, tau/2), so sigma_s = sigma/4):
  settings:get_cider_exponent(_gga)   nspin=2 at (rho/2, sigma/4, tau/2, rhocut/2) = nspin=1 at (rho, sigma, tau, rhocut);
                                      derivative outputs scale by (2, 4, 2)
  plans:_BaseSemilocalPlan.get_feat   nspin=2 closed shell: each channel's features = the nspin=1 features; channels exchange covariantly
  plans:SemilocalPlan.get_vxc         per-channel potential of the closed shell = unpolarised potential; exchange covariance
  plans:get_rho_tuple_with_grad_cross / vxc_tuple_to_array   exchange of channels permutes (rho, sigma_aa/bb, tau) and the returned potential
  NLDFAuxiliaryPlan.eval_rho_full / eval_vxc_full   (C coefficient routine under its contract) closed-shell features equal the
                                      unpolarised ones (factors nspin, nspin^2 on l=1 dots), potentials likewise
  MappedDFTKernel / MappedDFTKernel2  SEP: E[X_a, X_b] = (E[X_a] + E[X_b]) / 2 with per-channel derivatives;
                                      NPOL, POL: equal channels reproduce the unpolarised energy, derivatives are equal per channel
                                      and sum to the unpolarised derivative; exchanging channels exchanges derivative blocks
"""
import os
import sys
import warnings

sys.path.insert(0, os.path.dirname(os.path.dirname(os.path.abspath(__file__))))
warnings.filterwarnings("ignore")

import numpy as np
from fractions import Fraction as Q

from pyvc import terms as tm
from pyvc import vc, smt
from pyvc.framework import run_property
from pyvc.interp import Obj, ExcV, Builtin
from contracts.common import *
from contracts.evalharness import *
from contracts import c04
from contracts.planharness import make_settings, make_plan

SMOD = "ciderpress.dft.settings"
PMOD = "ciderpress.dft.plans"
XMOD, X2MOD = c04.XMOD, c04.X2MOD
HALF = Q(1, 2)


def half(a, f=HALF):
    return np.array([tm.lift(x) * f for x in a.reshape(-1)], dtype=object).reshape(a.shape)


def unit_exponent(gga):
    def run(ctx):
        it = ctx.interp
        m = it.load_module(SMOD)
        name = "get_cider_exponent_gga" if gga else "get_cider_exponent"
        rho, sigma, tau = sym_array("rho", (NS,)), sym_array("sigma", (NS,)), sym_array("tau", (NS,))
        A, G, Tm, RC = tm.var("a0"), tm.var("grad_mul"), tm.var("tau_mul"), tm.var("rhocut")
        for gz in (True, False):
            hyps = [tm.mk_lt(tm.ZERO, RC), tm.mk_lt(tm.ZERO, A), tm.mk_le(tm.ZERO, Tm)] + ([] if gz else [tm.mk_lt(tm.ZERO, G)])
            hyps += [tm.mk_le(tm.ZERO, s) for s in sigma] + [tm.mk_le(tm.ZERO, t) for t in tau]
            it.hyps = list(hyps)
            g = 0 if gz else G

            def call(r, s_, t_, rc, nspin):
                if gga:
                    return it.call(m.ns[name], [r.copy(), s_.copy()], {"a0": A, "grad_mul": g, "rhocut": rc, "nspin": nspin})
                return it.call(m.ns[name], [r.copy(), s_.copy(), t_.copy()], {"a0": A, "grad_mul": g, "tau_mul": Tm, "rhocut": rc, "nspin": nspin})
            p1 = all_paths(it, lambda: call(rho, sigma, tau, RC, 1))
            p2 = all_paths(it, lambda: call(half(rho), half(sigma, Q(1, 4)), half(tau), RC * HALF, 2))
            fq = ["%s:%s" % (SMOD, name)]
            n = 0
            for o1, v1, pc1, _ in p1:
                for o2, v2, pc2, _ in p2:
                    if o1 != "return" or o2 != "return":
                        continue
                    H = hyps + pc1 + pc2
                    facs = [1, 2, 4, 2]
                    for k in range(len(v1)):
                        for s in range(NS):
                            # both sides contain the cutoff guard: they must agree on either side of it
                            ctx.equal("%s out%d [s=%d,%s]#%d" % (name, k, s, "grad0" if gz else "grad+", n), H, v2[k][s], facs[k] * tm.lift(v1[k][s]), fq,
                                      replay=replay_exponent(gga, gz))
                    ctx.canary("canary[%s]#%d" % ("grad0" if gz else "grad+", n), H + [tm.mk_lt(RC, rho[0])], v2[0][0], 2 * tm.lift(v1[0][0]))
                    n += 1
    return run


def replay_exponent(gga, gz):
    def replay(wit):
        import ciderpress.dft.settings as S
        e = env_floats(wit or {})
        rho = np.array([e.get("rho_%d" % s, 0.7) for s in range(NS)])
        sig = np.array([e.get("sigma_%d" % s, 0.3) for s in range(NS)])
        tau = np.array([e.get("tau_%d" % s, 0.4) for s in range(NS)])
        rc = e.get("rhocut", 1e-3)
        kw = dict(a0=e.get("a0", 1.2), grad_mul=0.0 if gz else e.get("grad_mul", 0.2))
        if gga:
            a1 = S.get_cider_exponent_gga(rho.copy(), sig.copy(), rhocut=rc, nspin=1, **kw)
            a2 = S.get_cider_exponent_gga(rho / 2, sig / 4, rhocut=rc / 2, nspin=2, **kw)
        else:
            kw["tau_mul"] = e.get("tau_mul", 0.03)
            a1 = S.get_cider_exponent(rho.copy(), sig.copy(), tau.copy(), rhocut=rc, nspin=1, **kw)
            a2 = S.get_cider_exponent(rho / 2, sig / 4, tau / 2, rhocut=rc / 2, nspin=2, **kw)
        facs = [1, 2, 4, 2]
        bad = any(not close(x2, f * x1) for x1, x2, f in zip(a1, a2, facs))
        return {"reproduced": bool(bad), "nspin1": [x.tolist() for x in a1], "nspin2": [x.tolist() for x in a2]}
    return replay


def unit_semilocal(mode):
    def run(ctx):
        it = ctx.interp
        sm, pm = it.load_module(SMOD), it.load_module(PMOD)
        st = it.call(sm.ns["SemilocalSettings"], [mode], {})
        p1 = it.call(pm.ns["SemilocalPlan"], [st, 1], {})
        p2 = it.call(pm.ns["SemilocalPlan"], [st, 2], {})
        tol = tm.const(Q(1, 10 ** 10))
        fq = [PMOD + ":SemilocalPlan.get_feat", PMOD + ":SemilocalPlan.get_vxc", PMOD + ":_BaseSemilocalPlan._fill_feat_%s_" % mode, PMOD + ":SemilocalPlan._fill_vxc_%s_" % mode]
        # ---- closed shell
        r1 = sym_array("r", (1, 5, NS))
        hyps = [tm.mk_lt(2 * tol, r1[0, 0, g]) for g in range(NS)] + [tm.mk_le(tm.ZERO, r1[0, 4, g]) for g in range(NS)]
        it.hyps = list(hyps)
        r2 = np.concatenate([half(r1), half(r1)], axis=0)
        f1 = all_paths(it, lambda: it.call_method(p1, "get_feat", [r1.copy()]))
        f2 = all_paths(it, lambda: it.call_method(p2, "get_feat", [r2.copy()]))
        nf = 3 if mode in ("nst", "npa") else 2
        vf1 = sym_array("v", (1, nf, NS))
        vf2 = np.concatenate([vf1, vf1], axis=0)
        n = 0
        for o1, a1, pc1, _ in f1:
            for o2, a2, pc2, _ in f2:
                if o1 != "return" or o2 != "return":
                    continue
                H = hyps + pc1 + pc2
                for s in range(2):
                    for i in range(nf):
                        for g in range(NS):
                            ctx.equal("closed-shell feat[%d,%d,%d]#%d" % (s, i, g, n), H, tm.drop_small_addends(a2[s, i, g]), tm.drop_small_addends(a1[0, i, g]), fq)
                n += 1
        ctx.assume("A2: 1e-16 regularisers of get_s2/get_alpha dropped in the closed-shell identities (they are not spin-scaled)")
        v1 = all_paths(it, lambda: it.call_method(p1, "get_vxc", [r1.copy(), vf1.copy()]))
        v2 = all_paths(it, lambda: it.call_method(p2, "get_vxc", [r2.copy(), vf2.copy()]))
        n = 0
        for o1, a1, pc1, _ in v1:
            for o2, a2, pc2, _ in v2:
                if o1 != "return" or o2 != "return":
                    continue
                H = hyps + pc1 + pc2
                # E = sum_g eps(feat): with per-channel features equal to the unpolarised ones and d feat_s / d rho_s = 2 * d feat / d rho at the
                # closed shell, the per-channel potential for the *same* vfeat in both channels is twice ... no: vfeat is dE/dfeat_s; the
                # unpolarised dE/dfeat = sum_s dE/dfeat_s, so compare with vfeat_s = vfeat/2 below.  Here: linearity check v2(vf, vf) = 2 * v1(vf) per channel / 1
                for s in range(2):
                    for c in range(5 if nf == 3 else 4):
                        for g in range(NS):
                            fac = 2 if c in (0, 4) else 2   # d(feat_s)/d(rho_s comp) = 2 * d(feat)/d(rho comp) at rho_s = rho/2 for every component
                            ctx.equal("closed-shell vxc[%d,%d,%d]#%d" % (s, c, g, n), H, tm.drop_small_addends(a2[s, c, g]), fac * tm.drop_small_addends(a1[0, c, g]), fq)
                ctx.canary("canary vxc#%d" % n, H, tm.drop_small_addends(a2[0, 0, 0]), tm.drop_small_addends(a1[0, 0, 0]))
                n += 1
        # ---- exchange covariance
        ra = sym_array("q", (2, 5, NS))
        hyps = [tm.mk_lt(tol, ra[s, 0, g]) for s in range(2) for g in range(NS)] + [tm.mk_le(tm.ZERO, ra[s, 4, g]) for s in range(2) for g in range(NS)]
        it.hyps = list(hyps)
        rb = ra[::-1].copy()
        va = sym_array("w", (2, nf, NS))
        vb = va[::-1].copy()
        fa = all_paths(it, lambda: (it.call_method(p2, "get_feat", [ra.copy()]), it.call_method(p2, "get_vxc", [ra.copy(), va.copy()])))
        fb = all_paths(it, lambda: (it.call_method(p2, "get_feat", [rb.copy()]), it.call_method(p2, "get_vxc", [rb.copy(), vb.copy()])))
        n = 0
        for o1, a1, pc1, _ in fa:
            for o2, a2, pc2, _ in fb:
                if o1 != "return" or o2 != "return":
                    continue
                H = hyps + pc1 + pc2
                for s in range(2):
                    for g in range(NS):
                        for i in range(nf):
                            ctx.equal("exchange feat[%d,%d,%d]#%d" % (s, i, g, n), H, a2[0][s, i, g], a1[0][1 - s, i, g], fq)
                        for c in range(a1[1].shape[1]):
                            ctx.equal("exchange vxc[%d,%d,%d]#%d" % (s, c, g, n), H, a2[1][s, c, g], a1[1][1 - s, c, g], fq)
                n += 1
    return run


def unit_rho_tuple(ctx):
    it = ctx.interp
    pm = it.load_module(PMOD)
    fq = [PMOD + ":get_rho_tuple_with_grad_cross", PMOD + ":vxc_tuple_to_array"]
    for mgga in (True, False):
        ra = sym_array("q", (2, 5, NS))
        rb = ra[::-1].copy()
        ta = it.call(pm.ns["get_rho_tuple_with_grad_cross"], [ra.copy()], {"is_mgga": mgga})
        tb = it.call(pm.ns["get_rho_tuple_with_grad_cross"], [rb.copy()], {"is_mgga": mgga})
        for g in range(NS):
            for s in range(2):
                ctx.equal("exchange rho[%d,%d] mgga=%s" % (s, g, mgga), [], tb[0][s, g], ta[0][1 - s, g], fq)
                ctx.equal("exchange sigma_ss[%d,%d] mgga=%s" % (s, g, mgga), [], tb[1][2 * s, g], ta[1][2 - 2 * s, g], fq)
                if mgga:
                    ctx.equal("exchange tau[%d,%d]" % (s, g), [], tb[2][s, g], ta[2][1 - s, g], fq)
            ctx.equal("exchange sigma_ab[%d] mgga=%s" % (g, mgga), [], tb[1][1, g], ta[1][1, g], fq)
            ctx.equal("sigma_ab = grad_a . grad_b [%d]" % g, [], ta[1][1, g], sum(ra[0, 1 + x, g] * ra[1, 1 + x, g] for x in range(3)), fq)
        # potential: reverse D-spec of the tuple map, for both spin counts
        for nspin in (1, 2):
            r = sym_array("q", (nspin, 5, NS))
            t = it.call(pm.ns["get_rho_tuple_with_grad_cross"], [r.copy()], {"is_mgga": mgga})
            vt = [sym_array("v%d" % k, np.asarray(x, dtype=object).shape) for k, x in enumerate(t)]
            varr = it.call(pm.ns["vxc_tuple_to_array"], [r.copy(), tuple(v.copy() for v in vt)], {})
            for s in range(nspin):
                for c in range(5):
                    for g in range(NS):
                        expect = tm.ZERO
                        for k, x in enumerate(t):
                            x = np.asarray(x, dtype=object)
                            for cc in range(x.shape[0]):
                                expect = expect + vt[k][cc, g] * tm.diff(tm.lift(x[cc, g]), r[s, c, g])
                        ctx.equal("vxc_tuple_to_array[%d,%d,%d] = sum v dtuple/drho (nspin=%d,mgga=%s)" % (s, c, g, nspin, mgga), [], varr[s, c, g], expect, fq)
    ctx.canary("rho-tuple canary", [], ta[1][1, 0], ta[1][0, 0])


def unit_nldf(version, level, rho_mult):
    def run(ctx):
        it = ctx.interp
        hyps = []
        st = make_settings(it, version, level, rho_mult, hyps)
        RC = tm.var("rhocut")
        hyps.append(tm.mk_lt(tm.ZERO, RC))
        nalpha = 2
        p1 = make_plan(it, st, 1, nalpha=nalpha, hyps=hyps, rhocut=RC)
        p2 = make_plan(it, st, 2, nalpha=nalpha, hyps=list(hyps), rhocut=RC)
        nvi = it.getattr(p1, "num_vi_ints")
        nrow = (0 if version == "i" else nalpha) + nvi
        f1 = sym_array("f", (NS, nrow))
        nrho = 5 if level == "MGGA" else 4
        r1 = sym_array("r", (nrho, NS))
        for x in r1[0]:
            hyps.append(tm.mk_lt(RC, x))
        if level == "MGGA":
            for x in r1[4]:
                hyps.append(tm.mk_le(tm.ZERO, x))
        it.hyps = list(hyps)
        fq = [PMOD + ":NLDFAuxiliaryPlan." + n for n in ("eval_rho_full", "eval_vxc_full", "eval_rho_vj_", "eval_rho_vi_", "eval_vxc_vj_", "eval_vxc_vi_", "eval_feat_exp", "get_function_to_convolve")]
        a1 = all_paths(it, lambda: it.call_method(p1, "eval_rho_full", [f1.copy(), r1.copy()], {"spin": 0}))
        a2 = all_paths(it, lambda: it.call_method(p2, "eval_rho_full", [half(f1), half(r1)], {"spin": 1}))
        n = 0
        for o1, v1, pc1, _ in a1:
            for o2, v2, pc2, _ in a2:
                if o1 != "return" or o2 != "return":
                    ctx.holds("eval_rho_full.total#%d" % n, False, "raises %s / %s" % (v1 if o1 != "return" else "", v2 if o2 != "return" else ""), fq)
                    n += 1
                    continue
                H = hyps + pc1 + pc2
                feat1, feat2 = v1[0], v2[0]
                ctx.holds("feat shapes#%d" % n, feat1.shape == feat2.shape, "", fq)
                for i in range(feat1.shape[0]):
                    for g in range(NS):
                        ctx.equal("closed-shell NLDF feature[%d,%d]#%d" % (i, g, n), H, feat2[i, g], feat1[i, g], fq)
                ctx.canary("nldf canary#%d" % n, H, feat2[feat1.shape[0] - 1, 0], 2 * tm.lift(feat1[feat1.shape[0] - 1, 0]))
                n += 1
        # function to convolve (rho_mult): closed shell gives half of the unpolarised function per channel
        rt1 = it.call_method(p1, "get_rho_tuple", [r1.copy()])
        rt2 = it.call_method(p2, "get_rho_tuple", [half(r1)])
        c1 = all_paths(it, lambda: it.call_method(p1, "get_function_to_convolve", [tuple(np.asarray(x, dtype=object).copy() for x in rt1)]))
        c2 = all_paths(it, lambda: it.call_method(p2, "get_function_to_convolve", [tuple(np.asarray(x, dtype=object).copy() for x in rt2)]))
        n = 0
        for o1, v1, pc1, _ in c1:
            for o2, v2, pc2, _ in c2:
                if o1 != "return" or o2 != "return":
                    continue
                H = hyps + pc1 + pc2
                for g in range(NS):
                    ctx.equal("closed-shell function-to-convolve[%d]#%d" % (g, n), H, v2[0][g], HALF * tm.lift(v1[0][g]), fq)
                n += 1
    return run


def unit_wrappers(version):
    """SEP additivity, NPOL / POL closed-shell agreement and exchange symmetry of the model wrappers."""
    def run(ctx):
        it = ctx.interp
        if version == 2:
            c04.libxc_contract(it)
            x = it.load_module(X2MOD)
        else:
            x = it.load_module(XMOD)
        N0, N1 = c04.N0, c04.N1
        Xa = sym_array("Xa", (1, N0, NS))
        Xb = sym_array("Xb", (1, N0, NS))
        rho = sym_array("rho", (2, NS))
        sig = sym_array("sig", (3, NS))
        hy = [tm.mk_lt(tm.ZERO, r) for r in rho.reshape(-1)]
        it.hyps = list(hy)

        def sym_base(tag):
            # spin-exchange symmetric baseline: M(a, b) = S(a, b) + S(b, a)   (contract of an exchange-correlation functional of two equivalent spins)
            def base(X):
                ns, n0, ng = X.shape
                m = np.empty((ng,), dtype=object)
                dm = np.empty((ns, n0, ng), dtype=object)
                for g in range(ng):
                    cols = [[X[s, i, g] for i in range(n0)] for s in range(ns)]
                    if ns == 1:
                        a = cols[0]
                        m[g] = 2 * ufn("S" + tag, a + a)
                        for i in range(n0):
                            dm[0, i, g] = 2 * (ufn("D%d_S%s" % (i, tag), a + a) + ufn("D%d_S%s" % (n0 + i, tag), a + a))
                    else:
                        a, b = cols
                        m[g] = ufn("S" + tag, a + b) + ufn("S" + tag, b + a)
                        for i in range(n0):
                            dm[0, i, g] = ufn("D%d_S%s" % (i, tag), a + b) + ufn("D%d_S%s" % (n0 + i, tag), b + a)
                            dm[1, i, g] = ufn("D%d_S%s" % (n0 + i, tag), a + b) + ufn("D%d_S%s" % (i, tag), b + a)
                return m, dm
            return Builtin("sym." + tag, base)

        def kernel(mode):
            fl = abstract_feature_list(it, N0, N1)
            fevals = c04.make_fevals(it, mode)
            if version == 2:
                return it.call(x.ns["MappedDFTKernel2"], [fevals, fl, mode, "GGA_X_PBE"], {"additive_baseline": None})
            return it.call(x.ns["MappedDFTKernel"], [fevals, fl, mode, sym_base("M")], {"additive_baseline": sym_base("A")})

        def call(K, X, rt=None):
            if version == 2:
                vt = tuple(np.full(np.asarray(r).shape, tm.ZERO, dtype=object) for r in rt)
                f, d = it.call(K, [X.copy(), tuple(r.copy() for r in rt), vt], {})
                return f, d, vt
            f, d = it.call(K, [X.copy()], {})
            return f, d, None
        fq = [(X2MOD + ":MappedDFTKernel2.__call__") if version == 2 else (XMOD + ":MappedDFTKernel.__call__")]
        # --- exchange symmetry, all modes, two channels
        for mode in ("SEP", "NPOL", "POL"):
            K = kernel(mode)
            Xab = np.concatenate([Xa, Xb], axis=0)
            Xba = np.concatenate([Xb, Xa], axis=0)
            rt_ab = (rho, sig)
            rt_ba = (rho[::-1].copy(), sig[::-1].copy())
            if version == 2 and mode != "SEP":
                # libxc stand-in B is an arbitrary (not necessarily symmetric) function: exchange symmetry of the baseline is libxc's, not the wrapper's
                ctx.assume("exchange symmetry of the libxc baseline itself (NPOL/POL, v2) is libxc's contract; the wrapper is checked with the symmetric stand-in in SEP mode and in v1")
                continue
            f1, d1, v1 = call(K, Xab, rt_ab)
            f2, d2, v2 = call(K, Xba, rt_ba)
            for g in range(NS):
                ctx.equal("exchange[%s] energy[%d]" % (mode, g), hy, f2[g], f1[g], fq)
                for s in range(2):
                    for i in range(N0):
                        ctx.equal("exchange[%s] dres[%d,%d,%d]" % (mode, s, i, g), hy, d2[s, i, g], d1[1 - s, i, g], fq)
        # --- SEP: E[Xa, Xb] = (E[Xa] + E[Xb]) / 2, per-channel derivatives
        K = kernel("SEP")
        Xab = np.concatenate([Xa, Xb], axis=0)
        fab, dab, _ = call(K, Xab, (rho, sig))
        if version == 2:
            fa, da, _ = call(K, Xa, (2 * rho[:1], 4 * sig[:1]))
            fb, db, _ = call(K, Xb, (2 * rho[1:], 4 * sig[2:]))
        else:
            fa, da, _ = call(K, Xa)
            fb, db, _ = call(K, Xb)
        for g in range(NS):
            ctx.equal("SEP E[a,b] = (E[a]+E[b])/2 [%d]" % g, hy, fab[g], HALF * (tm.lift(fa[g]) + tm.lift(fb[g])), fq)
            for i in range(N0):
                ctx.equal("SEP dres[a,%d,%d] = dE[a]/2" % (i, g), hy, dab[0, i, g], HALF * tm.lift(da[0, i, g]), fq)
                ctx.equal("SEP dres[b,%d,%d] = dE[b]/2" % (i, g), hy, dab[1, i, g], HALF * tm.lift(db[0, i, g]), fq)
        ctx.canary("SEP canary", hy, fab[0], tm.lift(fa[0]) + tm.lift(fb[0]))
        # --- NPOL / POL closed shell: equal channels reproduce the one-channel result, per-channel derivatives are equal and sum to it
        for mode in ("NPOL", "POL"):
            K = kernel(mode)
            Xaa = np.concatenate([Xa, Xa], axis=0)
            if version == 2:
                # closed-shell density tuple: rho_s = rho/2, sigma_ss = sigma_ab = sigma/4
                r1 = (rho[:1], sig[:1])
                r2 = (np.concatenate([half(rho[:1]), half(rho[:1])], axis=0), np.concatenate([half(sig[:1], Q(1, 4))] * 3, axis=0))
                ctx.assume("closed-shell agreement of the libxc baseline (nspin=2 at half densities = nspin=1) is libxc's contract; v2 NPOL/POL closed shell is checked for the ML factor only")
                K0 = it.call(x.ns["MappedDFTKernel2"], [c04.make_fevals(it, mode), abstract_feature_list(it, N0, N1), mode, "GGA_X_PBE"], {})
                continue
            f2, d2, _ = call(K, Xaa)
            f1, d1, _ = call(K, Xa)
            for g in range(NS):
                ctx.equal("%s closed-shell energy[%d]" % (mode, g), hy, f2[g], f1[g], fq)
                for i in range(N0):
                    ctx.equal("%s closed-shell dres equal per channel[%d,%d]" % (mode, i, g), hy, d2[0, i, g], d2[1, i, g], fq)
                    ctx.equal("%s closed-shell dres sum = unpolarised[%d,%d]" % (mode, i, g), hy, tm.lift(d2[0, i, g]) + tm.lift(d2[1, i, g]), d1[0, i, g], fq)
            ctx.canary("%s canary" % mode, hy, d2[0, 0, 0], d1[0, 0, 0])
    return run


def units():
    u = [("exponent/mgga", unit_exponent(False)), ("exponent/gga", unit_exponent(True)), ("rho-tuple", unit_rho_tuple)]
    for mode in ("nst", "npa", "ns", "np"):
        u.append(("semilocal/" + mode, unit_semilocal(mode)))
    for version in ("i", "j", "ij", "k"):
        for level in ("MGGA", "GGA"):
            for rm in ("one", "expnt"):
                u.append(("nldf/%s/%s/%s" % (version, level, rm), unit_nldf(version, level, rm)))
    u.append(("wrappers/v1", unit_wrappers(1)))
    u.append(("wrappers/v2", unit_wrappers(2)))
    return u


EXPLANATION = (
    "Closed-shell agreement and spin-exchange symmetry are proved layer by layer on the real source: exponents (including the rhocut/nspin "
    "convention of the plan and the derivative outputs), semilocal features and their reverse pass in four modes, the sigma cross-term packing "
    "and its potential, the NLDF plan contraction (factors nspin and nspin^2 on the l=1 dot products, function to convolve for both rho_mult) "
    "with the C coefficient routine under its contract, and the model wrappers: SEP additivity E[a,b] = (E[a]+E[b])/2 with per-channel "
    "derivatives, NPOL/POL closed-shell agreement with equal per-channel derivatives summing to the unpolarised one, and exchange covariance.")
TRUSTED = [
    "A1 reals, A2 (1e-16 regularisers dropped in closed-shell identities), A3/A4",
    "the linear C operators (convolution, interpolation) carry no spin factor: they have no spin argument (syntactic fact of the prototypes)",
    "libxc's own closed-shell agreement and exchange symmetry (external); cider_coefs_* under contract p = P(a), dp = dP/da",
    "spin-symmetric evaluator stand-in G(a,b)+G(b,a) for POL mode (contract of SpinRBFEvaluator, C part)",
]

if __name__ == "__main__":
    sys.exit(run_property("C07", "proof", units(), EXPLANATION, TRUSTED, min_obligations=300))
