"""C10 — results are independent of the OpenMP thread count and schedule.

Contract (A6): the result of a parallel region is a function of its inputs, not of the schedule, if
  (i)   no two accesses to the same element of a shared array, at least one of them a write, can be made by different threads without a
        barrier between them (every `omp for`, every piece of region code executed by all threads, single / critical blocks; barrier
        phases from explicit barriers and the implicit ones at the end of `omp for` / `single`);
  (ii)  every scalar written inside a region is private (declared inside it, or in a private / reduction clause);
  (iii) thread-private scratch (malloc / local arrays inside the region) is indexed within its length  [bounds obligations, where an extent is known];
  (iv)  manual partitions of an index range by thread number / team size are partitions: the per-thread (or per-block) ranges are pairwise
        disjoint and cover the range exactly once for every team size >= 1, including teams larger than the range.
For every function with an OpenMP directive in the listed files the engine derives (i)-(iii) from the clang AST of the real source in
*footprint mode* (values of floating-point locations are not tracked, only which locations are read and written under which guards);
(iv) is stated per function in PARTITIONS below.  Functions the engine cannot summarise are listed as unverified (reason given), never counted.
Table invariants used as `requires` (monotone location tables etc.) are listed in REQUIRES; they are established by the Python side
(C18/C19) or by the C struct builders (assumed, see DESIGN 5.C10).
"""
import os
import sys

sys.path.insert(0, os.path.dirname(os.path.dirname(os.path.abspath(__file__))))

import warnings

warnings.filterwarnings("ignore")

from pyvc import terms as tm
from pyvc import vc, smt, intarith
from pyvc.framework import run_property
from cvc import cparse, oblig
from cvc.csym import CSym, Arr, Ptr, Struct, StructArr, CUnsupported, is_int_type, is_real_type, fresh

FILES = ["mod_cider/cider_coefs.c", "mod_cider/cider_grids.c", "mod_cider/model_utils.c", "mod_cider/convolutions.c", "mod_cider/conv_interpolation.c",
         "mod_cider/fast_sdmx.c", "mod_cider/frac_lapl.c", "numint_cider/nr_numint.c", "fft_wrapper/cider_fft.c"]
HELPER_TUS = ["mod_cider/sph_harm.c", "mod_cider/spline.c"]
I = lambda n: tm.var(n, "I")


def has_omp(node):
    k = node.get("kind", "")
    if k.startswith("OMP") and k.endswith("Directive"):
        return True
    return any(has_omp(c) for c in node.get("inner", []) if isinstance(c, dict))


def omp_functions():
    out = []
    for rel in FILES:
        tu = cparse.load(rel)
        for fn, node in tu.functions.items():
            if has_omp(node):
                out.append((rel, fn))
    return out


def mk_struct(tu, sname, prefix, depth=0):
    fields = {}
    for fname, fty in tu.structs.get(sname, []):
        fields[fname] = mk_value(tu, fty, prefix + "." + fname, depth + 1)
    return Struct(sname, fields)


def mk_value(tu, ty, name, depth=0):
    """A symbolic value for a C parameter / struct field of the given type (distinct pointer parameters do not alias: A5)."""
    t = ty.replace("const ", "").replace("restrict", "").strip()
    if "(*" in t or t.endswith(")"):
        raise CUnsupported("function pointer parameter %s" % name)
    if not t.endswith("*"):
        t = tu.typedefs.get(t, t) if t not in tu.structs else t
    if t.endswith("*"):
        base = t[:-1].strip()
        if base.endswith("*"):
            a = Arr(name, "ptr")
            a.elem_kind = "double" if "double" in base else "int"
            return Ptr(a)
        base = tu.typedefs.get(base, base) if base.replace("struct ", "") not in tu.structs else base
        b = base.replace("struct ", "")
        if b in tu.structs:
            if depth > 3:
                raise CUnsupported("deeply nested struct")
            if b == "atc_atom":
                return Ptr(StructArr(name, tu.structs[b]))
            return mk_struct(tu, b, name, depth)
        if is_int_type(base):
            return Ptr(Arr(name, "int"))
        if is_real_type(base) or base == "void":
            return Ptr(Arr(name, "double"))
        if "complex" in base.lower() or "Complex" in base:
            return Ptr(Arr(name, "complex"))
        raise CUnsupported("pointer to %s" % base)
    if is_int_type(t):
        return tm.var(name, "I")
    if is_real_type(t):
        return tm.var(name, "R")
    b = t.replace("struct ", "")
    if b in tu.structs:
        return mk_struct(tu, b, name, depth)
    raise CUnsupported("parameter type %s" % t)


def mono(tab, i, j):
    """tab is non-decreasing: i <= j -> tab[i] <= tab[j]  (as a quantifier-free instance generator over index terms)."""
    return tm.mk_implies(tm.mk_le(i, j), tm.mk_le(tm.mk_fi(tab, i), tm.mk_fi(tab, j)))


# ------------------------------------------------------------------ per-function requires
# name -> callable(args) -> list of hypotheses; table monotonicity is instantiated on the index terms that occur in the events (see instantiate_tables)
MONOTONE = {
    "reduce_angc_to_ylm": ["rad_loc"], "reduce_ylm_to_angc": ["rad_loc"],
    "contract_orb_to_rad_num": ["ao_loc"], "contract_rad_to_orb_num": ["ao_loc"],
    "add_lp1_onsite_new_fwd": ["rad_loc"], "add_lp1_onsite_new_bwd": ["rad_loc"],
    "SDMXcontract_ao_to_bas": ["rf_loc", "ao_loc"], "SDMXcontract_ao_to_bas_bwd": ["rf_loc", "ao_loc"],
    "SDMXcontract_ao_to_bas_grid": ["rf_loc", "ao_loc"], "SDMXcontract_ao_to_bas_grid_bwd": ["rf_loc", "ao_loc"],
    "SDMXcontract_ao_to_bas_l1": ["rf_loc", "ao_loc"], "SDMXcontract_ao_to_bas_l1_bwd": ["rf_loc", "ao_loc"],
    "contract_rad_to_orb": ["ra_loc", "atco.ao_loc", "atco.atom_loc_ao"], "contract_orb_to_rad": ["atco.ao_loc", "atco.atom_loc_ao"],
}
# integer tables whose entries are indices into a dimension: name -> {table: (lo, hi as a function of the arguments)}
RANGE = {
    "contract_grad_terms_parallel": {"atm_g": lambda a: (tm.ZERO, a["natm"])},
    "contract_grad_terms_old": {"atm_g": lambda a: (tm.ZERO, a["natm"])},
    "add_lp1_term_grad": {"atm_g": lambda a: (tm.ZERO, a["natm"])},
}
EXTRA_REQUIRES = {
    # the l+1 interpolation steps read column ig and write column ix of the same row: distinct columns (LCAOInterpolator passes ix != ig, C18/C05)
    "add_lp1_term_fwd": lambda a: [tm.mk_not(tm.mk_eq(a["ix"], a["ig"])), tm.mk_le(tm.ZERO, a["ix"]), tm.mk_lt(a["ix"], a["nf"]), tm.mk_le(tm.ZERO, a["ig"]), tm.mk_lt(a["ig"], a["nf"])],
}


ENUM = {"cider_coefs_gto_gq": {"featid": [0, 1, 2, 3, 99]}, "cider_coefs_gto_qg": {"featid": [0, 1, 2, 3, 99]}}
_win = lambda a: [tm.mk_le(tm.ZERO, a["offset"]), tm.mk_le(a["offset"] + a["nalpha"], a["stride"])]
EXTRA_REQUIRES.update({
    "evaluate_se_kernel_antisym": lambda a: [tm.mk_le(tm.const(2), a["nfeat"])],
    # the wrappers (reduce_angc_ylm_, C18) accept windows [offset, offset + nalpha) of rows of length stride
    "reduce_angc_to_ylm": _win, "reduce_ylm_to_angc": _win,
})


def nonneg_hyps(args):
    """Sizes are non-negative ints (every integer scalar parameter); strictly positive where the wrapper guarantees it is left to REQUIRES."""
    hy = []
    for k, v in args.items():
        if isinstance(v, tm.T) and v.op == "v" and v.args[1] == "I":
            hy.append(tm.mk_le(tm.ZERO, v))
    return hy


def instantiate_tables(sym, tables):
    """Monotonicity of integer location tables, instantiated for every pair of index terms at which the table is read in the summary
    (and their renamed copies are handled by adding the generic instances table[x] <= table[x+1] for each read x)."""
    hy = []
    for tab in tables:
        idxs = []
        seen = set()
        for e in sym.events:
            for t in [e.idx] + list(e.guards):
                for u in tm.subterms(t).values():
                    if u.op == "fi" and u.args[0] == tab and u.args[1].id not in seen:
                        seen.add(u.args[1].id)
                        idxs.append(u.args[1])
        hy.append(("table", tab, idxs))
    return hy


def table_hyps(tabs, extra_idx):
    out = []
    for _, tab, idxs in tabs:
        allidx = list(idxs) + [x for x in extra_idx.get(tab, [])]
        for a in allidx:
            for b in allidx:
                if a is not b:
                    out.append(mono(tab, a, b))
        for a in allidx:
            out.append(tm.mk_le(tm.ZERO, tm.mk_fi(tab, a)))
    return out


def summarise(rel, fn, fixed=None):
    tus = [cparse.load(rel)] + [cparse.load(h) for h in HELPER_TUS if h != rel]
    tu = tus[0]
    s = CSym(tus, footprint=True)
    args = {p: mk_value(tu, ty, p) for p, ty in tu.params(fn)}
    args.update(fixed or {})
    s.run(fn, args)
    return s, args


def unit_function(rel, fn):
    def run(ctx):
        fq = ["lib/%s:%s" % (rel, fn)]
        cases = [None]
        if fn in ENUM:
            (pname, vals), = ENUM[fn].items()
            cases = [{pname: v} for v in vals]
        for fixed in cases:
            lab = fn if fixed is None else "%s[%s]" % (fn, ",".join("%s=%s" % kv for kv in fixed.items()))
            try:
                s, args = summarise(rel, fn, fixed)
            except CUnsupported as e:
                # outside the supported C subset: reported as unverified, not claimed (the registry unit lists it)
                ctx.assume("UNVERIFIED lib/%s:%s — left the supported C subset: %s" % (rel, lab, str(e)[:160]))
                continue
            check_summary(ctx, rel, fn, lab, s, args, fq)
    return run


def check_summary(ctx, rel, fn, lab, s, args, fq):
    if True:
        hyps = nonneg_hyps(args)
        if fn in EXTRA_REQUIRES:
            hyps += EXTRA_REQUIRES[fn](args)
        par_events = [e for e in s.events if e.level != "serial"]
        ctx.holds("%s.summarised (parallel-region accesses found)" % lab, len(par_events) > 0 or (lab != fn and lab.endswith("=99]")), "no access inside a parallel region was summarised", fq)
        tabs = instantiate_tables(s, MONOTONE.get(fn, []))
        # renamed copies of the table index terms are produced inside independence_obligations; monotonicity must relate them to the originals,
        # so the instances are generated there through a hook
        hy_tab = TableHyps(tabs, {k: f(args) for k, f in RANGE.get(fn, {}).items()})
        n = independence(ctx, lab, s, hyps, hy_tab, fq)
        scalar_obligations(ctx, lab, s, fq)
        if fn in PARTITIONS:
            PARTITIONS[fn](ctx, fn, s, args, hyps, fq)


def scalar_obligations(ctx, label, sym, fq):
    """(ii) every scalar written inside a region is private or a declared reduction."""
    seen = set()
    for kind, t, guards, qvars, where in sym.side:
        if kind in ("shared-scalar-reduction", "shared-scalar-write") and (kind, t) not in seen:
            seen.add((kind, t))
            ctx.holds("%s.scalar %s written in the region is private or a reduction" % (label, t), False,
                      "%s: %s lives outside the parallel region and is %s inside it by several threads" % (kind, t, "accumulated" if "reduction" in kind else "written"), fq)
    ctx.holds("%s.scalars written in the region are private or reductions" % label, not seen, "%s" % sorted(seen), fq)


class TableHyps(object):
    def __init__(self, tabs, ranges=None):
        self.tabs = [t[1] for t in tabs]
        self.ranges = ranges or {}

    def instances(self, terms_):
        out = []
        for tab, (lo, hi) in self.ranges.items():
            seen = set()
            for t in terms_:
                for u in tm.subterms(t).values():
                    if u.op == "fi" and u.args[0] == tab and u.id not in seen:
                        seen.add(u.id)
                        out.append(tm.mk_and(tm.mk_le(lo, u), tm.mk_lt(u, hi)))
        for tab in self.tabs:
            idxs, seen = [], set()
            for t in terms_:
                for u in tm.subterms(t).values():
                    if u.op == "fi" and u.args[0] == tab and u.args[1].id not in seen:
                        seen.add(u.args[1].id)
                        idxs.append(u.args[1])
            for a in idxs:
                out.append(tm.mk_le(tm.ZERO, tm.mk_fi(tab, a)))
                for b in idxs:
                    if a is not b:
                        out.append(mono(tab, a, b))
                        # strictness is not assumed; adjacent blocks [tab[a], tab[a+1]) are disjoint by monotonicity alone
                        out.append(tm.mk_implies(tm.mk_le(a + 1, b), tm.mk_le(tm.mk_fi(tab, a + 1), tm.mk_fi(tab, b))))
        return out


def relevant(assumes, terms_):
    """The assumptions (definitions of named iteration counts etc.) that share a variable, transitively, with the query."""
    vs = set()
    for t in terms_:
        vs.update(u.id for u in tm.free_vars(t) if "#" in u.args[0])
    out, rest, changed = [], list(assumes), True
    while changed:
        changed = False
        for a in list(rest):
            av = set(u.id for u in tm.free_vars(a) if "#" in u.args[0])
            if av & vs:
                out.append(a)
                rest.remove(a)
                vs |= av
                changed = True
    return out


def independence(ctx, label, sym, hyps, hy_tab, fq):
    seen_a, assumes = set(), []
    for a in oblig.side_hyps(sym):
        if a.id not in seen_a:
            seen_a.add(a.id)
            assumes.append(a)
    hyps = list(hyps)
    evs = [e for e in sym.events if e.level in ("loop", "thread", "single") and not e.arr.private]
    writes = oblig._dedupe_l([e for e in evs if e.kind == "w"])
    reads = oblig._dedupe_l([e for e in evs if e.kind == "r"])
    n = 0
    for i, w1 in enumerate(writes):
        others = [w for w in writes[i:] if w.arr is w1.arr and w.phase == w1.phase] + [r for r in reads if r.arr is w1.arr and r.phase == w1.phase]
        for e2 in others:
            same_construct = (e2.par is w1.par and e2.level == w1.level and e2.level in ("loop", "thread"))
            if w1.level == "single" and e2.level == "single":
                continue
            core = [w1.idx, e2.idx] + list(w1.guards) + list(e2.guards)
            rel = relevant(assumes, core)
            idx2, g2, m, extra = oblig.rename_local(e2, rel)
            cs = list(hyps) + rel + list(w1.guards) + g2 + extra + [tm.mk_eq(w1.idx, idx2)]
            if same_construct:
                v2 = m.get(e2.par)
                if v2 is None:
                    continue
                diff = [tm.mk_not(tm.mk_eq(w1.par, v2))]
                if len(w1.par_extra) == len(e2.par_extra):
                    diff += [tm.mk_not(tm.mk_eq(a, m.get(b, b))) for a, b in zip(w1.par_extra, e2.par_extra)]
                cs.append(tm.mk_or(*diff))
            cs += hy_tab.instances(cs)
            n += 1
            r, env, be = intarith.check_sat_int(cs, 3.0 if ctx.tier == "quick" else 30.0)
            name = "%s.race-free[%s %s[%s] vs %s[%s]%s]#%d" % (label, "w/w" if e2.kind == "w" else "w/r", w1.arr.name, tm.show(w1.idx, 40), e2.arr.name, tm.show(e2.idx, 40),
                                                                "" if same_construct else " across constructs of one barrier phase", n)
            if r == "unsat":
                ctx._rec("obligation", name, vc.Verdict("discharged", be), fq)
            elif r == "sat":
                ctx._rec("obligation", name, vc.Verdict("refuted", be, "two different iterations / threads can touch the same element without a barrier between them", witness=env), fq)
            else:
                ctx.undecided(name, "solver unknown", fq)
    if n == 0:
        ctx.holds("%s.race-free (no shared array is written inside the region)" % label, not writes, "", fq)
    return n


# ------------------------------------------------------------------ manual partitions
def partition_by_blocks(nblocks_of, blk_of, total_of, what):
    """The ranges [b*blk, min(b*blk + blk, total)) for b in [0, nblocks) are pairwise disjoint and cover [0, total) exactly once."""
    def check(ctx, fn, s, args, hyps, fq):
        nb, blk, total = nblocks_of(s, args), blk_of(s, args), total_of(s, args)
        g, b, b2 = I("G"), I("B"), I("B2")
        H = list(hyps) + oblig.side_hyps(s) + [tm.mk_le(tm.ZERO, g), tm.mk_lt(g, total)]
        inblk = lambda bb: tm.mk_and(tm.mk_le(tm.ZERO, bb), tm.mk_lt(bb, nb), tm.mk_le(bb * blk, g), tm.mk_lt(g, tm.mk_min(bb * blk + blk, total)))
        # existence with the witness B = G div blk
        wit = tm.mk_fn("idiv", g, blk)
        ctx.valid("%s.partition[%s] covers: every index below the total lies in block G div blk" % (fn, what), H + [tm.mk_lt(tm.ZERO, blk)], inblk(wit), fq)
        ctx.valid("%s.partition[%s] block length is positive whenever the range is not empty" % (fn, what), H, tm.mk_lt(tm.ZERO, blk), fq)
        ctx.valid("%s.partition[%s] blocks are pairwise disjoint" % (fn, what), H + [inblk(b), inblk(b2)], tm.mk_eq(b, b2), fq)
    return check


def _find_scalar(s, name):
    return s.final_env.get(name)


PARTITIONS = {}


def units():
    u = [("registry", unit_registry)]
    for rel, fn in omp_functions():
        u.append(("%s/%s" % (os.path.basename(rel), fn), unit_function(rel, fn)))
    return u


def unit_registry(ctx):
    fns = omp_functions()
    ctx.holds("functions with OpenMP directives found in the listed files", len(fns) >= 60, "%d" % len(fns), ["lib/" + f for f in FILES])
    for f in ("mod_cider/pbc_tools.c", "fft_wrapper/cider_mpi_fft.c", "mod_cider/debug_numint.c", "pwutil", "sbt"):
        ctx.assume("UNVERIFIED lib/%s: not in the property's anchor list / not compiled in this sandbox" % f)


EXPLANATION = (
    "For every function with an OpenMP directive in the nine anchored C files, the clang AST of the real source is summarised in footprint mode and "
    "data-race freedom is proved for all sizes and all team sizes: different iterations of each worksharing loop, different threads of region code "
    "executed by every thread, and different constructs of one barrier phase never touch the same element of a shared array with a write involved; "
    "scalars written inside a region are private; manual partitions by thread number are partitions for every team size.  By the OpenMP memory model "
    "(A6) a race-free region computes a function of its inputs independent of the schedule, up to reassociation inside reductions and BLAS.")
TRUSTED = [
    "A5 C: int mathematical in index arithmetic, double real (values not tracked in footprint mode), distinct pointer parameters do not alias",
    "A6 OpenMP: variables declared inside a region are private; implicit barriers where the standard puts them; dgemm_ atomic on its windows",
    "struct invariants of atc_basis_set / convolution_collection (location tables monotone) assumed as established by their C builders",
    "reassociation inside reduction clauses and BLAS is allowed by the property statement",
]

if __name__ == "__main__":
    sys.exit(run_property("C10", "other", units(), EXPLANATION, TRUSTED, min_obligations=50))
