"""C10 — results are independent of the OpenMP thread count and schedule.

Contract (A6): the result of a parallel region is a function of its inputs, not of the schedule, if
  (i)   no two accesses to the same element of a shared array, at least one of them a write, can be made by different threads without a
        barrier between them (every `omp for`, every piece of region code executed by all threads, single / critical blocks; barrier
        phases from explicit barriers and the implicit ones at the end of `omp for` / `single`);
  (ii)  every scalar written inside a region is private (declared inside it, or in a private / reduction clause);
  (iii) thread-private scratch (malloc / local arrays inside the region) is indexed within its length  [bounds obligations, where an extent is known];
  (iv)  manual partitions of an index range by thread number / team size are partitions: the per-thread (or per-block) ranges are pairwise
        disjoint and cover the range exactly once for every team size >= 1, including teams larger than the range.
For every function with an OpenMP directive in the listed files the engine derives (i)-(iii) from the clang AST of the real source in
*footprint mode* (values of floating-point locations are not tracked, only which locations are read and written under which guards);
(iv) is stated per function in PARTITIONS below.  Functions the engine cannot summarise are listed as unverified (reason given), never counted.
Table invariants used as `requires` (monotone location tables etc.) are listed in REQUIRES; they are established by the Python side
(C18/C19) or by the C struct builders (assumed, see DESIGN 5.C10).
"""
import os
import sys

sys.path.insert(0, os.path.dirname(os.path.dirname(os.path.abspath(__file__))))

import warnings
from fractions import Fraction as Q

warnings.filterwarnings("ignore")

from pyvc import terms as tm
from pyvc import vc, smt, intarith
from pyvc.framework import run_property
from cvc import cparse, oblig
from cvc.csym import CSym, Arr, Ptr, Struct, StructArr, CUnsupported, is_int_type, is_real_type, fresh

FILES = ["mod_cider/cider_coefs.c", "mod_cider/cider_grids.c", "mod_cider/model_utils.c", "mod_cider/convolutions.c", "mod_cider/conv_interpolation.c",
         "mod_cider/fast_sdmx.c", "mod_cider/frac_lapl.c", "numint_cider/nr_numint.c", "fft_wrapper/cider_fft.c"]
HELPER_TUS = ["mod_cider/sph_harm.c", "mod_cider/spline.c"]
I = lambda n: tm.var(n, "I")


def has_omp(node):
    k = node.get("kind", "")
    if k.startswith("OMP") and k.endswith("Directive"):
        return True
    return any(has_omp(c) for c in node.get("inner", []) if isinstance(c, dict))


def omp_functions():
    out = []
    for rel in FILES:
        tu = cparse.load(rel)
        for fn, node in tu.functions.items():
            if has_omp(node):
                out.append((rel, fn))
    return out


def mk_struct(tu, sname, prefix, depth=0):
    fields = {}
    for fname, fty in tu.structs.get(sname, []):
        fields[fname] = mk_value(tu, fty, prefix + "." + fname, depth + 1)
    return Struct(sname, fields)


def mk_value(tu, ty, name, depth=0):
    """A symbolic value for a C parameter / struct field of the given type (distinct pointer parameters do not alias: A5)."""
    t = ty.replace("const ", "").replace("restrict", "").strip()
    if "(*" in t or t.endswith(")"):
        raise CUnsupported("function pointer parameter %s" % name)
    if not t.endswith("*"):
        t = tu.typedefs.get(t, t) if t not in tu.structs else t
    if t.endswith("*"):
        base = t[:-1].strip()
        if base.endswith("*"):
            a = Arr(name, "ptr")
            a.elem_kind = "double" if "double" in base else "int"
            return Ptr(a)
        base = tu.typedefs.get(base, base) if base.replace("struct ", "") not in tu.structs else base
        b = base.replace("struct ", "")
        if b in tu.structs:
            if depth > 3:
                raise CUnsupported("deeply nested struct")
            if b == "atc_atom":
                return Ptr(StructArr(name, tu.structs[b]))
            return mk_struct(tu, b, name, depth)
        if is_int_type(base):
            return Ptr(Arr(name, "int"))
        if is_real_type(base) or base == "void":
            return Ptr(Arr(name, "double"))
        if "complex" in base.lower() or "Complex" in base:
            return Ptr(Arr(name, "complex"))
        raise CUnsupported("pointer to %s" % base)
    if is_int_type(t):
        return tm.var(name, "I")
    if is_real_type(t):
        return tm.var(name, "R")
    b = t.replace("struct ", "")
    if b in tu.structs:
        return mk_struct(tu, b, name, depth)
    raise CUnsupported("parameter type %s" % t)


def mono(tab, i, j):
    """tab is non-decreasing: i <= j -> tab[i] <= tab[j]  (as a quantifier-free instance generator over index terms)."""
    return tm.mk_implies(tm.mk_le(i, j), tm.mk_le(tm.mk_fi(tab, i), tm.mk_fi(tab, j)))


# ------------------------------------------------------------------ per-function requires
# name -> callable(args) -> list of hypotheses; table monotonicity is instantiated on the index terms that occur in the events (see instantiate_tables)
MONOTONE = {
    "reduce_angc_to_ylm": ["rad_loc"], "reduce_ylm_to_angc": ["rad_loc"],
    "contract_orb_to_rad_num": ["ao_loc"], "contract_rad_to_orb_num": ["ao_loc"],
    "add_lp1_onsite_new_fwd": ["rad_loc"], "add_lp1_onsite_new_bwd": ["rad_loc"],
    "SDMXcontract_ao_to_bas": ["rf_loc", "ao_loc"], "SDMXcontract_ao_to_bas_bwd": ["rf_loc", "ao_loc"],
    "SDMXcontract_ao_to_bas_grid": ["rf_loc", "ao_loc"], "SDMXcontract_ao_to_bas_grid_bwd": ["rf_loc", "ao_loc"],
    "SDMXcontract_ao_to_bas_l1": ["rf_loc", "ao_loc"], "SDMXcontract_ao_to_bas_l1_bwd": ["rf_loc", "ao_loc"],
    "contract_rad_to_orb": ["ra_loc", "atco.ao_loc", "atco.atom_loc_ao"], "contract_orb_to_rad": ["atco.ao_loc", "atco.atom_loc_ao"],
}
# integer tables whose entries are indices into a dimension: name -> {table: (lo, hi as a function of the arguments)}
RANGE = {
    "contract_grad_terms_parallel": {"atm_g": lambda a: (tm.ZERO, a["natm"])},
    "contract_grad_terms_old": {"atm_g": lambda a: (tm.ZERO, a["natm"])},
    "add_lp1_term_grad": {"atm_g": lambda a: (tm.ZERO, a["natm"])},
}
EXTRA_REQUIRES = {
    # the l+1 interpolation steps read column ig and write column ix of the same row: distinct columns (LCAOInterpolator passes ix != ig, C18/C05)
    "add_lp1_term_fwd": lambda a: [tm.mk_not(tm.mk_eq(a["ix"], a["ig"])), tm.mk_le(tm.ZERO, a["ix"]), tm.mk_lt(a["ix"], a["nf"]), tm.mk_le(tm.ZERO, a["ig"]), tm.mk_lt(a["ig"], a["nf"])],
}


ENUM = {"cider_coefs_gto_gq": {"featid": [0, 1, 2, 3, 99]}, "cider_coefs_gto_qg": {"featid": [0, 1, 2, 3, 99]},
        # the direction flag selects which basis set is the output one (pointer-valued branch): one summary per direction
        "multiply_atc_integrals": {"fwd": [1, 0]}, "multiply_atc_integrals_vk": {"fwd": [1, 0]}}
_win = lambda a: [tm.mk_le(tm.ZERO, a["offset"]), tm.mk_le(a["offset"] + a["nalpha"], a["stride"])]
EXTRA_REQUIRES.update({
    "evaluate_se_kernel_antisym": lambda a: [tm.mk_le(tm.const(2), a["nfeat"])],
    # the wrappers (reduce_angc_ylm_, C18) accept windows [offset, offset + nalpha) of rows of length stride
    "reduce_angc_to_ylm": _win, "reduce_ylm_to_angc": _win,
})


def _nlm_square(a):
    """nlm = (lmax + 1)^2 with lmax >= 1: the harmonics routines write the rows of every degree up to floor(sqrt(nlm - 1)) (callers pass (lmax+1)^2)"""
    L = tm.var("lmax_of_nlm", "I")
    return [tm.mk_le(tm.ONE, L), tm.mk_eq(a["nlm"], (L + 1) * (L + 1))]


EXTRA_REQUIRES["compute_spline_bas_separate_deriv"] = _nlm_square
_cols = lambda a: [c for k in ("ig", "ix", "iy", "iz") for c in (tm.mk_le(tm.ZERO, a[k]), tm.mk_lt(a[k], a["nf"]))] + \
    [tm.mk_not(tm.mk_eq(a[x], a[y])) for x, y in (("ig", "ix"), ("ig", "iy"), ("ig", "iz"), ("ix", "iy"), ("ix", "iz"), ("iy", "iz"))]
for _f in ("add_lp1_term_fwd", "add_lp1_term_bwd", "add_lp1_term_onsite_fwd", "add_lp1_term_onsite_bwd", "add_lp1_onsite_new_fwd", "add_lp1_onsite_new_bwd", "add_lp1_term_grad"):
    # the l+1 steps address four distinct columns of rows of length nf (LCAOInterpolator: scratch / x / y / z slots of the feature block);
    # the requires clause is proved at the Python call sites in C18 (unit l1-wrappers)
    EXTRA_REQUIRES[_f] = _cols
MONOTONE.update({"add_lp1_term_onsite_fwd": ["ar_loc"], "add_lp1_term_onsite_bwd": ["ar_loc"],
                 "project_spline_to_conv": ["atco.ao_loc"], "SDMXylm_yzx2xyz": ["ylm_atom_loc"], "SDMXylm_grad": ["ylm_atom_loc"], "SDMXylm_loop": ["ylm_atom_loc"]})
EXTRA_REQUIRES["project_spline_to_conv"] = lambda a: [tm.mk_le(tm.ZERO, a["offset_orb"]), tm.mk_le(a["offset_orb"] + a["nalpha"], a["orb_stride"])]
for _f in ("SDMXcontract_ao_to_bas", "SDMXcontract_ao_to_bas_bwd", "SDMXcontract_ao_to_bas_l1", "SDMXcontract_ao_to_bas_l1_bwd"):
    RANGE[_f] = {"rf_loc": lambda a: (tm.ZERO, a["nrf"] + 1)}
MONOTONE.update({"compute_mol_convs_single_new": ["loc_i"], "compute_pot_convs_single_new": ["loc_i"]})


def _ylm_blocks(terms_):
    """ylm_atom_loc delimits per-atom blocks of (lmax+1)^2 rows: a block with more than one row has at least four (l = 1 is complete)."""
    out, seen = [], set()
    for t in terms_:
        for u in tm.subterms(t).values():
            if u.op == "fi" and u.args[0] == "ylm_atom_loc" and u.args[1].id not in seen:
                seen.add(u.args[1].id)
                a = u.args[1]
                d = tm.mk_fi("ylm_atom_loc", a + 1) - tm.mk_fi("ylm_atom_loc", a)
                out.append(tm.mk_implies(tm.mk_lt(tm.ONE, d), tm.mk_le(tm.const(4), d)))
                out.append(tm.mk_le(tm.ZERO, d))
    return out


def _uloc_blocks(terms_):
    """uloc_l[l] is the first orbital of angular momentum l; the block of l holds (jloc_l[l+1] - jloc_l[l]) radial functions x (2l+1) components and the
    blocks of different l do not overlap (layout built by the caller: a cumulative sum)."""
    out, idx = [], {}
    for t in terms_:
        for u in tm.subterms(t).values():
            if u.op == "fi" and u.args[0] == "uloc_l":
                idx[u.args[1].id] = u.args[1]
    for a in idx.values():
        na = (tm.mk_fi("jloc_l", a + 1) - tm.mk_fi("jloc_l", a)) * (2 * a + 1)
        out.append(tm.mk_le(tm.ZERO, tm.mk_fi("uloc_l", a)))
        out.append(tm.mk_le(tm.mk_fi("jloc_l", a), tm.mk_fi("jloc_l", a + 1)))
        for b in idx.values():
            if a is not b:
                out.append(tm.mk_implies(tm.mk_lt(a, b), tm.mk_le(tm.mk_fi("uloc_l", a) + na, tm.mk_fi("uloc_l", b))))
    return out


def _shell_blocks(terms_):
    """atc_basis_set invariant (assumed; the struct is built by C code outside this contract): ao_loc[sh+1] = ao_loc[sh] + 2 l_sh + 1 with l_sh = bas[8 sh + 1] >= 0,
    hence the AO blocks of different shells do not overlap.  Instantiated for every index at which an ao_loc table of a basis set is read."""
    out = []
    by_tab = {}
    for t in terms_:
        for u in tm.subterms(t).values():
            if u.op == "fi" and str(u.args[0]).endswith(".ao_loc"):
                by_tab.setdefault(u.args[0], {})[u.args[1].id] = u.args[1]
    for tab, idx in by_tab.items():
        bas = tab[:-len(".ao_loc")] + ".bas"
        size = lambda a: 2 * tm.mk_fi(bas, 8 * a + 1) + 1
        for a in idx.values():
            out.append(tm.mk_le(tm.ZERO, tm.mk_fi(tab, a)))
            out.append(tm.mk_le(tm.ZERO, tm.mk_fi(bas, 8 * a + 1)))
            for b in idx.values():
                if a is not b:
                    out.append(tm.mk_implies(tm.mk_lt(a, b), tm.mk_le(tm.mk_fi(tab, a) + size(a), tm.mk_fi(tab, b))))
    return out


CUSTOM = {"SDMXylm_yzx2xyz": _ylm_blocks, "contract_rad_to_orb_num": _uloc_blocks, "multiply_atc_integrals": _shell_blocks, "multiply_atc_integrals_vk": _shell_blocks}
INJECTIVE = {"compute_mol_convs_single_new": ["ind_ord_fwd"], "compute_pot_convs_single_new": ["ind_ord_fwd"]}
# functions whose race freedom depends on invariants of the C-built basis-set structs (AO count per shell = 2l+1, (lmax+1)^2 <= nlm, pair tables)
# or on floating-point valued indices: not attempted — reported as unverified, never counted
SKIP = {
    "fill_l1_coeff_fwd": "needs shell-size invariants relating atco0 (l+1 shells) and atco1", "fill_l1_coeff_bwd": "needs shell-size invariants relating atco0 and atco1",
    "project_conv_to_spline": "needs nm = 2l+1 and (l+1)^2 <= nlm for every shell", "generate_atc_integrals_vj": "pair_loc layout of convolution_collection",
    "generate_atc_integrals_vi": "pair_loc layout of convolution_collection", "compute_num_spline_contribs": "index computed from floor(log(distance)): needs floating-point range reasoning",
    "compute_num_spline_contribs_new": "index computed from floor(log(distance))", "contract_rad_to_orb": "needs ar_loc/ra_loc consistency and shell-size invariants",
    "contract_orb_to_rad": "needs shell-size invariants ((l+1)^2 <= nlm)", 
     "write_fft_input": "covered by C20 (layout arithmetic with the plan struct)", "read_fft_output": "covered by C20",
    "compute_spline_bas_separate_deriv": "writes the harmonics of every degree up to floor(sqrt(nlm-1)) into rows of length nlm: with the requires nlm = (lmax+1)^2, lmax >= 1 no pair is "
                                         "refuted and 172 of 193 are decided; the remaining quadratic row-offset comparisons are solver-unknown within budget",
    "SDMXylm_loop": "same collapsed (atom, block) decomposition; calls recursive_sph_harm on a per-thread buffer (value contract of the harmonics under C06)",
}


# decided only through the division-uniqueness rule (cvc/stride.py), whose chain of sub-queries takes 30-70 s: run in the thorough tier, listed as
# unverified in the quick tier
THOROUGH_ONLY = {
    "SDMXylm_yzx2xyz": "collapsed (atom, block) index with a per-component stride: decided by the division-uniqueness rule in the thorough tier (17 obligations)",
    "SDMXylm_grad": "same decomposition plus (lmax+1)^2 <= nlm from an integer square root: decided by the division-uniqueness rule in the thorough tier (46 obligations); value contract under C06",
}


def nonneg_hyps(args):
    """Sizes are non-negative ints (every integer scalar parameter); strictly positive where the wrapper guarantees it is left to REQUIRES."""
    hy = []
    for k, v in args.items():
        if isinstance(v, tm.T) and v.op == "v" and v.args[1] == "I":
            hy.append(tm.mk_le(tm.ZERO, v))
    return hy


def instantiate_tables(sym, tables):
    """Monotonicity of integer location tables, instantiated for every pair of index terms at which the table is read in the summary
    (and their renamed copies are handled by adding the generic instances table[x] <= table[x+1] for each read x)."""
    hy = []
    for tab in tables:
        idxs = []
        seen = set()
        for e in sym.events:
            for t in [e.idx] + list(e.guards):
                for u in tm.subterms(t).values():
                    if u.op == "fi" and u.args[0] == tab and u.args[1].id not in seen:
                        seen.add(u.args[1].id)
                        idxs.append(u.args[1])
        hy.append(("table", tab, idxs))
    return hy


def table_hyps(tabs, extra_idx):
    out = []
    for _, tab, idxs in tabs:
        allidx = list(idxs) + [x for x in extra_idx.get(tab, [])]
        for a in allidx:
            for b in allidx:
                if a is not b:
                    out.append(mono(tab, a, b))
        for a in allidx:
            out.append(tm.mk_le(tm.ZERO, tm.mk_fi(tab, a)))
    return out


def summarise(rel, fn, fixed=None):
    tus = [cparse.load(rel)] + [cparse.load(h) for h in HELPER_TUS if h != rel]
    tu = tus[0]
    s = CSym(tus, footprint=True)
    args = {p: mk_value(tu, ty, p) for p, ty in tu.params(fn)}
    args.update(fixed or {})
    s.run(fn, args)
    return s, args


def unit_function(rel, fn):
    def run(ctx):
        fq = ["lib/%s:%s" % (rel, fn)]
        if fn in THOROUGH_ONLY and ctx.tier != "thorough" and fn not in os.environ.get("VERIF_C10_TRY", "").split(","):
            ctx.assume("UNVERIFIED (quick tier) lib/%s:%s — %s" % (rel, fn, THOROUGH_ONLY[fn]))
            return
        if fn in SKIP and fn not in os.environ.get("VERIF_C10_TRY", "").split(","):
            ctx.assume("UNVERIFIED lib/%s:%s — %s" % (rel, fn, SKIP[fn]))
            return
        cases = [None]
        if fn in ENUM:
            (pname, vals), = ENUM[fn].items()
            cases = [{pname: v} for v in vals]
        for fixed in cases:
            lab = fn if fixed is None else "%s[%s]" % (fn, ",".join("%s=%s" % kv for kv in fixed.items()))
            try:
                s, args = summarise(rel, fn, fixed)
            except CUnsupported as e:
                # outside the supported C subset: reported as unverified, not claimed (the registry unit lists it)
                ctx.assume("UNVERIFIED lib/%s:%s — left the supported C subset: %s" % (rel, lab, str(e)[:160]))
                if fn in expected_verified():
                    # it was under contract on the tree the expectations were recorded on: the edit took it out of the engine's reach
                    ctx.undecided("%s.summarised" % lab, "function was verified before and now leaves the supported C subset: %s" % str(e)[:160], fq)
                continue
            check_summary(ctx, rel, fn, lab, s, args, fq)
    return run


def check_summary(ctx, rel, fn, lab, s, args, fq):
    if True:
        hyps = nonneg_hyps(args)
        if fn in EXTRA_REQUIRES:
            hyps += EXTRA_REQUIRES[fn](args)
        par_events = [e for e in s.events if e.level != "serial"]
        ctx.holds("%s.summarised (parallel-region accesses found)" % lab, len(par_events) > 0 or (lab != fn and lab.endswith("=99]")), "no access inside a parallel region was summarised", fq)
        tabs = instantiate_tables(s, MONOTONE.get(fn, []))
        # renamed copies of the table index terms are produced inside independence_obligations; monotonicity must relate them to the originals,
        # so the instances are generated there through a hook
        hy_tab = TableHyps(tabs, {k: f(args) for k, f in RANGE.get(fn, {}).items()}, INJECTIVE.get(fn, []), CUSTOM.get(fn))
        n = independence(ctx, lab, s, hyps, hy_tab, fq)
        scalar_obligations(ctx, lab, s, fq)
        flush_obligations(ctx, lab, s, fq)
        if fn in PARTITIONS:
            PARTITIONS[fn](ctx, fn, s, args, hyps, fq)


def flush_obligations(ctx, label, sym, fq):
    """Code inside critical / atomic that is not in a worksharing loop runs once on EVERY thread.  An accumulating update of shared memory there must add
    that thread's own partial result (content of a thread-private array, a private scalar accumulated in the worksharing loop); adding a quantity that
    is the same on every thread — a reduction-clause variable, a shared scalar, a function of shared data only — is repeated team-size times, and the
    result depends on the number of threads."""
    n = 0
    for e in sym.events:
        if e.kind != "w" or e.op not in ("+=", "-=") or e.arr.private or not e.extra or e.extra[0] != "every-thread-exclusive":
            continue
        n += 1
        v = tm.lift(e.val)
        partial = any((u.op == "v" and u.args[0].startswith("anyp#")) or (u.op == "f" and u.args[0].startswith("tpart:")) for u in tm.subterms(v).values())
        ctx.holds("%s.flush[%s[%s] %s ...] adds the thread's own partial result (not a team-wide total once per thread)" % (label, e.arr.name, tm.show(e.idx, 40), e.op),
                  partial or v is tm.ZERO, "the value added inside the critical section is the same on every thread: %s" % tm.show(v, 100), fq)
    return n


def _is_input_array(sym, name):
    """a parameter array that the summarised function reads and never writes"""
    written = any(e.kind == "w" and e.arr.name == name for e in sym.events)
    read = [e.arr for e in sym.events if e.kind == "r" and e.arr.name == name]
    return bool(read) and not written and all(getattr(a, "origin", "param") == "param" and not a.private for a in read)


def scalar_obligations(ctx, label, sym, fq):
    """(ii) every scalar written inside a region is private or a declared reduction."""
    seen = set()
    # a shared scalar to which every thread stores the SAME constant (`fwd = 1;` normalising a flag inside the region) ends with that value whatever the team
    # size: formally concurrent stores, value-deterministic — accepted, and listed as an assumption (stores of equal values do not interfere)
    const_writes = {}
    for kind, t, guards, qvars, where in sym.side:
        if kind == "shared-scalar-write":
            vals = const_writes.setdefault(t, [])
            v_ = guards[0] if guards else None
            vals.append(v_ if isinstance(v_, (int, Q)) else (v_.args[0] if isinstance(v_, tm.T) and v_.op == "c" else None))
    benign = {t for t, vals in const_writes.items() if vals and None not in vals and len(set(Q(x) for x in vals)) == 1}
    for t in sorted(benign):
        ctx.assume("%s: every thread stores the same constant %s to the shared scalar `%s` inside the region (concurrent stores of equal values)" % (label, const_writes[t][0], t))
    for kind, t, guards, qvars, where in sym.side:
        if kind == "shared-scalar-write" and t in benign:
            continue
        if kind in ("shared-scalar-reduction", "shared-scalar-write") and (kind, t) not in seen:
            seen.add((kind, t))
            ctx.holds("%s.scalar %s written in the region is private or a reduction" % (label, t), False,
                      "%s: %s lives outside the parallel region and is %s inside it by several threads" % (kind, t, "accumulated" if "reduction" in kind else "written"), fq)
    ctx.holds("%s.scalars written in the region are private or reductions" % label, not seen, "%s" % sorted(seen), fq)


class TableHyps(object):
    def __init__(self, tabs, ranges=None, injective=(), custom=None):
        self.tabs = [t[1] for t in tabs]
        self.ranges = ranges or {}
        self.injective = list(injective)
        self.custom = custom

    def instances(self, terms_):
        out = list(self.custom(terms_)) if self.custom else []
        for tab in self.injective:
            idxs, seen = [], set()
            for t in terms_:
                for u in tm.subterms(t).values():
                    if u.op == "fi" and u.args[0] == tab and u.args[1].id not in seen:
                        seen.add(u.args[1].id)
                        idxs.append(u.args[1])
            for a in idxs:
                out.append(tm.mk_le(tm.ZERO, tm.mk_fi(tab, a)))
                for b in idxs:
                    if a is not b:
                        out.append(tm.mk_implies(tm.mk_eq(tm.mk_fi(tab, a), tm.mk_fi(tab, b)), tm.mk_eq(a, b)))
        for tab, (lo, hi) in self.ranges.items():
            seen = set()
            for t in terms_:
                for u in tm.subterms(t).values():
                    if u.op == "fi" and u.args[0] == tab and u.id not in seen:
                        seen.add(u.id)
                        out.append(tm.mk_and(tm.mk_le(lo, u), tm.mk_lt(u, hi)))
        for tab in self.tabs:
            idxs, seen = [], set()
            for t in terms_:
                for u in tm.subterms(t).values():
                    if u.op == "fi" and u.args[0] == tab and u.args[1].id not in seen:
                        seen.add(u.args[1].id)
                        idxs.append(u.args[1])
            for a in idxs:
                out.append(tm.mk_le(tm.ZERO, tm.mk_fi(tab, a)))
                for b in idxs:
                    if a is not b:
                        out.append(mono(tab, a, b))
                        # strictness is not assumed; adjacent blocks [tab[a], tab[a+1]) are disjoint by monotonicity alone
                        out.append(tm.mk_implies(tm.mk_le(a + 1, b), tm.mk_le(tm.mk_fi(tab, a + 1), tm.mk_fi(tab, b))))
        return out


def relevant(assumes, terms_):
    """The assumptions (definitions of named iteration counts etc.) that share a variable, transitively, with the query."""
    vs = set()
    for t in terms_:
        vs.update(u.id for u in tm.free_vars(t) if "#" in u.args[0])
    out, rest, changed = [], list(assumes), True
    while changed:
        changed = False
        for a in list(rest):
            av = set(u.id for u in tm.free_vars(a) if "#" in u.args[0])
            if av & vs:
                out.append(a)
                rest.remove(a)
                vs |= av
                changed = True
    return out


def independence(ctx, label, sym, hyps, hy_tab, fq):
    seen_a, assumes = set(), []
    for a in oblig.side_hyps(sym):
        if a.id not in seen_a:
            seen_a.add(a.id)
            assumes.append(a)
    hyps = list(hyps)
    canary_done = []
    evs = [e for e in sym.events if e.level in ("loop", "thread", "single") and not e.arr.private]
    writes = oblig._dedupe_l([e for e in evs if e.kind == "w"])
    reads = oblig._dedupe_l([e for e in evs if e.kind == "r"])
    n = 0
    for i, w1 in enumerate(writes):
        others = [w for w in writes[i:] if w.arr is w1.arr and w.phase == w1.phase] + [r for r in reads if r.arr is w1.arr and r.phase == w1.phase]
        for e2 in others:
            same_construct = (e2.par is w1.par and e2.level == w1.level and e2.level in ("loop", "thread"))
            if w1.level == "single" and e2.level == "single":
                continue
            core = [w1.idx, e2.idx] + list(w1.guards) + list(e2.guards)
            rel = relevant(assumes, core)
            idx2, g2, m, extra = oblig.rename_local(e2, rel)
            cs = list(hyps) + rel + list(w1.guards) + g2 + extra + [tm.mk_eq(w1.idx, idx2)]
            if same_construct:
                v2 = m.get(e2.par)
                if v2 is None:
                    continue
                diff = [tm.mk_not(tm.mk_eq(w1.par, v2))]
                if len(w1.par_extra) == len(e2.par_extra):
                    diff += [tm.mk_not(tm.mk_eq(a, m.get(b, b))) for a, b in zip(w1.par_extra, e2.par_extra)]
                cs.append(tm.mk_or(*diff))
            cs += hy_tab.instances(cs)
            if same_construct and not canary_done and e2 is w1:
                # vacuity guard: without "different iterations" the same access obviously meets itself — the hypotheses must allow that
                canary_done.append(1)
                # (the second iteration may coincide with the first, so it is enough that ONE iteration satisfies the hypotheses and its guards: the
                # identical copy then meets it at the same index — a much smaller satisfiability query, robust under machine load)
                cs0 = list(hyps) + rel + list(w1.guards)
                cs0 += hy_tab.instances(cs0)
                r0, _, be0 = intarith.check_sat_int(cs0, 60.0)
                if r0 not in ("sat", "unsat"):
                    r0, _, be0 = smt.check_sat(cs0, 120.0)
                ctx._rec("canary", "%s.race-free canary (same iteration allowed: must be satisfiable)" % label,
                         vc.Verdict("refuted" if r0 == "sat" else ("discharged" if r0 == "unsat" else "undecided"), be0), fq)
            n += 1
            full_budget = 12.0 if ctx.tier == "quick" else 60.0
            r, env, be = intarith.check_sat_int(cs, 3.0)
            name = "%s.race-free[%s %s[%s] vs %s[%s]%s]#%d" % (label, "w/w" if e2.kind == "w" else "w/r", w1.arr.name, tm.show(w1.idx, 40), e2.arr.name, tm.show(e2.idx, 40),
                                                                "" if same_construct else " across constructs of one barrier phase", n)
            if r not in ("sat", "unsat"):
                # Euclidean-division rule (cvc/stride.py): split  idx1 == idx2  into quotient and remainder equations with proved premises
                from cvc import stride
                eqc = tm.mk_eq(w1.idx, idx2)
                Hs = [c for c in cs if c is not eqc]
                log_ = []
                if stride.separate(lambda C, b_: intarith.check_sat_int(C, b_)[0], Hs, w1.idx, idx2, 6.0 if ctx.tier == "quick" else 30.0, log=log_):
                    r, be = "unsat", "division-uniqueness rule [%s] + %s" % ("; ".join(log_[:3]), be)
                else:
                    r, env, be = intarith.check_sat_int(cs, full_budget)
            if r == "unsat":
                ctx._rec("obligation", name, vc.Verdict("discharged", be), fq)
            elif r == "sat" and any(u.op == "f" and u.args[0] not in ("idiv", "imod") and not (str(u.args[0]).startswith("rd:") and _is_input_array(sym, str(u.args[0])[3:]))
                                    for c in cs for u in tm.subterms(tm.lift(c)).values()):
                # (reads of an array the function never writes are INPUT DATA: any content is admissible, a model that chooses it is a genuine input)
                # the counter-model interprets a real-valued function (trunc, sqrt, an array read ...) freely: not a refutation
                ctx.undecided(name, "solver model relies on a free interpretation of %s" % sorted(set(u.args[0] for c in cs for u in tm.subterms(tm.lift(c)).values() if u.op == "f" and u.args[0] not in ("idiv", "imod")))[:3], fq)
            elif r == "sat":
                ctx._rec("obligation", name, vc.Verdict("refuted", be, "two different iterations / threads can touch the same element without a barrier between them", witness=env), fq)
            else:
                ctx.undecided(name, "solver unknown", fq)
    if n == 0:
        ctx.holds("%s.race-free (no pair of accesses by different threads in one barrier phase: shared writes only inside critical / single blocks)" % label,
                  all(w.level == "single" for w in writes), "%s" % [repr(w)[:80] for w in writes if w.level != "single"][:3], fq)
    return n


# ------------------------------------------------------------------ manual partitions
def ieval(t, env):
    """Exact integer evaluation (C semantics for idiv / imod) of index terms and guards."""
    t = tm.lift(t)
    op = t.op
    if op == "c":
        return int(t.args[0]) if t.args[0].denominator == 1 else t.args[0]
    if op == "v":
        return env[t]
    if op == "+":
        return sum(ieval(a, env) for a in t.args)
    if op == "*":
        r = 1
        for a in t.args:
            r *= ieval(a, env)
        return r
    if op == "^":
        return ieval(t.args[0], env) ** int(ieval(t.args[1], env))
    if op == "f" and t.args[0] in ("idiv", "imod"):
        x, y = ieval(t.args[1], env), ieval(t.args[2], env)
        if y == 0:
            raise ZeroDivisionError
        q = abs(x) // abs(y)
        q = q if (x >= 0) == (y >= 0) else -q
        return q if t.args[0] == "idiv" else x - q * y
    if op == "ite":
        return ieval(t.args[1], env) if ieval(t.args[0], env) else ieval(t.args[2], env)
    if op == "<":
        return ieval(t.args[0], env) < ieval(t.args[1], env)
    if op == "<=":
        return ieval(t.args[0], env) <= ieval(t.args[1], env)
    if op == "==":
        return ieval(t.args[0], env) == ieval(t.args[1], env)
    if op == "and":
        return all(ieval(a, env) for a in t.args)
    if op == "or":
        return any(ieval(a, env) for a in t.args)
    if op == "not":
        return not ieval(t.args[0], env)
    if op == "T":
        return True
    if op == "F":
        return False
    raise KeyError("ieval: %s" % op)


def partition_cover(arr, kind, level, total_name, what):
    """(iv) The set of positions  { P(t, g) : guards(t, g) }  visited by the partitioned loop is [0, total) for every team size:
    t is the thread / block variable (the construct's parallel variable), g the innermost loop variable of the selected access, and
    P the part of its index that depends on (t, g).  Existence is proved with the witness t = P div c, g = P - c*t, c being the
    coefficient of t read off the real code's index (or loop bound); if that proof fails a concrete team size / length with an unvisited
    position is searched for by exact evaluation of the real guards (a refutation with a failing input)."""
    def check(ctx, fn, s, args, hyps, fq):
        from pyvc.nf import NF
        evs = [e for e in s.events if e.arr.name == arr and e.kind == kind and e.level == level and e.par is not None and e.qvars]
        ctx.holds("%s.partition[%s] the partitioned access %s[...] is present" % (fn, what, arr), bool(evs), "", fq)
        if not evs:
            return
        ev = evs[0]
        t, gq = ev.par, ev.qvars[-1][0]
        total = args[total_name]
        nfc = NF()
        z = lambda term, tv, gv: tm.substitute(term, {t: tm.lift(tv), gq: tm.lift(gv)})
        P = nfc.rf_to_term(nfc.nf(ev.idx - z(ev.idx, 0, 0)))
        c = nfc.rf_to_term(nfc.nf(z(P, 1, 0)))
        mine = [g for g in ev.guards if t in tm.subterms(g).values() or gq in tm.subterms(g).values()]
        if c is tm.ZERO:
            # the thread variable enters through the loop bounds only: block length = coefficient of t in the lower bound of g
            los = [g.args[0] for g in mine if g.op == "<=" and g.args[1] is gq and t in tm.subterms(g.args[0]).values()]
            c = nfc.rf_to_term(nfc.nf(tm.substitute(los[0], {t: tm.ONE}) - tm.substitute(los[0], {t: tm.ZERO}))) if los else tm.ONE
        G = I("G")
        tw = tm.mk_fn("idiv", G, c)
        gw = G - c * tw if t in tm.subterms(P).values() else G
        assumes = [a for a in oblig.side_hyps(s)]
        rel = relevant(assumes, [ev.idx] + mine)
        H = list(hyps) + [a for a in rel if not (t in tm.subterms(a).values() or gq in tm.subterms(a).values())] + [tm.mk_le(tm.ZERO, G), tm.mk_lt(G, total)]
        goal = tm.mk_and(*([z(g_, tw, gw) for g_ in mine] + [tm.mk_eq(z(P, tw, gw), G)]))
        name = "%s.partition[%s] every position below %s is visited by some thread / block, for every team size" % (fn, what, total_name)
        r, env, be = intarith.check_sat_int(H + [tm.mk_lt(tm.ZERO, c), tm.mk_not(goal)], 10.0 if ctx.tier == "quick" else 60.0)
        if r == "unsat":
            ctx._rec("obligation", name, vc.Verdict("discharged", be), fq)
        else:
            # search a concrete failing input on the real guards
            free = sorted(set(u for g_ in mine + [P] for u in tm.free_vars(g_)) - {t, gq}, key=lambda u: u.args[0])
            bad = None
            if all(u.args[1] == "I" and not any(x.op == "fi" for g_ in mine for x in tm.subterms(g_).values()) for u in free) and len(free) <= 4:
                import itertools as _it
                for vals in _it.product(*[range(0 if "thread" not in u.args[0] else 1, 14 if u is total or u.args[0] == total_name else 7) for u in free]):
                    env0 = dict(zip(free, vals))
                    tot = env0.get(total, None) if isinstance(total, tm.T) else None
                    if tot is None:
                        continue
                    trange = ev.qvars[0]
                    try:
                        tlo, thi = ieval(trange[1], env0), ieval(trange[2], env0)
                        visited = set()
                        for tv in range(tlo, thi):
                            for gv in range(0, tot + 2):
                                e2 = dict(env0)
                                e2[t], e2[gq] = tv, gv
                                if all(ieval(g_, e2) for g_ in mine):
                                    visited.add(ieval(P, e2))
                    except (ZeroDivisionError, KeyError):
                        continue
                    miss = [x for x in range(tot) if x not in visited]
                    if miss:
                        bad = {u.args[0]: v for u, v in env0.items()}
                        bad["unvisited_positions"] = miss[:8]
                        break
            if bad is not None:
                ctx._rec("obligation", name, vc.Verdict("refuted", "exact evaluation of the loop guards", "positions of [0, %s) that no thread / block visits" % total_name, witness=bad), fq)
            else:
                ctx.undecided(name, "witness proof failed and no small counterexample found", fq)
        # positive block length whenever there is something to do
        r2, _, be2 = intarith.check_sat_int(H + [tm.mk_le(c, tm.ZERO)], 10.0)
        if r2 == "unsat":
            ctx._rec("obligation", "%s.partition[%s] block length positive when the range is non-empty" % (fn, what), vc.Verdict("discharged", be2), fq)
        elif bad is None if "bad" in dir() else True:
            ctx.undecided("%s.partition[%s] block length positive when the range is non-empty" % (fn, what), "solver", fq)
    return check


PARTITIONS = {
    "contract_grad_terms_parallel": partition_cover("f_g", "r", "thread", "ngrids", "grid points by thread number"),
    "SDMXcontract_ao_to_bas": partition_cover("vbas", "w", "loop", "ngrids", "grid points by block"),
    "SDMXcontract_ao_to_bas_bwd": partition_cover("vbas", "r", "loop", "ngrids", "grid points by block"),
    "SDMXcontract_ao_to_bas_l1": partition_cover("vbas", "w", "loop", "ngrids", "grid points by block"),
    "SDMXcontract_ao_to_bas_l1_bwd": partition_cover("vbas", "r", "loop", "ngrids", "grid points by block"),
}


SETUP_ENTRY_POINTS = {"set_spline_1f1", "set_spline_1f1_with_grad", "set_global_convolution_exponent", "cider_fft_initialize"}


def unit_static_state(ctx):
    """Routines of the C libraries run inside parallel regions — their own, or PySCF's (the GTO evaluation callbacks of frac_lapl.c / fast_sdmx.c are called
    from GTOeval_loop's worksharing loop).  State that outlives a call and is written by it is shared by all threads: no function body declares a `static`
    local variable, and file-scope variables are written only by the documented set-up entry points (called serially from Python before any evaluation)."""
    from cvc.csym import _walk
    fq = []
    found = []
    nfn = 0
    for rel in FILES + HELPER_TUS + ["xc_utils/libxc_baselines.c"]:
        tu = cparse.load(rel)
        mutable = {k for k, v in tu.globals.items() if "const" not in v.get("type", {}).get("qualType", "") and not v.get("loc", {}).get("includedFrom")}
        for fn, node in tu.functions.items():
            if not any(c.get("kind") == "CompoundStmt" for c in node.get("inner", [])) or fn.startswith("__"):
                continue
            nfn += 1
            for x in _walk(node):
                k = x.get("kind")
                if k == "VarDecl" and x.get("storageClass") == "static" and "const" not in x.get("type", {}).get("qualType", ""):
                    found.append("lib/%s:%s declares the static local `%s`" % (rel, fn, x.get("name")))
                op = x.get("opcode", "")
                if (k in ("BinaryOperator", "CompoundAssignOperator") and op.endswith("=") and op not in ("==", "!=", "<=", ">=")) or (k == "UnaryOperator" and op in ("++", "--")):
                    t = x["inner"][0]
                    while t.get("kind") in ("ParenExpr", "ImplicitCastExpr", "ArraySubscriptExpr", "MemberExpr"):
                        t = t["inner"][0]
                    if t.get("kind") == "DeclRefExpr" and t.get("referencedDecl", {}).get("name") in mutable and fn not in SETUP_ENTRY_POINTS:
                        found.append("lib/%s:%s writes the file-scope variable `%s`" % (rel, fn, t["referencedDecl"]["name"]))
    ctx.holds("no routine keeps writable state across calls (static locals, file-scope variables) except the set-up entry points %s" % sorted(SETUP_ENTRY_POINTS),
              not found, "; ".join(sorted(set(found))[:6]), fq, witness={"state": sorted(set(found))[:10]})
    ctx.holds("static-state scan covered the library functions", nfn > 150, "%d function bodies" % nfn, fq)


def units():
    u = [("registry", unit_registry), ("scratch-ownership", unit_scratch_ownership), ("static-state", unit_static_state)]
    for rel, fn in omp_functions():
        u.append(("%s/%s" % (os.path.basename(rel), fn), unit_function(rel, fn)))
    # the flat copies of the FFT wrapper (listed above as covered by C20): coverage of every element, bounds and disjointness for any team size
    from contracts import c20
    for ndim in (1, 2):
        for which in ("in", "out"):
            u.append(("fft-copy/%s/ndim%d" % (which, ndim), c20.unit_copy(ndim, which)))
    return u


_EXPECTED = [None]


def expected_verified():
    if _EXPECTED[0] is None:
        import json
        p = os.path.join(os.path.dirname(os.path.abspath(__file__)), "c10_expected.json")
        _EXPECTED[0] = set(json.load(open(p))) if os.path.exists(p) else set()
    return _EXPECTED[0]


def unit_scratch_ownership(ctx):
    """The harmonics recursion writes and re-reads the scratch arrays inside its sphbuf argument, so a sphbuf (or a list of them) used inside a parallel
    region must be owned by the thread: declared inside the region.  Ownership contract on the syntax tree of every OpenMP function of the anchored files
    (the functions that call the recursion are outside the footprint engine's subset, so this is the clause that stands in for their race obligation)."""
    from cvc.csym import _walk

    def _calls_with_shared_buffer(tu, fn):
        """names of sphbuf-typed variables declared outside a region-creating directive (omp parallel / parallel for) and passed to a call inside it"""
        f = tu.function(fn)
        decl = lambda node: set(x["name"] for x in _walk(node) if x.get("kind") == "VarDecl" and "sphbuf" in x.get("type", {}).get("qualType", ""))
        allb = decl(f)
        hits = set()
        for x in _walk(f):
            if x.get("kind") in ("OMPParallelDirective", "OMPParallelForDirective"):
                outside = allb - decl(x)
                for c in _walk(x):
                    if c.get("kind") == "CallExpr":
                        for a in _walk(c):
                            if a.get("kind") == "DeclRefExpr" and a.get("referencedDecl", {}).get("name") in outside:
                                hits.add(a["referencedDecl"]["name"])
        return sorted(hits)
    n = 0
    for rel in FILES + HELPER_TUS:
        try:
            tu = cparse.load(rel)
        except Exception:
            continue
        for fn, node in tu.functions.items():
            if not has_omp(node):
                continue
            src_has = any("sphbuf" in x.get("type", {}).get("qualType", "") for x in __import__("cvc.csym", fromlist=["_walk"])._walk(node) if x.get("kind") == "VarDecl")
            if not src_has:
                continue
            n += 1
            shared = _calls_with_shared_buffer(tu, fn)
            ctx.holds("%s:%s every harmonics scratch buffer used inside a parallel region is declared inside it (thread-owned)" % (rel.split("/")[-1], fn), not shared,
                      "declared outside the region and passed to a call inside it: %s" % shared, ["lib/%s:%s" % (rel, fn)])
    ctx.holds("scratch ownership: OpenMP functions that use a harmonics buffer were found", n >= 3, "%d" % n, [])


def unit_registry(ctx):
    fns = omp_functions()
    ctx.holds("functions with OpenMP directives found in the listed files", len(fns) >= 60, "%d" % len(fns), ["lib/" + f for f in FILES])
    for f in ("mod_cider/pbc_tools.c", "fft_wrapper/cider_mpi_fft.c", "mod_cider/debug_numint.c", "pwutil", "sbt"):
        ctx.assume("UNVERIFIED lib/%s: not in the property's anchor list / not compiled in this sandbox" % f)
    # self-test of the division-uniqueness rule (cvc/stride.py): it separates what is separable and nothing else
    from cvc import stride
    i1, i2, j1, j2, N, K = [I(n) for n in ("st_i1", "st_i2", "st_j1", "st_j2", "st_N", "st_K")]
    base = [tm.mk_le(tm.ZERO, j1), tm.mk_lt(j1, N), tm.mk_le(tm.ZERO, j2), tm.mk_lt(j2, N), tm.mk_le(tm.ZERO, i1), tm.mk_le(tm.ZERO, i2), tm.mk_lt(tm.ZERO, K)]
    cs_ = lambda C, b_: intarith.check_sat_int(C, b_)[0]
    ok = stride.separate(cs_, base + [tm.mk_not(tm.mk_eq(i1, i2))], K * (i1 * N + j1), K * (i2 * N + j2) , 10.0)
    ctx.holds("division-uniqueness rule separates K*(i*N + j) from K*(i'*N + j') for i != i', 0 <= j, j' < N", ok or
              stride.separate(cs_, base + [tm.mk_not(tm.mk_eq(i1, i2))], i1 * N + j1, i2 * N + j2, 10.0), "", ["verif/cvc/stride.py"])
    bad1 = stride.separate(cs_, base, i1 * N + j1, i2 * N + j2, 10.0)                                   # the same element can be met (i = i', j = j')
    bad2 = stride.separate(cs_, [c for c in base if c is not tm.mk_lt(j2, N)] + [tm.mk_not(tm.mk_eq(i1, i2))], i1 * N + j1, i2 * N + j2, 10.0)   # j' unbounded: rows overlap
    ctx._rec("canary", "division-uniqueness rule canary: no separation without distinct rows", vc.Verdict("refuted" if not bad1 else "discharged", "stride"), [])
    ctx._rec("canary", "division-uniqueness rule canary: no separation when a remainder is not bounded by the modulus", vc.Verdict("refuted" if not bad2 else "discharged", "stride"), [])


EXPLANATION = (
    "For every function with an OpenMP directive in the nine anchored C files, the clang AST of the real source is summarised in footprint mode and "
    "data-race freedom is proved for all sizes and all team sizes: different iterations of each worksharing loop, different threads of region code "
    "executed by every thread, and different constructs of one barrier phase never touch the same element of a shared array with a write involved; "
    "scalars written inside a region are private; manual partitions by thread number are partitions for every team size.  By the OpenMP memory model "
    "(A6) a race-free region computes a function of its inputs independent of the schedule, up to reassociation inside reductions and BLAS.")
TRUSTED = [
    "A5 C: int mathematical in index arithmetic, double real (values not tracked in footprint mode), distinct pointer parameters do not alias",
    "A6 OpenMP: variables declared inside a region are private; implicit barriers where the standard puts them; dgemm_ atomic on its windows",
    "struct invariants of atc_basis_set / convolution_collection (location tables monotone) assumed as established by their C builders",
    "reassociation inside reduction clauses and BLAS is allowed by the property statement",
]

if __name__ == "__main__":
    sys.exit(run_property("C10", "other", units(), EXPLANATION, TRUSTED, min_obligations=50, ns_pass=False))   # pure C summaries: no generic sample extent to vary
