"""C03 — declared uniform-scaling powers hold; normalised features are scale invariant.

Under n_lambda(r) = lambda^3 n(lambda r) the pointwise ingredients transform as (rho, sigma, tau) ->
(lambda^3 rho, lambda^8 sigma, lambda^5 tau) at co-scaled points.  Contracts, lambda > 0 symbolic:

  settings:get_cider_exponent(_gga)      ensures a(l^3 rho, l^8 sigma, l^5 tau) = l^2 a(rho, sigma, tau)   (nspin 1, 2; grad_mul = 0 / > 0)
  settings:get_s2, get_alpha             ensures invariance (A2: 1e-16 regularisers dropped, listed)
  plans:_BaseSemilocalPlan.get_feat      ensures feature i scales with SemilocalSettings.get_feat_usps()[i]   (4 modes, nspin 1, 2)
  FeatNormalizerList._get_rho_and_inh    ensures rho -> l^3 rho, inh invariant                               (4 modes)
  <normaliser>.fill_fwd                  ensures fill_fwd(l^u x, l^3 rho, inh) = l^(u + get_usp()) fill_fwd(x, rho, inh)
  every settings class                   ensures get_feat_usps()[i] + usp(get_reasonable_normalizer()[i]) = 0 for every nonlocal
                                         feature, or NotImplementedError; ueg_vector(l^3 rho)[i] = l^usp[i] ueg_vector(rho)[i]
                                         SPEC_USPS[spec] = power derived from the documented kernel
  baselines:_lda_x_helper                ensures e(l^3 rho) = l^4 e(rho)  (so a model of power-0 features times LDA_X integrates to power 1)
"""
import os
import sys
import warnings

sys.path.insert(0, os.path.dirname(os.path.dirname(os.path.abspath(__file__))))
warnings.filterwarnings("ignore")

import numpy as np
from fractions import Fraction as Q

from pyvc import terms as tm
from pyvc import vc, smt
from pyvc.framework import run_property
from pyvc.interp import ExcV, Builtin, PyRaise, Unsupported
from contracts.common import *
from contracts.c13 import theta, RHO, SMOD, NMOD, PMOD
from specs import nldf_kernels as K

BMOD = "ciderpress.dft.baselines"
LAM = tm.var("lam")
LPOS = tm.mk_lt(tm.ZERO, LAM)
A2_NOTE = []


def a2(t, ctx, where):
    cnt = []
    r = tm.drop_small_addends(t, count=cnt)
    if cnt:
        ctx.assume("A2 applied (regulariser <= 1e-16 treated as 0) in %s" % where)
    return r


def scaled(arr, power):
    return np.array([tm.lift(x) * LAM ** power for x in arr.reshape(-1)], dtype=object).reshape(arr.shape)


def unit_exponent(gga, nspin, gradzero):
    def run(ctx):
        it = ctx.interp
        m = it.load_module(SMOD)
        name = "get_cider_exponent_gga" if gga else "get_cider_exponent"
        f = m.ns[name]
        rho, sigma, tau = sym_array("rho", (NS,)), sym_array("sigma", (NS,)), sym_array("tau", (NS,))
        A, G, Tm, RC = tm.var("a0"), tm.var("grad_mul"), tm.var("tau_mul"), tm.var("rhocut")
        hyps = [LPOS, tm.mk_lt(tm.ZERO, RC), tm.mk_lt(tm.ZERO, A), tm.mk_le(tm.ZERO, Tm)]
        if not gradzero:
            hyps.append(tm.mk_lt(tm.ZERO, G))
        for s in range(NS):
            hyps += [tm.mk_lt(RC, rho[s]), tm.mk_lt(RC, rho[s] * LAM ** 3), tm.mk_le(tm.ZERO, sigma[s]), tm.mk_le(tm.ZERO, tau[s])]
        it.hyps = list(hyps)
        g = 0 if gradzero else G

        def call(r, s_, t_):
            if gga:
                return it.call(f, [r.copy(), s_.copy()], {"a0": A, "grad_mul": g, "rhocut": RC, "nspin": nspin})
            return it.call(f, [r.copy(), s_.copy(), t_.copy()], {"a0": A, "grad_mul": g, "tau_mul": Tm, "rhocut": RC, "nspin": nspin})
        fq = ["%s:%s" % (SMOD, name)]
        base = all_paths(it, lambda: call(rho, sigma, tau))
        sc = all_paths(it, lambda: call(scaled(rho, 3), scaled(sigma, 8), scaled(tau, 5)))
        n = 0
        for bo, bv, bpc, _ in base:
            for so, sv, spc, _ in sc:
                if bo != "return" or so != "return":
                    ok, _ = smt.feasible(hyps + bpc + spc, 3.0)
                    ctx.holds("total#%d" % n, not ok, "raises inside the domain", fq)
                    n += 1
                    continue
                H = hyps + bpc + spc
                for s in range(NS):
                    ctx.equal("a(scaled) = lam^2 a [s=%d]#%d" % (s, n), H, sv[0][s], LAM ** 2 * tm.lift(bv[0][s]), fq, replay=replay_exponent(gga, nspin, gradzero))
                ctx.canary("canary#%d" % n, H, sv[0][0], LAM ** 3 * tm.lift(bv[0][0]))
                n += 1
    return run


def replay_exponent(gga, nspin, gradzero):
    def replay(wit):
        import ciderpress.dft.settings as S
        e = env_floats(wit or {})
        lam = e.get("lam", 1.7)
        rho = np.array([e.get("rho_%d" % s, 0.5 + 0.2 * s) for s in range(NS)])
        sig = np.array([e.get("sigma_%d" % s, 0.3) for s in range(NS)])
        tau = np.array([e.get("tau_%d" % s, 0.4) for s in range(NS)])
        kw = dict(a0=e.get("a0", 1.2), grad_mul=0.0 if gradzero else e.get("grad_mul", 0.1), rhocut=e.get("rhocut", 1e-10), nspin=nspin)
        if gga:
            a = S.get_cider_exponent_gga(rho.copy(), sig.copy(), **kw)[0]
            b = S.get_cider_exponent_gga(lam ** 3 * rho, lam ** 8 * sig, **kw)[0]
        else:
            kw["tau_mul"] = e.get("tau_mul", 0.03)
            a = S.get_cider_exponent(rho.copy(), sig.copy(), tau.copy(), **kw)[0]
            b = S.get_cider_exponent(lam ** 3 * rho, lam ** 8 * sig, lam ** 5 * tau, **kw)[0]
        return {"reproduced": bool(not close(b, lam ** 2 * a)), "lam": lam, "a": a.tolist(), "a_scaled": b.tolist()}
    return replay


def unit_s2_alpha(ctx):
    it = ctx.interp
    m = it.load_module(SMOD)
    rho, sigma, tau = sym_array("rho", (NS,)), sym_array("sigma", (NS,)), sym_array("tau", (NS,))
    tol = tm.const(Q(1, 10 ** 10))
    hyps = [LPOS]
    for s in range(NS):
        hyps += [tm.mk_lt(tol, rho[s]), tm.mk_lt(tol, rho[s] * LAM ** 3), tm.mk_le(tm.ZERO, sigma[s]), tm.mk_le(tm.ZERO, tau[s])]
    it.hyps = list(hyps)
    ctx.assume("uniform-scaling identities of s2 / alpha / the exponents are stated for densities above the fixed thresholds (ALPHA_TOL = 1e-10, rhocut) both before and after "
               "scaling: a fixed threshold is not scale covariant, so the identity cannot hold across it (below the thresholds the quantities are identically zero, C08)")
    for name, nargs in (("get_s2", 2), ("get_alpha", 3)):
        f = m.ns[name]
        args0 = [rho, sigma, tau][:nargs]
        args1 = [scaled(rho, 3), scaled(sigma, 8), scaled(tau, 5)][:nargs]
        base = all_paths(it, lambda: it.call(f, [a.copy() for a in args0], {}))
        sc = all_paths(it, lambda: it.call(f, [a.copy() for a in args1], {}))
        n = 0
        for bo, bv, bpc, _ in base:
            for so, sv, spc, _ in sc:
                if bo != "return" or so != "return":
                    continue
                H = hyps + bpc + spc
                for s in range(NS):
                    ctx.equal("%s invariant [s=%d]#%d" % (name, s, n), H, a2(sv[s], ctx, name), a2(bv[s], ctx, name), ["%s:%s" % (SMOD, name)])
                ctx.canary("%s canary#%d" % (name, n), H, a2(sv[0], ctx, name), LAM * a2(bv[0], ctx, name) + 1)
                n += 1


def semilocal_inputs(nspin):
    rho, sigma, tau = sym_array("rho", (nspin, NS)), sym_array("sigma", (nspin, NS)), sym_array("tau", (nspin, NS))
    tol = tm.const(Q(1, 10 ** 10))
    hyps = [LPOS]
    for x in rho.reshape(-1):
        hyps += [tm.mk_lt(tol, x), tm.mk_lt(tol, x * LAM ** 3)]
    for x in list(sigma.reshape(-1)) + list(tau.reshape(-1)):
        hyps.append(tm.mk_le(tm.ZERO, x))
    return rho, sigma, tau, hyps


def unit_semilocal(mode, nspin):
    def run(ctx):
        it = ctx.interp
        sm, pm = it.load_module(SMOD), it.load_module(PMOD)
        rho, sigma, tau, hyps = semilocal_inputs(nspin)
        it.hyps = list(hyps)
        st = it.call(sm.ns["SemilocalSettings"], [mode], {})
        plan = it.call(pm.ns["_BaseSemilocalPlan"], [st, nspin], {})
        usps = it.call_method(st, "get_feat_usps", [])
        mgga = mode in ("nst", "npa")
        fq = [PMOD + ":_BaseSemilocalPlan.get_feat", PMOD + ":_BaseSemilocalPlan._fill_feat_%s_" % mode, SMOD + ":SemilocalSettings.get_feat_usps"]

        def call(r, s_, t_):
            a = [r.copy(), s_.copy()] + ([t_.copy()] if mgga else [])
            return it.call_method(plan, "get_feat", a)
        base = all_paths(it, lambda: call(rho, sigma, tau))
        sc = all_paths(it, lambda: call(scaled(rho, 3), scaled(sigma, 8), scaled(tau, 5)))
        n = 0
        for bo, bv, bpc, _ in base:
            for so, sv, spc, _ in sc:
                if bo != "return" or so != "return":
                    ok, _ = smt.feasible(hyps + bpc + spc, 3.0)
                    ctx.holds("total#%d" % n, not ok, "get_feat raises inside the domain: %s %s" % (bv, sv), fq)
                    n += 1
                    continue
                H = hyps + bpc + spc
                ctx.holds("usp-count#%d" % n, len(usps) == bv.shape[1], "len(get_feat_usps) = %d, features = %d" % (len(usps), bv.shape[1]), fq)
                for i in range(bv.shape[1]):
                    for sp in range(nspin):
                        ctx.equal("feat%d scales with lam^%s [spin=%d]#%d" % (i, usps[i], sp, n), H, a2(sv[sp, i, 0], ctx, "semilocal " + mode),
                                  LAM ** usps[i] * a2(bv[sp, i, 0], ctx, "semilocal " + mode), fq)
                ctx.canary("canary#%d" % n, H, a2(sv[0, 0, 0], ctx, mode), LAM ** 2 * a2(bv[0, 0, 0], ctx, mode))
                n += 1
    return run


def unit_inh(mode):
    def run(ctx):
        it = ctx.interp
        sm, nm = it.load_module(SMOD), it.load_module(NMOD)
        st = it.call(sm.ns["SemilocalSettings"], [mode], {})
        usps = it.call_method(st, "get_feat_usps", [])
        nsl = len(usps)
        cutoff = tm.var("cutoff")
        lst = it.call(nm.ns["FeatNormalizerList"], [[None] * nsl, mode], {"cutoff": cutoff})
        X = sym_array("X", (1, nsl, NS))
        hyps = [LPOS, tm.mk_lt(tm.ZERO, cutoff)]
        for s in range(NS):
            hyps += [tm.mk_lt(cutoff, X[0, 0, s]), tm.mk_lt(cutoff, X[0, 0, s] * LAM ** 3)]
        it.hyps = list(hyps)
        XS = X.copy()
        for i in range(nsl):
            XS[0, i] = scaled(X[0, i], usps[i])
        fq = [NMOD + ":FeatNormalizerList._get_rho_and_inh"]
        base = all_paths(it, lambda: it.call_method(lst, "_get_rho_and_inh", [X.copy()]))
        sc = all_paths(it, lambda: it.call_method(lst, "_get_rho_and_inh", [XS.copy()]))
        n = 0
        for bo, bv, bpc, _ in base:
            for so, sv, spc, _ in sc:
                if bo != "return" or so != "return":
                    continue
                H = hyps + bpc + spc
                for s in range(NS):
                    ctx.equal("rho scales lam^3 [s=%d]#%d" % (s, n), H, sv[0][0, s], LAM ** 3 * tm.lift(bv[0][0, s]), fq)
                    ctx.equal("inh invariant [s=%d]#%d" % (s, n), H, sv[1][0, s], bv[1][0, s], fq)
                n += 1
        ctx.canary("canary", H, sv[1][0, 0], LAM * tm.lift(bv[1][0, 0]) + 1)
    return run


NORMS = ["ConstantNormalizer", "DensityNormalizer", "InhomogeneityNormalizer", "GeneralNormalizer"]


def unit_norm(name):
    def run(ctx):
        it = ctx.interp
        nm = it.load_module(NMOD)
        cls = nm.ns[name]
        names, _ = init_params(cls)
        pv = {n: tm.var("p_" + n) for n in names}
        obj = it.call(cls, [pv[n] for n in names], {})
        x, rho, inh = sym_array("x", (NS,)), sym_array("rho", (NS,)), sym_array("inh", (NS,))
        u = tm.var("u")
        hyps = [LPOS]
        for s in range(NS):
            hyps += [tm.mk_lt(tm.ZERO, rho[s]), tm.mk_le(tm.ZERO, inh[s]), tm.mk_lt(tm.ZERO, x[s])]
        if "const2" in pv:
            hyps.append(tm.mk_le(tm.ZERO, pv["const2"]))
        usp = it.call_method(obj, "get_usp", [])
        fq = ["%s:%s.fill_fwd" % (NMOD, name), "%s:%s.get_usp" % (NMOD, name)]
        b = it.call_method(obj, "fill_fwd", [x.copy(), rho.copy(), inh.copy()])
        xs = np.array([tm.lift(v) * tm.mk_pow(LAM, u) for v in x], dtype=object)
        s_ = it.call_method(obj, "fill_fwd", [xs, scaled(rho, 3), inh.copy()])
        for k in range(NS):
            ctx.equal("fill_fwd scales with lam^(u+usp) [s=%d]" % k, hyps, s_[k], tm.mk_pow(LAM, u + tm.lift(usp)) * tm.lift(b[k]), fq)
        ctx.canary("canary", hyps, s_[0], tm.mk_pow(LAM, u + tm.lift(usp) + 1) * tm.lift(b[0]))
    return run


def usp_of_norm(it, n):
    return 0 if n is None else it.call_method(n, "get_usp", [])


L1_USP = {"se_grad": K.kernel_usp(K.VI_KERNELS["se_ap"]) - 1, "se_rvec": K.kernel_usp(K.VI_KERNELS["se"]) - 1, -1: 4}
RM_USP = {"one": 0, "expnt": 2}   # multiplying the density by the exponent (power 2)


def documented_usps(rho_mult, jspecs=(), l0=(), l1=(), dots=()):
    """Uniform-scaling powers derived from the documented kernels (specs/nldf_kernels.py), in feature order j, i(l=0), i(l=1 dots)."""
    out = []
    for s in jspecs:
        out.append(RM_USP[rho_mult] + (K.kernel_usp(K.VJ_KERNELS[s]) if s in K.VJ_KERNELS else 0))
    for s in l0:
        out.append(RM_USP[rho_mult] + K.kernel_usp(K.VI_KERNELS[s]))
    for j, k in dots:
        uj = L1_USP[-1] if j == -1 else L1_USP[l1[j]]
        uk = L1_USP[-1] if k == -1 else L1_USP[l1[k]]
        out.append(RM_USP[rho_mult] + uj + uk)
    return out


def check_settings_object(ctx, obj, hyps, label, fq, nonlocal_from=0, expected=None):
    """usp(feature) + usp(normaliser) = 0 and ueg_vector(l^3 rho) = l^usp ueg_vector(rho), on every path."""
    it = ctx.interp
    it.hyps = list(hyps)

    def thunk():
        usps = it.call_method(obj, "get_feat_usps", [])
        norms = it.call_method(obj, "get_reasonable_normalizer", [])
        return list(usps), [usp_of_norm(it, n) for n in norms]
    if expected is not None:
        try:
            declared = list(it.call_method(obj, "get_feat_usps", []))
            ctx.holds("%s.declared-usps = documented powers" % label, len(declared) == len(expected) and all(tm.lift(a) is tm.lift(b) for a, b in zip(declared, expected)),
                      "declared %s vs documented %s" % (declared, expected), fq, witness={"declared": [str(x) for x in declared], "documented": [str(x) for x in expected]})
        except PyRaise as e:
            ctx.holds("%s.declared-usps = documented powers" % label, False, "get_feat_usps raised %s" % e, fq)
    n = 0
    for o, v, pc, _ in all_paths(it, thunk):
        if o == "raise":
            ok = isinstance(v, ExcV) and v.cls.name == "NotImplementedError"
            feas, _ = smt.feasible(hyps + pc, 3.0)
            ctx.holds("%s.unsupported-power-raises-NotImplementedError#%d" % (label, n), ok or not feas, "raised %s" % (v,), fq)
            n += 1
            continue
        usps, nusps = v
        ctx.holds("%s.len(usps)=len(norms)#%d" % (label, n), len(usps) == len(nusps), "%d vs %d" % (len(usps), len(nusps)), fq)
        for i in range(nonlocal_from, min(len(usps), len(nusps))):
            ctx.equal("%s.usp+normaliser-usp=0 [feat %d]#%d" % (label, i, n), hyps + pc, tm.lift(usps[i]) + tm.lift(nusps[i]), tm.ZERO, fq)
        n += 1

    def ueg(r):
        return list(it.call_method(obj, "ueg_vector", [r]))
    usps0 = None
    try:
        usps0 = list(it.call_method(obj, "get_feat_usps", []))
    except PyRaise:
        return
    b = all_paths(it, lambda: ueg(RHO))
    s = all_paths(it, lambda: ueg(RHO * LAM ** 3))
    k = 0
    for bo, bv, bpc, _ in b:
        for so, sv, spc, _ in s:
            if bo != "return" or so != "return":
                exc = bv if bo != "return" else sv
                ok = isinstance(exc, ExcV) and exc.cls.name == "NotImplementedError"
                feas, _ = smt.feasible(hyps + bpc + spc, 3.0)
                ctx.holds("%s.ueg.total#%d" % (label, k), ok or not feas, "ueg_vector raised %s" % (exc,), fq)
                k += 1
                continue
            ctx.holds("%s.len(ueg)=len(usps)#%d" % (label, k), len(bv) == len(usps0), "%d vs %d" % (len(bv), len(usps0)), fq)
            for i in range(min(len(bv), len(usps0))):
                ctx.equal("%s.ueg scales with lam^usp [feat %d]#%d" % (label, i, k), hyps + bpc + spc, sv[i], LAM ** tm.lift(usps0[i]) * tm.lift(bv[i]) if not isinstance(usps0[i], tm.T) else tm.mk_pow(LAM, usps0[i]) * tm.lift(bv[i]), fq)
            k += 1


def unit_nldf_single(level, rho_mult):
    """Every l0 spec and every l1-dot pair as a single-feature settings object (versions i, j, k)."""
    def run(ctx):
        it = ctx.interp
        m = it.load_module(SMOD)
        l0s = list(m.ns["ALLOWED_I_SPECS_L0"])
        l1s = list(m.ns["ALLOWED_I_SPECS_L1"])
        js = list(m.ns["ALLOWED_J_SPECS"])
        spec_usps = m.ns["SPEC_USPS"]
        for s in l0s:
            ctx.holds("SPEC_USPS[%s] = power of the documented kernel" % s, s in K.VI_KERNELS and spec_usps[s] == K.kernel_usp(K.VI_KERNELS[s]),
                      "table %s vs derived %s" % (spec_usps.get(s), K.kernel_usp(K.VI_KERNELS[s]) if s in K.VI_KERNELS else None), [SMOD + ":SPEC_USPS"])
        for s in js:
            if s in K.VJ_KERNELS:
                ctx.holds("SPEC_USPS[%s] = power of the documented kernel (j)" % s, spec_usps[s] == K.kernel_usp(K.VJ_KERNELS[s]), "", [SMOD + ":SPEC_USPS"])
        # l=1: (r'-r) k(a, r): one more power of 1/lambda than the scalar kernel; se_grad = k_se_ap, se_rvec = k_se; grad n: 4
        ctx.holds("SPEC_USPS[l=1 specs, grad_rho]", spec_usps["se_grad"] == K.kernel_usp(K.VI_KERNELS["se_ap"]) - 1 and
                  spec_usps["se_rvec"] == K.kernel_usp(K.VI_KERNELS["se"]) - 1 and spec_usps["grad_rho"] == 4, "", [SMOD + ":SPEC_USPS"])
        hyps = [tm.mk_lt(tm.ZERO, RHO), LPOS]
        th = theta("th", level, hyps)
        fqi = [SMOD + ":NLDFSettingsVI." + f for f in ("get_feat_usps", "get_reasonable_normalizer", "ueg_vector")] + [NMOD + ":get_normalizer_from_exponent_params"]
        it.hyps = list(hyps)
        for s in l0s:
            obj = it.call(m.ns["NLDFSettingsVI"], [level, th, rho_mult, [s], [], []], {})
            check_settings_object(ctx, obj, hyps, "VI[%s]" % s, fqi, expected=documented_usps(rho_mult, l0=[s]))
        for j in range(-1, len(l1s)):
            for k in range(-1, len(l1s)):
                obj = it.call(m.ns["NLDFSettingsVI"], [level, th, rho_mult, [], l1s, [(j, k)]], {})
                check_settings_object(ctx, obj, hyps, "VI[dot %d,%d]" % (j, k), fqi, expected=documented_usps(rho_mult, l1=l1s, dots=[(j, k)]))
        fqj = [SMOD + ":NLDFSettingsVJ." + f for f in ("get_feat_usps", "get_reasonable_normalizer", "ueg_vector")]
        for s in js:
            h2 = list(hyps)
            p = theta("f0", level, h2)
            if s == "se_erf_rinv":
                e = tm.var("f0_erf_mul")
                h2.append(tm.mk_lt(tm.ZERO, e))
                p = p + [e]
            it.hyps = list(h2)
            obj = it.call(m.ns["NLDFSettingsVJ"], [level, th, rho_mult, [s], [p]], {})
            check_settings_object(ctx, obj, h2, "VJ[%s]" % s, fqj, expected=documented_usps(rho_mult, jspecs=[s]))
        h2 = list(hyps)
        p = theta("f0", level, h2)
        it.hyps = list(h2)
        obj = it.call(m.ns["NLDFSettingsVK"], [level, th, rho_mult, [p], "exponential"], {})
        check_settings_object(ctx, obj, h2, "VK", [SMOD + ":NLDFSettingsVK." + f for f in ("get_feat_usps", "get_reasonable_normalizer", "ueg_vector")],
                              expected=documented_usps(rho_mult, jspecs=["se"]))
        fqij = [SMOD + ":NLDFSettingsVIJ." + f for f in ("get_feat_usps", "get_reasonable_normalizer", "ueg_vector")]
        for s in l0s:
            obj = it.call(m.ns["NLDFSettingsVIJ"], [level, th, rho_mult, [s], [], [], ["se"], [p]], {})
            check_settings_object(ctx, obj, h2, "VIJ[%s]" % s, fqij, expected=documented_usps(rho_mult, jspecs=["se"], l0=[s]))
        for j in range(-1, len(l1s)):
            for k in range(-1, len(l1s)):
                obj = it.call(m.ns["NLDFSettingsVIJ"], [level, th, rho_mult, [], l1s, [(j, k)], ["se_ar2"], [p]], {})
                check_settings_object(ctx, obj, h2, "VIJ[dot %d,%d]" % (j, k), fqij, expected=documented_usps(rho_mult, jspecs=["se_ar2"], l1=l1s, dots=[(j, k)]))
    return run


def unit_other_settings(ctx):
    it = ctx.interp
    m = it.load_module(SMOD)
    hyps = [tm.mk_lt(tm.ZERO, RHO), LPOS]
    it.hyps = list(hyps)
    fq = lambda c: [SMOD + ":%s.%s" % (c, f) for f in ("get_feat_usps", "get_reasonable_normalizer", "ueg_vector")]
    check_settings_object(ctx, it.call(m.ns["SADMSettings"], ["smooth"], {}), hyps, "SADM[smooth]", fq("SADMSettings"))
    check_settings_object(ctx, it.call(m.ns["SADMSettings"], ["exact"], {}), hyps, "SADM[exact]", fq("SADMSettings"))
    check_settings_object(ctx, it.call(m.ns["SDMXSettings"], [[0, 1, 2]], {}), hyps, "SDMX", fq("SDMXSettings"))
    check_settings_object(ctx, it.call(m.ns["SDMXGSettings"], [[0, 1, 2], 2], {}), hyps, "SDMXG", fq("SDMXGSettings"))
    check_settings_object(ctx, it.call(m.ns["SDMX1Settings"], [[0, 1, 2], 2], {}), hyps, "SDMX1", fq("SDMX1Settings"))
    check_settings_object(ctx, it.call(m.ns["SDMXG1Settings"], [[0, 1, 2], 2, 1], {}), hyps, "SDMXG1", fq("SDMXG1Settings"))
    d = {Q(1): ([0, 1, 2], [3, 2, 1, 1]), Q(2): ([1, 2], [2, 1, 1, 0]), Q(3, 2): ([0], [1, 0, 0, 0])}
    check_settings_object(ctx, it.call(m.ns["SDMXFullSettings"], [d], {}), hyps, "SDMXFull", fq("SDMXFullSettings"))
    s0, s1 = tm.var("s0"), tm.var("s1")
    h2 = hyps + [tm.mk_lt(tm.const(Q(-3, 2)), s0), tm.mk_lt(tm.const(Q(-3, 2)), s1)]
    it.hyps = list(h2)
    fl = it.call(m.ns["FracLaplSettings"], [[s0, s1], 2, 2, [(-1, 0), (0, 1), (1, 1), (-1, -1)]], {"nd1": 1, "ld_dots": [(-1, 0), (0, 0)], "ndd": 1})
    check_settings_object(ctx, fl, h2, "FracLapl", fq("FracLaplSettings"))
    ctx.assume("FracLaplSettings.ueg_vector: closed form kf^(3+2s)/(pi^2 (3+2s)) is taken as given (C13); only its scaling power is checked here")


def unit_lda(ctx):
    it = ctx.interp
    b = it.load_module(BMOD)
    X = sym_array("X", (3, NS))
    hyps = [LPOS] + [tm.mk_lt(tm.ZERO, X[0, s]) for s in range(NS)]

    def run(Xin):
        e = np.empty((NS,), dtype=object)
        e[:] = 0
        d = np.empty((3, NS), dtype=object)
        d[...] = 0
        it.call(b.ns["_lda_x_helper"], [Xin, e, d], {})
        return e
    e0 = run(X.copy())
    Xs = X.copy()
    Xs[0] = scaled(X[0], 3)
    e1 = run(Xs)
    for s in range(NS):
        ctx.equal("LDA_X energy density has power 4 [s=%d]" % s, hyps, e1[s], LAM ** 4 * tm.lift(e0[s]), [BMOD + ":_lda_x_helper"])
    ctx.canary("lda canary", hyps, e1[0], LAM ** 3 * tm.lift(e0[0]))
    ctx.assume("lemma: an energy density of power 4 integrates (d^3r -> lam^-3 d^3r) to E[n_lam] = lam E[n]; a model reading only power-0 features multiplies it by a scale-invariant factor")


def unit_sdmx_integrals(ctx):
    """SDMXFullPlan's four families of Gaussian matrix elements (_get_int_0 / _d / _1 / _1d): SDMXFullSettings.get_feat_usps declares the SAME power 3 + n for a
    plain term and its r d/dr variant, so for every n the two variants must have the same homogeneity degree in the exponents (a, b) -> (t a, t b)
    (prod = a b -> t^2 prod, asum -> t asum): n/2 for the l=0 families (R^(2-n) weight between normalised Gaussians), (n-2)/2 for the l=1 families."""
    it = ctx.interp
    pm = it.load_module(PMOD)
    prod, asum, t = tm.var("prod"), tm.var("asum"), tm.var("tscale")
    H = [tm.mk_lt(tm.ZERO, prod), tm.mk_lt(tm.ZERO, asum), tm.mk_lt(tm.ZERO, t)]
    it.hyps = list(H)
    it.externals["scipy.special.gamma"] = lambda interp, x: tm.mk_fn("gamma", tm.lift(x))
    for name, deg in (("_get_int_0", lambda n: Q(n, 2)), ("_get_int_d", lambda n: Q(n, 2)), ("_get_int_1", lambda n: Q(n - 2, 2)), ("_get_int_1d", lambda n: Q(n - 2, 2))):
        f = pm.ns.get(name)
        fq = [PMOD + ":" + name]
        for n in (0, 1, 2):
            try:
                base = tm.lift(it.call(f, [n, prod, asum], {}))
                scaled = tm.lift(it.call(f, [n, t * t * prod, t * asum], {}))
            except (Unsupported, PyRaise) as e:
                ctx.undecided("%s(n=%d) evaluated" % (name, n), str(e)[:160], fq)
                continue
            ctx.equal("%s(n=%d): homogeneous of degree %s in the exponents (the declared power 3 + n is shared by the plain and the r d/dr variant)" % (name, n, deg(n)), H, scaled, t ** deg(n) * base, fq)
    ctx.canary("sdmx integrals canary", H, tm.lift(it.call(pm.ns["_get_int_1d"], [1, t * t * prod, t * asum], {})), t ** Q(3, 2) * tm.lift(it.call(pm.ns["_get_int_1d"], [1, prod, asum], {})))


def unit_sdmx_plan_metric(ctx):
    """SDMXPlan.__init__: the Coulomb-type metric matrix built for each feature term has the homogeneity degree that the term's declared scaling power requires —
    n/2 for the H_n terms and their r d/dr variants, (n - 2)/2 for the l=1 terms H_n^1 (one more power of 1/lambda than the plain term of the same n) — in the exponent
    ladder alphas -> t alphas.  The real constructor runs with a symbolic alpha0; LAPACK is stopped after the metric matrices are formed."""
    it = ctx.interp
    pm = it.load_module(PMOD)
    sm = it.load_module(SMOD)
    fq = [PMOD + ":SDMXPlan.__init__"]
    seen = []

    class _Stop(Exception):
        pass

    def chol(interp, A, lower=False, **kw):
        seen.append(np.array(A, dtype=object))
        return ("L", len(seen))

    def stop(interp, *a, **k):
        raise _Stop()
    it.externals["scipy.linalg.cholesky"] = chol
    it.externals["scipy.linalg.cho_factor"] = stop
    it.externals["scipy.linalg.cho_solve"] = stop
    it.externals["scipy.special.gamma"] = lambda interp, x: tm.mk_fn("gamma", tm.lift(x))
    it.np.linalg.table["solve"] = Builtin("np.linalg.solve", stop, needs_interp=True)
    a0, t = tm.var("alpha0"), tm.var("tscale")
    H = [tm.mk_lt(tm.ZERO, a0), tm.mk_lt(tm.ZERO, t)]
    it.hyps = list(H)
    for label, cname, args, nd, n1 in (("SDMXG1[pows=0,1,2; 2 d-terms; 1 l=1 term]", "SDMXG1Settings", [[0, 1, 2], 2, 1], 2, 1), ("SDMX1[pows=0,1; 2 l=1 terms]", "SDMX1Settings", [[0, 1], 2], 0, 2),
                                      ("SDMX[pows=1,2]", "SDMXSettings", [[1, 2]], 0, 0)):
        st = it.call(sm.ns[cname], args, {})
        pows = list(args[0])
        mats = {}
        for key, alpha0 in (("base", a0), ("scaled", t * a0)):
            del seen[:]
            try:
                it.call(pm.ns["SDMXPlan"], [st, 1, alpha0, Q(2), 2], {})
            except _Stop:
                pass
            except (Unsupported, PyRaise) as e:
                ctx.undecided("%s constructor reaches the factorisation" % label, str(e)[:200], fq)
                break
            mats[key] = [m.copy() for m in seen]
        if len(mats) != 2:
            continue
        want = [Q(n, 2) for n in pows] + [Q(n, 2) for n in pows[:nd]] + [Q(n - 2, 2) for n in pows[:n1]]
        kinds = ["H_%d" % n for n in pows] + ["r d/dr H_%d" % n for n in pows[:nd]] + ["H_%d^1 (l=1)" % n for n in pows[:n1]]
        ctx.holds("%s: one metric matrix per feature term" % label, len(mats["base"]) == len(want) == len(mats["scaled"]), "%d matrices, %d terms" % (len(mats["base"]), len(want)), fq)
        for k in range(min(len(want), len(mats["base"]))):
            for idx in ((0, 0), (0, 1), (1, 1)):
                ctx.equal("%s: metric of term %s is homogeneous of degree %s in the exponents [%d,%d]" % (label, kinds[k], want[k], idx[0], idx[1]), H,
                          mats["scaled"][k][idx], t ** want[k] * tm.lift(mats["base"][k][idx]), fq, replay=replay_sdmx_plan_metric())
    ctx.canary("sdmx plan metric canary", H, t * a0, a0)


def replay_sdmx_plan_metric():
    def replay(wit):
        from pyvc import native
        native.install_shim()
        import scipy.linalg
        import ciderpress.dft.plans as P
        from ciderpress.dft.settings import SDMXG1Settings
        got = {}
        real = P.cholesky

        def spy(A, lower=False, **kw):
            got.setdefault("m", []).append(np.array(A))
            return real(A, lower=lower)
        out = {}
        for key, a0 in (("base", 0.3), ("scaled", 0.3 * 1.7)):
            got.clear()
            P.cholesky = spy
            try:
                P.SDMXPlan(SDMXG1Settings([0, 1, 2], 2, 1), 1, a0, 2.0, 3)
            finally:
                P.cholesky = real
            out[key] = [m.copy() for m in got["m"]]
        want = [0, 0.5, 1, 0, 0.5, -1.0]
        dev = [float(np.max(np.abs(out["scaled"][k] / out["base"][k] - 1.7 ** want[k]))) for k in range(len(want))]
        return {"reproduced": bool(max(dev) > 1e-10), "deviation_from_declared_degree_per_term": dev}
    return replay


VI_INTEGRALS = {
    # C back end of the version-i kernels (convolutions.c: generate_atc_integrals_vi dispatches featid -> helper).  Documented kernel of each featid (comments of the
    # dispatch) relative to k^0 = exp(-alpha (r-r')^2): every factor alpha carries lambda^2, every (r-r')^2 carries lambda^-2, the Laplacian lambda^2.
    # value: power of t = lambda^2 relative to gauss_i0 under (alpha, expi, expj) -> t (alpha, expi, expj)
    "gauss_i0": 0, "gauss_dida": -1, "gauss_adida": 0, "gauss_ai0": 1, "gauss_a2dida": 1, "gauss_lapli0": 1,
}
VI_HELPERS_HOMOGENEOUS_ONLY = ["gauss_iplus", "gauss_alpha_iplus", "gauss_iminus", "gauss_ainv_iminus"]      # l+1 / l-1 helper terms: homogeneous (degree not asserted)


def unit_vi_integrals(ctx):
    """The radial Gaussian integrals behind the version-i features are homogeneous under uniform scaling (alpha, expi, expj) -> t (alpha, expi, expj), t = lambda^2,
    with the degree the documented kernel implies relative to the plain squared-exponential integral; a sum of terms of different degree (which would give the
    feature no scaling power at all) is excluded by Euler's relation  sum_x x dI/dx = d I.  Also the documented identity k^9 = 4 k^8 - 2 k^7."""
    from cvc import cparse as _cp
    from cvc.csym import CSym as _CSym, CUnsupported as _CU
    rel = "mod_cider/convolutions.c"
    tu = _cp.load(rel)
    a, ei, ej = tm.var("alpha"), tm.var("expi"), tm.var("expj")
    H = [tm.mk_lt(tm.ZERO, a), tm.mk_lt(tm.ZERO, ei), tm.mk_lt(tm.ZERO, ej)]
    vals, vals_abs, lemma_done = {}, {}, set()
    for l in (0, 1, 2, 3):
        for fn in list(VI_INTEGRALS) + VI_HELPERS_HOMOGENEOUS_ONLY:
            if fn == "gauss_iminus" and l == 0 or fn == "gauss_ainv_iminus" and l == 0:
                continue        # l - 1 terms exist for l >= 1 only
            fq = ["lib/%s:%s" % (rel, fn)]
            sy = _CSym([tu])
            try:
                r = tm.lift(sy.run(fn, dict(l=l, alpha=a, expi=ei, expj=ej)))
            except _CU as e:
                ctx.undecided("%s[l=%d] summarised" % (fn, l), str(e)[:160], fq)
                continue
            vals[(fn, l)] = r
            # bases of fractional powers (the combined exponent expi alpha / (expi + alpha) + expj) are abstracted into positive atoms B_k that scale like t
            # (lemma, proved as a rational identity), so that the homogeneity obligation is a monomial identity
            bases = []
            for u in tm.subterms(r).values():
                if u.op == "^" and u.args[1].op == "c" and u.args[1].args[0].denominator != 1 and u.args[0] not in bases and u.args[0].op not in ("v", "c"):
                    bases.append(u.args[0])
            t = tm.var("t")
            scale = {a: t * a, ei: t * ei, ej: t * ej}
            Ht = H + [tm.mk_lt(tm.ZERO, t)]
            ab = {}
            for k, P in enumerate(bases):
                Bk = tm.var("B%d" % k)
                ab[P] = Bk
                scale[Bk] = t * Bk
                Ht.append(tm.mk_lt(tm.ZERO, Bk))
                if (l, tm.show(P, 200)) not in lemma_done:
                    lemma_done.add((l, tm.show(P, 200)))
                    ctx.equal("lemma: the combined exponent %s scales like t" % tm.show(P, 60), H + [tm.mk_lt(tm.ZERO, t)], tm.substitute(P, {a: t * a, ei: t * ei, ej: t * ej}), t * P, fq)
            ra = tm.substitute(r, ab)
            vals_abs[(fn, l)] = (ra, dict(ab))
            if fn in VI_INTEGRALS:
                d = Q(-3, 2) - l + VI_INTEGRALS[fn]
                ctx.equal("%s[l=%d] is homogeneous of degree %s in (alpha, expi, expj)" % (fn, l, d), Ht, tm.substitute(ra, scale), tm.mk_pow(t, tm.const(d)) * ra, fq, replay=replay_vi_integral(fn, l, float(d)))
            else:
                # homogeneous of some degree: I(t x) I(s x) = I(x) I(s t x) ... checked in the form  I(t x) * I(x)|_{t=1} ratio independent of the point: compare two scalings
                t2 = tm.var("t2")
                scale2 = {k_: (v_ if k_ is not None else v_) for k_, v_ in scale.items()}
                sc2 = {k_: tm.substitute(v_, {t: t2}) for k_, v_ in scale.items()}
                both = {k_: tm.substitute(v_, {t: t * t2}) for k_, v_ in scale.items()}
                ctx.equal("%s[l=%d] is homogeneous in (alpha, expi, expj): I(t x) I(t2 x) = I(x) I(t t2 x)" % (fn, l), Ht + [tm.mk_lt(tm.ZERO, t2)],
                          tm.substitute(ra, scale) * tm.substitute(ra, sc2), ra * tm.substitute(ra, both), fq)
        if all((f, l) in vals for f in ("gauss_lapli0", "gauss_a2dida", "gauss_ai0")):
            ctx.equal("documented identity k^9 = 4 k^8 - 2 k^7 [l=%d]" % l, H, vals[("gauss_lapli0", l)], 4 * vals[("gauss_a2dida", l)] - 2 * vals[("gauss_ai0", l)],
                      ["lib/%s:gauss_lapli0" % rel], replay=replay_vi_integral("gauss_lapli0", l, float(Q(-1, 2) - l)))
    if ("gauss_i0", 1) in vals_abs:
        ra, ab = vals_abs[("gauss_i0", 1)]
        t = tm.var("t")
        sc = {a: t * a, ei: t * ei, ej: t * ej}
        sc.update({B: t * B for B in ab.values()})
        ctx.canary("vi-integrals canary (degree off by one)", H + [tm.mk_lt(tm.ZERO, t)] + [tm.mk_lt(tm.ZERO, B) for B in ab.values()], tm.substitute(ra, sc), tm.mk_pow(t, tm.const(Q(-3, 2))) * ra)


def replay_vi_integral(fn, l, degree):
    def replay(wit):
        import ctypes
        from pyvc import native
        lib = ctypes.CDLL(native.build_libs() + "/libmcider.so")
        f = getattr(lib, fn)
        f.restype = ctypes.c_double
        f.argtypes = [ctypes.c_int, ctypes.c_double, ctypes.c_double, ctypes.c_double]
        a, ei, ej, t = 0.7, 1.3, 0.9, 1.37
        v1, v2 = f(l, a, ei, ej), f(l, t * a, t * ei, t * ej)
        dev = abs(v2 - t ** degree * v1) / abs(t ** degree * v1)
        return {"reproduced": bool(dev > 1e-10), "I(t x)": v2, "t^d I(x)": t ** degree * v1, "degree": degree, "t": t}
    return replay


def units():
    u = []
    for gga in (False, True):
        for nspin in (1, 2):
            for gz in (True, False):
                u.append(("exponent/%s/nspin%d/%s" % ("gga" if gga else "mgga", nspin, "grad0" if gz else "grad+"), unit_exponent(gga, nspin, gz)))
    u.append(("s2_alpha", unit_s2_alpha))
    # the exponent -> spline index map must invert the node placement (otherwise the represented Gaussian has exponent a^k, k != 1, and no feature keeps its power)
    from contracts import c02
    u.append(("spline-setup", c02.unit_spline_setup))
    # the smooth exponent cutoff saturates at the largest exponent of the WHOLE grid, whatever part of it the process holds (otherwise the exponent stops scaling
    # like lambda^2 well inside the grid) — shared with C18
    from contracts import c18
    u.append(("plan-exponent-guards", c18.unit_reject_plans))
    for mode in ("nst", "npa", "ns", "np"):
        for nspin in (1, 2):
            u.append(("semilocal/%s/nspin%d" % (mode, nspin), unit_semilocal(mode, nspin)))
        u.append(("inh/" + mode, unit_inh(mode)))
    for n in NORMS:
        u.append(("norm/" + n, unit_norm(n)))
    for level in ("MGGA", "GGA"):
        for rm in ("one", "expnt"):
            u.append(("nldf/%s/%s" % (level, rm), unit_nldf_single(level, rm)))
    u.append(("other-settings", unit_other_settings))
    u.append(("lda", unit_lda))
    u.append(("sdmx-integrals", unit_sdmx_integrals))
    u.append(("vi-integrals", unit_vi_integrals))
    u.append(("sdmx-plan-metric", unit_sdmx_plan_metric))
    # C back end of the version-j kernels: the interpolation coefficients carry the declared power (shared with C02's summaries of cider_coefs.c)
    from contracts import c02
    for order in ("gq", "qg"):
        u.append(("coef-scaling/" + order, c02.unit_gto_homogeneity(order)))
    # what the feature generator actually feeds to the convolution (interpolation argument and function to convolve, in its call order on one rho tuple)
    # are the exponent / rho * exponent whose scaling powers unit exponent/* proves
    for kind in ("NLDFGaussianPlan", "NLDFSplinePlan"):
        for level in ("MGGA", "GGA"):
            for rm in ("one", "expnt"):
                u.append(("generator-inputs/%s/%s/%s" % (kind, level, rm), c02.unit_function_to_convolve(kind, level, rm)))
    return u


EXPLANATION = (
    "With lambda > 0 symbolic and the pointwise ingredients scaled as (l^3 rho, l^8 sigma, l^5 tau): exponents scale as l^2, s^2 and alpha "
    "are invariant, semilocal features scale with the powers SemilocalSettings declares (4 modes, both spin counts), the normaliser list's "
    "inhomogeneity variable is invariant, each normaliser multiplies the power by exactly get_usp(), and for every settings class, every spec "
    "string of the repository tables, every l=1 dot pattern and both rho_mult the declared feature power plus the recommended normaliser's "
    "power is 0 (or NotImplementedError is raised), and the reported UEG entry scales with the declared power (which ties SPEC_USPS to the "
    "closed forms proved in C13).  LDA exchange energy density has power 4.")
TRUSTED = [
    "A1 reals; A2: literals <= 1e-16 added as regularisers are treated as 0 in the scaling identities (places listed); A3/A4 numpy/Python model",
    "the C back end's nonlocal features scale like the documented integrals (checked only through their closed forms, C13)",
    "domain: rho above the cutoffs for both the original and the scaled density",
]

if __name__ == "__main__":
    sys.exit(run_property("C03", "proof", units(), EXPLANATION, TRUSTED, min_obligations=200))
