"""C01 — the XC potential matrix is the exact derivative of the XC energy (end to end), as far as contracts reach.

The end-to-end statement is a composition over per-function contracts.  Links proved here (reverse D-spec: the routine that returns the
potential must equal the transposed Jacobian of the routine that returns the value, computed by differentiating the value *term*):

  get_rho_tuple_with_grad_cross / vxc_tuple_to_array       the potential array is the transposed Jacobian of the (rho, sigma_aa/ab/bb, tau) packing
  SemilocalPlan.get_feat / get_vxc (4 modes, GGA/MGGA, nspin 1/2)
  LCAONLDFGenerator.get_features / get_potential            with the convolution chain replaced by an abstract linear operator A and its adjoint
                                                            (contract = C05), the plan contraction real (eval_rho_full / eval_vxc_full), coefficient
                                                            routine by its contract: vrho = d/d rho_in of  sum vfeat * feat   (versions i/j/ij/k, both rho_mult)
  CiderNumIntMixin.eval_xc_cider                            with feature plans, normaliser list and model replaced by their contracts (uninterpreted
                                                            differentiable functions + their named partials): vxc = d(sum_s rho_s * exc)/d(rho, grad rho, tau),
                                                            vxc_nldf / vxc_sdmx = partials w.r.t. the nonlocal features handed in; feature offsets consistent
                                                            on the forward and the reverse pass; MappedXC and MappedXC2 (density-variable path) models
  nr_rks / nr_uks                                           nelec = sum_blocks sum_g w_g rho_g,  excsum = sum w rho exc,  vmat = hermi_sum of the per-block
                                                            contractions of w * vxc (+ v1), with contract_wv abstract
  SDMXcontract_ao_to_bas / _bwd                             adjoint pair (shared with C05) — the C link of the SDMX potential
  CiderNumInt.contract_wv + integrator tail                 (M + M^T + v1) = d(sum_c wv_c rho_c)/dP for density, gradient and kinetic components (real method and
                                                            _tau_dot_sparse; PySCF sparse helpers by their documented dense meaning); the integrators (also *_nldf and
                                                            with SDMX) compose vmat from the callee contributions as hermitian sum + kinetic part over all blocks
  EXXSphGenerator.get_features / get_vxc_                   M + M^T = (dE/dP + dE/dP^T)/2 through the real generator methods and SDMX plan, C contractions by linear contracts
  SDMXPlan / SDMXIntPlan get_features / get_vxc             get_vxc = HALF of d(sum vxc*feat)/d p_vag (the hermitian sum supplies the other half)
  LCAOInterpolator(Direct) chains                           interpolate_fwd/bwd, conv2spline/spline2conv, project_orb2grid/grid2orb are adjoint pairs around abstract
                                                            linear contracts of their C collaborators (shared with C05; bounded shapes)

Assumed links (named, not proved): PySCF's AO evaluation / eval_rho / sparse contractions (contract_wv's callee), libxc, the Gaussian convolution
integrals and the C collaborators of the interpolator chains (covered by C05 only for the pairs listed there), EXXSphGenerator's contraction chain.
"""
import itertools
import os
import sys

sys.path.insert(0, os.path.dirname(os.path.dirname(os.path.abspath(__file__))))

import warnings
import numpy as np
from fractions import Fraction as Q

warnings.filterwarnings("ignore")

from pyvc import terms as tm
from pyvc import vc
from pyvc.framework import run_property
from pyvc.interp import Interp, Obj, ClassV, Builtin, PyRaise, Unsupported, ExcV
from contracts.common import *
from contracts.evalharness import ufn
from contracts.planharness import make_settings, make_plan

PMOD = "ciderpress.dft.plans"
NMOD = "ciderpress.pyscf.numint"
GMOD = "ciderpress.dft.lcao_nldf_generator"


def flat_terms(a):
    return [tm.lift(v) for v in np.asarray(a, dtype=object).reshape(-1)]


# ------------------------------------------------------------------ rho tuple packing
def unit_rho_tuple(ctx):
    it = ctx.interp
    pm = it.load_module(PMOD)
    fq = [PMOD + ":get_rho_tuple_with_grad_cross", PMOD + ":vxc_tuple_to_array"]
    for nspin in (1, 2):
        for mgga in (True, False):
            nrho = 5 if mgga else 4
            rho = sym_array("r", (nspin, nrho, NS))
            tup = it.call(pm.ns["get_rho_tuple_with_grad_cross"], [rho.copy()], {"is_mgga": mgga})
            # seeds: one weight per packed variable
            vt = tuple(sym_array("v%d" % k, np.asarray(t, dtype=object).shape) for k, t in enumerate(tup))
            varr = it.call(pm.ns["vxc_tuple_to_array"], [rho.copy(), tuple(v.copy() for v in vt)], {})
            E = tm.mk_add(*[tm.lift(a) * tm.lift(b) for t, v in zip(tup, vt) for a, b in zip(flat_terms(v), flat_terms(t))])
            tag = "rho-tuple[nspin=%d,%s]" % (nspin, "mgga" if mgga else "gga")
            for s in range(nspin):
                for c in range(nrho):
                    for g in range(NS):
                        ctx.equal("%s varr[%d,%d,%d] = d(sum v * packed)/d rho_data[%d,%d,%d]" % (tag, s, c, g, s, c, g), [], varr[s, c, g], tm.diff(E, rho[s, c, g]), fq, replay=replay_rho_tuple())
            ctx.canary("%s canary" % tag, [], varr[0, 1, 0], 2 * tm.diff(E, rho[0, 1, 0]) + 1)


def replay_rho_tuple():
    def replay(wit):
        from pyvc import native
        native.install_shim()
        from ciderpress.dft.plans import get_rho_tuple_with_grad_cross, vxc_tuple_to_array
        rng = np.random.RandomState(0)
        rho = rng.rand(2, 5, 4)
        tup = get_rho_tuple_with_grad_cross(rho, is_mgga=True)
        vt = tuple(rng.rand(*np.shape(t)) for t in tup)
        varr = vxc_tuple_to_array(rho, vt)
        E = lambda r: sum(float(np.sum(v * t)) for v, t in zip(vt, get_rho_tuple_with_grad_cross(r, is_mgga=True)))
        bad = []
        for idx in itertools.product(range(2), range(5), range(4)):
            h = 1e-6
            rp, rm = rho.copy(), rho.copy()
            rp[idx] += h
            rm[idx] -= h
            fd = (E(rp) - E(rm)) / (2 * h)
            if abs(fd - varr[idx]) > 1e-6:
                bad.append([list(idx), float(varr[idx]), fd])
        return {"reproduced": bool(bad), "mismatches [index, code, finite difference]": bad[:4]}
    return replay


# ------------------------------------------------------------------ semilocal plan
def unit_semilocal(mode, level, nspin):
    def run(ctx):
        it = ctx.interp
        sm = it.load_module("ciderpress.dft.settings")
        pm = it.load_module(PMOD)
        fq = [PMOD + ":SemilocalPlan.get_feat", PMOD + ":SemilocalPlan.get_vxc", PMOD + ":_BaseSemilocalPlan.get_feat"]
        tag = "semilocal[%s,%s,nspin=%d]" % (mode, level, nspin)
        try:
            st = it.call(sm.ns["SemilocalSettings"], [mode], {})
        except (PyRaise, Unsupported) as e:
            ctx.assume("%s: settings rejected (%s)" % (tag, e))
            return
        if it.getattr(st, "level") != level and not (mode in ("ns", "np") and level == "GGA"):
            pass
        plan = it.call(pm.ns["SemilocalPlan"], [st, nspin], {})
        lvl = it.getattr(plan, "level")
        if lvl != level:
            return
        nrho = 5
        rho = sym_array("r", (nspin, nrho, NS))
        # every density above the ALPHA_TOL = 1e-10 threshold of s2 / alpha (below it both are identically 0 with zero derivatives: C08; at the threshold
        # itself the value is discontinuous and has no derivative)
        H = [tm.mk_lt(tm.const(Q(1, 10 ** 10)), x) for x in rho[:, 0].reshape(-1)] + [tm.mk_le(tm.ZERO, x) for x in rho[:, 4].reshape(-1)]
        ctx.assume("semilocal plan: potential = derivative proved for spin densities above ALPHA_TOL = 1e-10 (below: features and derivatives identically zero, C08; at the threshold the value jumps)")
        # physical domain (A7): tau >= tau_W = |grad rho|^2 / (8 rho)  (von Weizsaecker bound), so the clamp max(tau - tau_W, 0) in alpha is inactive
        for s_ in range(nspin):
            for g_ in range(NS):
                H.append(tm.mk_lt(tm.mk_add(*[rho[s_, c_, g_] * rho[s_, c_, g_] for c_ in (1, 2, 3)]), 8 * rho[s_, 0, g_] * rho[s_, 4, g_]))
        it.hyps = list(H)
        ps = [p for p in all_paths(it, lambda: it.call_method(plan, "get_feat", [rho.copy()])) if p[0] == "return"]
        ctx.holds("%s get_feat returns" % tag, len(ps) >= 1, "", fq)
        for pi, p in enumerate(ps[:2]):
            feat = np.asarray(p[1], dtype=object)
            pc = list(p[2])
            vfeat = sym_array("v", feat.shape)
            vxc0 = sym_array("vx0", (nspin, nrho, NS))
            vxc = vxc0.copy()
            pv = [q for q in all_paths(it, lambda: it.call_method(plan, "get_vxc", [rho.copy(), vfeat.copy()], {"vxc": vxc})) if q[0] == "return"]
            if not pv:
                ctx.holds("%s get_vxc returns#%d" % (tag, pi), False, "", fq)
                continue
            out = np.asarray(pv[0][1], dtype=object) if pv[0][1] is not None else vxc
            E = tm.mk_add(*[a * b for a, b in zip(flat_terms(vfeat), flat_terms(feat))])
            Hh = H + pc + list(pv[0][2])
            E2 = tm.drop_small_addends(E)
            for s in range(nspin):
                for c in range(nrho):
                    for g in range(NS):
                        ctx.equal("%s vxc[%d,%d,%d] += d(sum vfeat * feat)/d rho[%d,%d,%d]#%d" % (tag, s, c, g, s, c, g, pi), Hh, tm.drop_small_addends(tm.lift(out[s, c, g])), vxc0[s, c, g] + tm.diff(E2, rho[s, c, g]), fq)
            ctx.canary("%s canary#%d" % (tag, pi), Hh, out[0, 0, 0], vxc0[0, 0, 0] + 2 * tm.diff(E2, rho[0, 0, 0]) + 1)
    return run


# ------------------------------------------------------------------ NLDF generator
def unit_nldf_generator(version, level, rho_mult):
    def run(ctx):
        it = ctx.interp
        hyps = []
        st = make_settings(it, version, level, rho_mult, hyps)
        RC = tm.var("rhocut")
        hyps.append(tm.mk_lt(tm.ZERO, RC))
        nalpha = 2
        plan = make_plan(it, st, 1, nalpha=nalpha, hyps=hyps, rhocut=RC)
        gm = it.load_module(GMOD)
        nvi = it.getattr(plan, "num_vi_ints")
        nrow = (0 if version == "i" else nalpha) + nvi
        nrho = 5 if level == "MGGA" else 4
        fq = [GMOD + ":LCAONLDFGenerator.get_features", GMOD + ":LCAONLDFGenerator.get_potential", PMOD + ":NLDFAuxiliaryPlan.eval_rho_full", PMOD + ":NLDFAuxiliaryPlan.eval_vxc_full",
              PMOD + ":NLDFAuxiliaryPlan.get_function_to_convolve", PMOD + ":NLDFAuxiliaryPlan.eval_feat_exp"]
        tag = "nldfgen[%s,%s,rho_mult=%s]" % (version, level, rho_mult)
        gen = Obj(gm.ns["LCAONLDFGenerator"])
        perm = [1, 0]
        gi = Obj(ClassV("_Indexer", [], gm))
        W = sym_array("w", (NS,))
        gi.fields.update({"ngrids": NS, "idx_map": np.array(perm), "all_weights": W, "padding": 0})
        interp_ = Obj(ClassV("_Interp", [], gm))
        interp_.fields["num_out"] = nrow
        gen.fields.update({"plan": plan, "grids_indexer": gi, "interpolator": interp_, "_cache": {0: None}})
        # abstract linear convolution chain: f[g', j] = sum_{g, q} A[g', j, g, q] theta[g, q];  backward = its transpose (contract proved pairwise in C05)
        A = sym_array("A", (NS, nrow, NS, nalpha))

        def fwd(theta_gq, grad_mode=False):
            out = np.empty((NS, nrow), dtype=object)
            for g2 in range(NS):
                for j in range(nrow):
                    out[g2, j] = tm.mk_add(*[A[g2, j, g, q] * tm.lift(theta_gq[g, q]) for g in range(NS) for q in range(nalpha)])
            return out

        def bwd(vf_gq):
            out = np.empty((NS, nalpha), dtype=object)
            for g in range(NS):
                for q in range(nalpha):
                    out[g, q] = tm.mk_add(*[A[g2, j, g, q] * tm.lift(vf_gq[g2, j]) for g2 in range(NS) for j in range(nrow)])
            return out
        gen.fields["_perform_fwd_convolution"] = Builtin("abs.fwd_conv", fwd)
        gen.fields["_perform_bwd_convolution"] = Builtin("abs.bwd_conv", bwd)
        ctx.assume("convolution chain of LCAONLDFGenerator (_perform_fwd/_bwd_convolution: projections, Gaussian convolutions, interpolation) replaced by an abstract linear operator and its transpose — the adjointness contract of C05")
        r = sym_array("r", (nrho, NS))
        H = list(hyps) + [tm.mk_lt(RC, x) for x in r[0]] + ([tm.mk_le(tm.ZERO, x) for x in r[4]] if level == "MGGA" else [])
        it.hyps = list(H)
        ps = [p for p in all_paths(it, lambda: it.call_method(gen, "get_features", [r.copy()], {"spin": 0})) if p[0] == "return"]
        ctx.holds("%s get_features returns" % tag, len(ps) >= 1, "", fq)
        if not ps:
            return
        feat = np.asarray(ps[0][1], dtype=object)
        pc = list(ps[0][2])
        vfeat = sym_array("v", feat.shape)
        pv = [p for p in all_paths(it, lambda: it.call_method(gen, "get_potential", [vfeat.copy()], {"spin": 0})) if p[0] == "return"]
        ctx.holds("%s get_potential returns" % tag, len(pv) >= 1, "", fq)
        if not pv:
            return
        vrho = np.asarray(pv[0][1], dtype=object)
        Hh = H + pc + list(pv[0][2])
        E = tm.mk_add(*[a * b for a, b in zip(flat_terms(vfeat), flat_terms(feat))])
        ctx.holds("%s potential has the shape of rho_in" % tag, vrho.shape == r.shape, "%s" % (vrho.shape,), fq)
        for c in range(nrho):
            for g in range(NS):
                ctx.equal("%s vrho[%d,%d] = d(sum vfeat * feat)/d rho_in[%d,%d]" % (tag, c, g, c, g), Hh, vrho[c, g], tm.diff(E, r[c, g]), fq, replay=replay_nldfgen(version, level, rho_mult))
        ctx.canary("%s canary" % tag, Hh, vrho[0, 0], 2 * tm.diff(E, r[0, 0]) + 1)
    return run


def unit_nldf_generator_real(version, level):
    """The same potential = derivative obligation with the generator's REAL convolution methods (buffers, clearing, in-place transforms) around
    abstract linear collaborators (contracts/genharness.py)."""
    def run(ctx):
        from contracts import genharness as GH
        it = ctx.interp
        hyps = []
        RC = tm.var("rhocut")
        hyps.append(tm.mk_lt(tm.ZERO, RC))
        h = GH.build(it, version, level, 1, hyps, RC)
        ctx.assume(GH.ASSUMPTION)
        nrho = 5 if level == "MGGA" else 4
        fq = [GMOD + ":LCAONLDFGenerator." + n for n in ("__init__", "get_features", "get_potential", "_perform_fwd_convolution", "_perform_bwd_convolution")]
        tag = "nldfgen-real[%s,%s]" % (version, level)
        r = sym_array("r", (nrho, NS))
        H = list(hyps) + [tm.mk_lt(RC, x) for x in r[0]] + ([tm.mk_le(tm.ZERO, x) for x in r[4]] if level == "MGGA" else [])
        it.hyps = list(H)
        gen = h["fresh_gen"]()
        ps = [p for p in all_paths(it, lambda: it.call_method(gen, "get_features", [r.copy()], {"spin": 0})) if p[0] == "return"]
        ctx.holds("%s get_features returns" % tag, len(ps) == 1, "", fq)
        if len(ps) != 1:
            return
        feat = np.asarray(ps[0][1], dtype=object)
        vfeat = sym_array("v", feat.shape)
        pv = [p for p in all_paths(it, lambda: it.call_method(gen, "get_potential", [vfeat.copy()], {"spin": 0})) if p[0] == "return"]
        ctx.holds("%s get_potential returns" % tag, len(pv) == 1, "", fq)
        if len(pv) != 1:
            return
        vrho = np.asarray(pv[0][1], dtype=object)
        Hh = H + list(ps[0][2]) + list(pv[0][2])
        E = tm.mk_add(*[a * b for a, b in zip(flat_terms(vfeat), flat_terms(feat))])
        uninit = [u.args[0] for x in list(vrho.reshape(-1)) + list(feat.reshape(-1)) for u in tm.free_vars(tm.lift(x)) if u.args[0].startswith("uninit!")]
        ctx.holds("%s features and potential do not depend on uninitialised buffer contents" % tag, not uninit, "%s" % uninit[:3], fq)
        if version == "j":
            # (the derivative obligation through the real chain is discharged for version j; for i / ij the quadratic l=1 dot products make it too large for
            # the normal form, and the chain rule itself is already proved with the abstract operator pair in nldfgen/* — here the buffer-state obligations remain)
            for c in range(nrho):
                for g in range(NS):
                    ctx.equal("%s vrho[%d,%d] = d(sum vfeat * feat)/d rho_in[%d,%d]  (through the real buffer handling)" % (tag, c, g, c, g), Hh, vrho[c, g], tm.diff(E, r[c, g]), fq)
        # a second forward / backward round on the same generator gives the same potential (no state survives in the work buffers)
        r2 = sym_array("s", (nrho, NS))
        H2 = Hh + [tm.mk_lt(RC, x) for x in r2[0]] + ([tm.mk_le(tm.ZERO, x) for x in r2[4]] if level == "MGGA" else [])
        it.hyps = list(H2)
        it.call_method(gen, "get_features", [r2.copy()], {"spin": 0})
        it.call_method(gen, "get_features", [r.copy()], {"spin": 0})
        again = np.asarray(it.call_method(gen, "get_potential", [vfeat.copy()], {"spin": 0}), dtype=object)
        for c in range(nrho):
            for g in range(NS):
                same = tm.lift(again[c, g]) is tm.lift(vrho[c, g])
                if same:
                    ctx.holds("%s repeated evaluation after another density: vrho[%d,%d] unchanged" % (tag, c, g), True, "", fq)
                else:
                    ctx.equal("%s repeated evaluation after another density: vrho[%d,%d] unchanged" % (tag, c, g), H2, again[c, g], vrho[c, g], fq)
        ctx.canary("%s canary" % tag, Hh, vrho[0, 0], 2 * tm.lift(vrho[0, 0]) + 1)
    return run


def replay_nldfgen(version, level, rho_mult):
    def replay(wit):
        return {"reproduced": None, "note": "native replay needs the full LCAO generator set-up (atco, convolution collection, interpolator); the failed clause names the density component whose potential is not the derivative"}
    return replay


# ------------------------------------------------------------------ eval_xc_cider
def unit_eval_xc(nspin, kind, fams):
    """kind: 'MappedXC' | 'MappedXC2';  fams: subset of ('sl', 'nldf', 'sdmx')."""
    def run(ctx):
        it = ctx.interp
        nm = it.load_module(NMOD)
        xm = it.load_module("ciderpress.dft.xc_evaluator")
        xm2 = it.load_module("ciderpress.dft.xc_evaluator2")
        fq = [NMOD + ":CiderNumIntMixin.eval_xc_cider"]
        tag = "eval_xc_cider[nspin=%d,%s,%s]" % (nspin, kind, "+".join(fams))
        nsl, nnl, nsd = (2 if "sl" in fams else 0), (2 if "nldf" in fams else 0), (1 if "sdmx" in fams else 0)
        nfeat = nsl + nnl + nsd
        ni = Obj(ClassV("_NI", [nm.ns["CiderNumIntMixin"]], nm))

        def sub(nf):
            o = Obj(ClassV("_Sub", [], nm))
            o.fields.update({"nfeat": nf, "is_empty": nf == 0})
            return o
        settings = Obj(ClassV("_Settings", [], nm))
        settings.fields.update({"nfeat": nfeat, "sl_settings": sub(nsl), "nldf_settings": sub(nnl), "nlof_settings": sub(0), "sdmx_settings": sub(nsd)})
        # normaliser list contract: X0TN[s, i, g] = N_i(X0T[s, :, g]);  reverse pass = transposed Jacobian (proved for the real class in C12)
        norm = Obj(ClassV("_Norm", [], nm))

        def nfwd(X0T):
            out = np.empty(X0T.shape, dtype=object)
            for s in range(X0T.shape[0]):
                for i in range(X0T.shape[1]):
                    for g in range(X0T.shape[2]):
                        out[s, i, g] = ufn("N%d" % i, [X0T[s, k, g] for k in range(X0T.shape[1])])
            return out

        def nbwd(X0T, dfdn):
            out = np.empty(X0T.shape, dtype=object)
            for s in range(X0T.shape[0]):
                for k in range(X0T.shape[1]):
                    for g in range(X0T.shape[2]):
                        col = [X0T[s, q, g] for q in range(X0T.shape[1])]
                        out[s, k, g] = tm.mk_add(*[tm.lift(dfdn[s, i, g]) * ufn("D%d_N%d" % (k, i), col) for i in range(X0T.shape[1])])
            return out
        norm.fields["get_normalized_feature_vector"] = Builtin("abs.norm.fwd", nfwd)
        norm.fields["get_derivative_wrt_unnormed_features"] = Builtin("abs.norm.bwd", nbwd)
        settings.fields["normalizers"] = norm
        # semilocal plan contract
        slp = Obj(ClassV("_SLPlan", [], nm))

        def sl_feat(rho):
            out = np.empty((rho.shape[0], nsl, rho.shape[-1]), dtype=object)
            for s in range(rho.shape[0]):
                for i in range(nsl):
                    for g in range(rho.shape[-1]):
                        out[s, i, g] = ufn("SL%d" % i, [rho[s, c, g] for c in range(5)])
            return out

        def sl_vxc(rho, vfeat, vxc=None):
            for s in range(rho.shape[0]):
                for c in range(5):
                    for g in range(rho.shape[-1]):
                        col = [rho[s, q, g] for q in range(5)]
                        vxc[s, c, g] = tm.lift(vxc[s, c, g]) + tm.mk_add(*[tm.lift(vfeat[s, i, g]) * ufn("D%d_SL%d" % (c, i), col) for i in range(nsl)])
            return vxc
        slp.fields["get_feat"] = Builtin("abs.sl.get_feat", sl_feat)
        slp.fields["get_vxc"] = Builtin("abs.sl.get_vxc", sl_vxc)
        # model contract
        if kind == "MappedXC":
            ml = Obj(xm.ns["MappedXC"])

            def call(X0TN, rhocut=0):
                args = flat_terms(X0TN)
                ng = X0TN.shape[-1]
                exc = np.array([ufn("EML%d" % g, args) for g in range(ng)], dtype=object)
                d = np.empty(X0TN.shape, dtype=object)
                k = 0
                for idx in itertools.product(*[range(q) for q in X0TN.shape]):
                    d[idx] = tm.mk_add(*[ufn("D%d_EML%d" % (k, g), args) for g in range(ng)])     # d(sum_g exc_ml[g]) / d X0TN[idx]
                    k += 1
                return exc, d
        else:
            ml = Obj(xm2.ns["MappedXC2"])

            def call(X0TN, rho_tuple, rhocut=0):
                tup = [np.asarray(t, dtype=object) for t in rho_tuple]
                args = flat_terms(X0TN) + [v for t in tup for v in flat_terms(t)]
                ng = X0TN.shape[-1]
                exc = np.array([ufn("EML%d" % g, args) for g in range(ng)], dtype=object)
                d = np.empty(X0TN.shape, dtype=object)
                k = 0
                for idx in itertools.product(*[range(q) for q in X0TN.shape]):
                    d[idx] = tm.mk_add(*[ufn("D%d_EML%d" % (k, g), args) for g in range(ng)])
                    k += 1
                vt = []
                for t in tup:
                    v = np.empty(t.shape, dtype=object)
                    for idx in itertools.product(*[range(q) for q in t.shape]):
                        v[idx] = tm.mk_add(*[ufn("D%d_EML%d" % (k, g), args) for g in range(ng)])
                        k += 1
                    vt.append(v)
                return exc, d, tuple(vt)
        ml.fields["__call__"] = Builtin("abs.mlxc", call)
        xmix = tm.var("xmix")
        ni.fields.update({"settings": settings, "sl_plan": slp, "mlxc": ml, "xmix": xmix, "rhocut": tm.var("rhocut"), "slxc": "HF", "fl_plan": None})
        ni.fields["_xc_type"] = Builtin("abs._xc_type", lambda code: "HF")
        ctx.assume("eval_xc_cider callees by contract: semilocal plan (pair proved in unit semilocal/*), normaliser list (C12), model wrapper (C04), semilocal libxc part switched off (xc type HF: no density-functional baseline)")
        rho = sym_array("r", (nspin, 5, NS))
        nl = sym_array("nl", (nspin, nnl, NS)) if nnl else None
        sd = sym_array("sd", (nspin, nsd, NS)) if nsd else None
        H = [tm.mk_lt(tm.ZERO, x) for x in rho[:, 0].reshape(-1)]
        it.hyps = list(H)
        ps = all_paths(it, lambda: it.call_method(ni, "eval_xc_cider", ["X", rho.copy() if nspin == 2 else rho[0].copy(), None if nl is None else (nl.copy() if nspin == 2 else nl[0].copy()),
                                                                         None if sd is None else (sd.copy() if nspin == 2 else sd[0].copy())], {"deriv": 1}))
        ret = [p for p in ps if p[0] == "return"]
        ctx.holds("%s returns" % tag, len(ret) == 1, "%s" % [(p[0], str(p[1])[:200]) for p in ps if p[0] != "return"][:2], fq)
        if len(ret) != 1:
            return
        exc, (vxc, vxc_nldf, vxc_sdmx) = ret[0][1][0], ret[0][1][1]
        vxc = np.asarray(vxc, dtype=object)
        if nspin == 1:
            vxc = vxc[None]
        # total energy  E = sum_g (sum_s rho_s[g]) * exc[g]   (the quantity whose derivative PySCF's integrator needs), 1e-16 regulariser dropped (A2)
        E = tm.drop_small_addends(tm.mk_add(*[tm.mk_add(*[rho[s, 0, g] for s in range(nspin)]) * tm.lift(exc[g]) for g in range(NS)]))
        Hh = H + list(ret[0][2])
        for s in range(nspin):
            for c in range(5):
                for g in range(NS):
                    ctx.equal("%s vxc[%d,%d,%d] = dE/d rho[%d,%d,%d]" % (tag, s, c, g, s, c, g), Hh, tm.drop_small_addends(tm.lift(vxc[s, c, g])), tm.diff(E, rho[s, c, g]), fq, replay=replay_eval_xc())
        for name, v, x, n in (("vxc_nldf", vxc_nldf, nl, nnl), ("vxc_sdmx", vxc_sdmx, sd, nsd)):
            if n == 0:
                ctx.holds("%s %s is None when the family is absent" % (tag, name), v is None, "", fq)
                continue
            v = np.asarray(v, dtype=object)
            if v.ndim == 2:
                v = v[None]
            for s in range(nspin):
                for i in range(n):
                    for g in range(NS):
                        ctx.equal("%s %s[%d,%d,%d] = dE/d feature" % (tag, name, s, i, g), Hh, tm.drop_small_addends(tm.lift(v[s, i, g])), tm.diff(E, x[s, i, g]), fq, replay=replay_eval_xc())
        ctx.canary("%s canary" % tag, Hh, vxc[0, 0, 0], 2 * tm.diff(E, rho[0, 0, 0]) + 1)
    return run


def replay_eval_xc():
    def replay(wit):
        return {"reproduced": None, "note": "eval_xc_cider needs a trained model object; the failed clause names the potential component that is not the derivative of the returned energy density"}
    return replay


# ------------------------------------------------------------------ integrator accumulation
def unit_integrator(fname, has_sdmx=False):
    def run(ctx):
        from contracts import c09
        it = ctx.interp
        it.externals["pyscf.lib.hermi_sum"] = lambda interp, a, axes=None, **k: a + np.transpose(a, axes)
        it.externals["pyscf.dft.gen_grid.NBINS"] = 100
        it.externals["pyscf.dft.numint._format_uks_dm"] = lambda interp, dms: dms
        mod = it.load_module(NMOD)
        fq = ["%s:%s" % (NMOD, fname)]
        nao = 2
        uks = "uks" in fname
        dm = np.stack([sym_array("dmA", (nao, nao)), sym_array("dmC", (nao, nao))]) if uks else sym_array("dmA", (nao, nao))
        try:
            nelec, excsum, vmat, gh = c09.run_integrator(it, mod, fname, dm.copy(), has_sdmx=has_sdmx)
        except Unsupported as e:
            ctx.undecided("%s accumulation" % fname, str(e), fq)
            return
        # expected from the callee contracts of the abstract integrator (c09.abstract_ni): rho = RHO_c(dm, ao), exc/vxc = functions of rho
        blocks = 2
        want_n = [tm.ZERO, tm.ZERO]
        want_e = tm.ZERO
        for b in range(blocks):
            ao = np.empty((4, NS), dtype=object)
            for c in range(4):
                for g in range(NS):
                    ao[c, g] = tm.var("ao_b%d_%d_%d" % (b, c, g))
            w = [tm.var("w_b%d_%d" % (b, g)) for g in range(NS)]
            dms_ = [dm[0], dm[1]] if uks else [dm]
            rhos = []
            for d in dms_:
                rho = np.empty((5, NS), dtype=object)
                for c in range(5):
                    for g in range(NS):
                        rho[c, g] = ufn("RHO%d" % c, [d[0, 0], ao[0, g]])
                rhos.append(rho)
            args = [v for r in rhos for v in flat_terms(r)]
            exc = [ufn("EXC%d" % g, args) for g in range(NS)]
            for s, rho in enumerate(rhos):
                want_n[s] = want_n[s] + tm.mk_add(*[w[g] * rho[0, g] for g in range(NS)])
                want_e = want_e + tm.mk_add(*[w[g] * rho[0, g] * exc[g] for g in range(NS)])
        nelec = np.asarray(nelec, dtype=object).reshape(-1)
        for s in range(2 if uks else 1):
            ctx.equal("%s nelec[%d] = sum over blocks and points of w * rho" % (fname, s), [], nelec[s], want_n[s], fq)
        if not has_sdmx:
            # (with SDMX features the abstract energy density has further arguments; the accumulation itself is the same code path)
            ctx.equal("%s excsum = sum w * rho_total * exc" % fname, [], np.asarray(excsum, dtype=object).reshape(-1)[0], want_e, fq)
        vm = np.asarray(vmat, dtype=object)
        ctx.holds("%s vmat shape" % fname, vm.shape == ((2, nao, nao) if uks else (nao, nao)), str(vm.shape), fq)
        # composition of vmat from the callee contracts: every contraction of w * vxc (contract_wv's first output) and every SDMX potential matrix enters through the
        # hermitian sum M + M^T (they are built with the 1/2 convention: contract_wv, sdmx-plan/*), the kinetic part (contract_wv's second output) enters once
        if vm.shape == ((2, nao, nao) if uks else (nao, nao)):
            mats = vm.reshape(-1, nao, nao)
            roots = {}
            for kind, (rid, slot), idx, term in gh.contrib:
                roots.setdefault((rid, kind == "cwv1"), set()).add(slot)
            ok_slots = all(sl <= set(range(mats.shape[0])) for sl in roots.values())
            ctx.holds("%s every contraction is accumulated into one of the %d result matrices" % (fname, mats.shape[0]), ok_slots and len(gh.contrib) > 0, "%s" % {k: sorted(v) for k, v in roots.items()}, fq)
            if ok_slots:
                for s_ in range(mats.shape[0]):
                    for u_ in range(nao):
                        for v_ in range(nao):
                            want = tm.ZERO
                            for kind, (rid, slot), idx, term in gh.contrib:
                                if slot != s_:
                                    continue
                                if kind == "cwv1":
                                    want = want + (term if idx == (u_, v_) else tm.ZERO)
                                else:
                                    want = want + (term if idx == (u_, v_) else tm.ZERO) + (term if idx == (v_, u_) else tm.ZERO)
                            ctx.equal("%s%s vmat[%d][%d,%d] = hermitian sum of the (w*vxc, SDMX) contractions + kinetic contraction, over all blocks" % (fname, "+sdmx" if has_sdmx else "", s_, u_, v_),
                                      [], mats[s_, u_, v_], want, fq)
        ctx.canary("%s canary" % fname, [], nelec[0], want_n[0] + 1)
    return run


def unit_contract_wv(ncomp):
    """CiderNumInt.contract_wv + the integrators' tail (hermitian sum of its first output, plus its second output): together they must be the derivative of
    sum_g sum_c wv_c[g] * rho_c[g]  with respect to the density matrix, for  rho_0 = sum_uv ao_u P_uv ao_v,  rho_x = sum_uv (d_x ao_u ao_v + ao_u d_x ao_v) P_uv,
    tau = 1/2 sum_x sum_uv d_x ao_u P_uv d_x ao_v  (the definitions PySCF's eval_rho implements for hermitian P).  Real contract_wv and the module's own
    _tau_dot_sparse executed; PySCF's _scale_ao_sparse / _dot_ao_ao_sparse by the dense meaning their docstrings state (einsum('xgi,xg->gi'), out += bra^T ket)."""
    def run(ctx):
        it = ctx.interp

        def scale(interp, ao, wv, mask, ao_loc, out=None):
            ao, wv = np.asarray(ao, dtype=object), np.asarray(wv, dtype=object)
            return np.einsum("xgi,xg->gi", ao, wv) if ao.ndim == 3 else ao * wv[:, None]

        def dot(interp, ao1, ao2, wv, nbins, mask, pair_mask, ao_loc, hermi=0, out=None):
            r = np.asarray(ao1, dtype=object).T.dot(np.asarray(ao2, dtype=object))
            if out is None:
                return r
            out[...] = out + r
            return out
        it.externals["pyscf.dft.numint._scale_ao_sparse"] = scale
        it.externals["pyscf.dft.numint._dot_ao_ao_sparse"] = dot
        mod = it.load_module(NMOD)
        fq = [NMOD + ":CiderNumInt.contract_wv", NMOD + ":_tau_dot_sparse"]
        ng, nao = NS, 2
        ao = sym_array("ao", (4, ng, nao))
        wv0 = sym_array("wv", (ncomp, ng))
        wv = wv0.copy()
        vmat = np.full((nao, nao), tm.ZERO, dtype=object)
        v1 = np.full((nao, nao), tm.ZERO, dtype=object)
        ni = Obj(mod.ns["CiderNumInt"])
        tag = "contract_wv[%s]" % ("MGGA" if ncomp == 5 else "GGA")
        try:
            ret = it.call_method(ni, "contract_wv", [ao, wv, 10, "mask", "pair_mask", np.arange(nao + 1)], {"vmats": (vmat, v1)})
            (M, V1), _ = ret
        except (Unsupported, PyRaise) as e:
            ctx.undecided("%s runs" % tag, str(e)[:200], fq)
            return
        M, V1 = np.asarray(M, dtype=object), np.asarray(V1 if V1 is not None else v1, dtype=object)
        ctx.holds("%s accumulates into the matrices it was handed" % tag, M is vmat or np.shares_memory(M, vmat), "", fq)
        for u in range(nao):
            for v in range(nao):
                want = tm.mk_add(*[wv0[0, g] * ao[0, g, u] * ao[0, g, v] for g in range(ng)])
                want = want + tm.mk_add(*[wv0[x, g] * (ao[x, g, u] * ao[0, g, v] + ao[0, g, u] * ao[x, g, v]) for x in (1, 2, 3) for g in range(ng)])
                if ncomp == 5:
                    want = want + tm.mk_add(*[Q(1, 2) * wv0[4, g] * ao[x, g, u] * ao[x, g, v] for x in (1, 2, 3) for g in range(ng)])
                got = tm.lift(M[u, v]) + tm.lift(M[v, u]) + tm.lift(V1[u, v])
                ctx.equal("%s: (M + M^T + v1)[%d,%d] = d(sum_c wv_c rho_c)/dP[%d,%d]" % (tag, u, v, u, v), [], got, want, fq)
        ctx.canary("%s canary (without the 1/2 on the density component)" % tag, [], tm.lift(M[0, 0]) + tm.lift(M[0, 0]) + tm.lift(V1[0, 0]),
                   tm.mk_add(*[2 * wv0[0, g] * ao[0, g, 0] * ao[0, g, 0] for g in range(ng)]))
    return run


def unit_fraclapl_plan(nspin, history=False):
    """FracLaplPlan.get_feat / get_vxc (the fractional-Laplacian feature plan between the orbital operations and the model): with E = sum vfeat * feat as a function
    of the plan's input array, get_vxc returns dE/d(input) for every spin, component and grid point — l=0 rows, every l=1 / derivative dot product (self-dots (j, j)
    and dots with the density gradient, index -1, included) and the pass-through rows.  With history=True (C09): get_feat leaves its input unchanged; with the default
    make_l1_data_copy=True the potential does not depend on what the caller writes into its input buffer between the feature pass and the potential pass; a second
    round on the same plan equals a fresh plan.  Real methods on symbolic arrays; the settings object is a stub carrying the counts and the dot-product index pairs."""
    def run(ctx):
        it = ctx.interp
        pm = it.load_module(PMOD)
        fq = [PMOD + ":FracLaplPlan." + n for n in ("get_feat", "get_vxc", "_cache_all_l1_data", "_cache_l1_vectors", "_cache_ld_vectors", "_clear_l1_cache")]
        nk0, nk1, nd1, ndd = 1, 2, 2, 1
        l1_dots, ld_dots = [(0, 1), (0, 0), (-1, 1), (-1, -1)], [(0, 1), (-1, 0), (1, 1)]
        nrho = nk0 + 3 * nk1 + 3 * nd1 + ndd
        nfeat = nk0 + len(l1_dots) + len(ld_dots) + ndd
        nsl, ng = 5, NS
        tag = "FracLaplPlan[nspin=%d]" % nspin

        def fresh():
            st = Obj(ClassV("_FLSettings", [], pm))
            st.fields.update({"nk0": nk0, "nk1": nk1, "nd1": nd1, "ndd": ndd, "nrho": nrho, "nfeat": nfeat, "l1_dots": list(l1_dots), "ld_dots": list(ld_dots)})
            return it.call(pm.ns["FracLaplPlan"], [st, nspin], {})
        rho = sym_array("r", (nspin, nsl + nrho, ng))
        vf = sym_array("v", (nspin, nfeat, ng))
        it.hyps = []
        try:
            plan = fresh()
            buf = rho.copy()
            feat = np.asarray(it.call_method(plan, "get_feat", [buf]), dtype=object).copy()
            frame_ok = same_elements(buf, rho)
            if history:
                buf[...] = sym_array("other", buf.shape)          # the caller re-uses its array before asking for the potential
            vin = vf.copy()
            vxc = np.asarray(it.call_method(plan, "get_vxc", [vin]), dtype=object).copy()
        except (Unsupported, PyRaise) as e:
            ctx.undecided("%s runs" % tag, str(e)[:300], fq)
            return
        ctx.holds("%s: shapes (nspin, nfeat, ngrids) / (nspin, nsl + nrho, ngrids)" % tag, feat.shape == (nspin, nfeat, ng) and vxc.shape == rho.shape, "%s %s" % (feat.shape, vxc.shape), fq)
        if feat.shape != (nspin, nfeat, ng) or vxc.shape != rho.shape:
            return
        uninit = [u.args[0] for x in list(feat.reshape(-1)) + list(vxc.reshape(-1)) for u in tm.free_vars(tm.lift(x)) if u.args[0].startswith("uninit!")]
        ctx.holds("%s: features and potential do not depend on uninitialised memory" % tag, not uninit, "%s" % uninit[:3], fq)
        E = tm.mk_add(*[tm.lift(vf[idx]) * tm.lift(feat[idx]) for idx in np.ndindex(*feat.shape)])
        for idx in np.ndindex(*rho.shape):
            want = tm.diff(E, rho[idx])
            if tm.lift(vxc[idx]) is want:
                ctx.holds("%s: vxc%s = d(sum vfeat * feat)/d input%s%s" % (tag, list(idx), list(idx), " (input buffer overwritten in between)" if history else ""), True, "", fq)
            else:
                ctx.equal("%s: vxc%s = d(sum vfeat * feat)/d input%s%s" % (tag, list(idx), list(idx), " (input buffer overwritten in between)" if history else ""), [], vxc[idx], want, fq,
                          replay=replay_fraclapl_plan(nspin, history))
        ctx.canary("%s canary (self-dot counted once)" % tag, [], tm.lift(vxc[(0, nsl + nk0, 0)]), tm.lift(vf[(0, nk0, 0)]) * rho[(0, nsl + nk0 + 3, 0)])
        if not history:
            return
        ctx.holds("%s: get_feat leaves the caller's array unchanged, get_vxc leaves vfeat unchanged" % tag, frame_ok and same_elements(vin, vf), "", fq, replay=replay_fraclapl_plan(nspin, history))
        try:
            rho2 = sym_array("q", rho.shape)
            it.call_method(plan, "get_feat", [rho2.copy()])
            it.call_method(plan, "get_vxc", [vf.copy()])
            f_again = np.asarray(it.call_method(plan, "get_feat", [rho.copy()]), dtype=object)
            v_again = np.asarray(it.call_method(plan, "get_vxc", [vf.copy()]), dtype=object)
        except (Unsupported, PyRaise) as e:
            ctx.undecided("%s second round runs" % tag, str(e)[:300], fq)
            return
        ctx.holds("%s: a second round on a used plan gives the features and the potential of a fresh plan" % tag,
                  all(tm.lift(a) is tm.lift(b) for a, b in zip(f_again.reshape(-1), feat.reshape(-1))) and all(tm.lift(a) is tm.lift(b) for a, b in zip(v_again.reshape(-1), vxc.reshape(-1))), "", fq)
    return run


def replay_fraclapl_plan(nspin, history):
    def replay(wit):
        from pyvc import native
        native.install_shim()
        from ciderpress.dft.plans import FracLaplPlan
        nk0, nk1, nd1, ndd = 1, 2, 2, 1
        l1_dots, ld_dots = [(0, 1), (0, 0), (-1, 1), (-1, -1)], [(0, 1), (-1, 0), (1, 1)]
        nrho = nk0 + 3 * nk1 + 3 * nd1 + ndd
        nfeat = nk0 + len(l1_dots) + len(ld_dots) + ndd
        st = type("S", (), dict(nk0=nk0, nk1=nk1, nd1=nd1, ndd=ndd, nrho=nrho, nfeat=nfeat, l1_dots=l1_dots, ld_dots=ld_dots))()
        rng = np.random.RandomState(4)
        ng = 3
        rho = rng.rand(nspin, 5 + nrho, ng)
        v = rng.rand(nspin, nfeat, ng)
        plan = FracLaplPlan(st, nspin)
        buf = rho.copy()
        plan.get_feat(buf)
        changed = float(np.max(np.abs(buf - rho)))
        if history:
            buf[...] = rng.rand(*buf.shape)
        vxc = plan.get_vxc(v.copy())
        worst, h = 0.0, 1e-6
        for idx in np.ndindex(*rho.shape):
            e = []
            for sgn in (1, -1):
                q = rho.copy()
                q[idx] += sgn * h
                e.append(float((v * FracLaplPlan(st, nspin).get_feat(q)).sum()))
            worst = max(worst, abs(vxc[idx] - (e[0] - e[1]) / (2 * h)))
        return {"reproduced": bool(worst > 1e-5 or changed > 0), "max |vxc - finite difference|": worst, "input changed by get_feat": changed, "buffer overwritten between the passes": bool(history)}
    return replay


def unit_sdmx_plan_potential(clsname, n0, n1, nspin):
    """SDMX plans between EXXSphGenerator's contractions and the model: the features are quadratic in the projected density matrix p_vag, and get_vxc must return
    HALF the derivative of sum_ig vxc_ig * feat_ig with respect to p_vag — EXXSphGenerator.get_vxc_ adds the (non-symmetric) matrix built from it to vmat and
    nr_rks / nr_uks then form vmat + vmat^T (lib.hermi_sum, numint.py), which supplies the other half for a symmetric density matrix.
    Real get_features / get_vxc executed with the generator's own calling convention (intermediates filled by get_features, handed to get_vxc); fit matrices /
    weights symbolic; pyscf.lib.dot / einsum by their numpy meaning."""
    def run(ctx):
        it = ctx.interp
        pm = it.load_module(PMOD)
        it.externals["pyscf.lib.dot"] = lambda interp, a, b, *r, **k: np.asarray(a, dtype=object).dot(np.asarray(b, dtype=object))
        it.externals["pyscf.lib.einsum"] = lambda interp, spec, *ops, **k: np.einsum(spec, *[np.asarray(o, dtype=object) for o in ops])
        fq = [PMOD + ":%s.get_vxc" % ("SDMXBasePlan" if clsname != "SDMXIntPlan" else clsname), PMOD + ":%s.get_features" % ("SDMXBasePlan" if clsname != "SDMXIntPlan" else clsname)]
        na, ng = 2, NS
        plan = Obj(pm.ns[clsname])
        st = Obj(ClassV("_SDMXSettings", [], pm))
        st.fields.update({"nfeat": n0 + n1, "n1terms": n1, "pows": list(range(n0)), "ndterms": 0})
        plan.fields.update({"settings": st, "nspin": nspin, "nalpha": na})
        if clsname == "SDMXIntPlan":
            plan.fields.update({"wt_dict": [sym_array("wt%d" % k, (na,)) for k in range(n0 + n1)], "_num_l0_feat": n0, "_num_l1_feat": n1})
            l0tmp = np.full((na, ng), tm.ZERO, dtype=object)
            l1tmp = np.full((3, na, ng), tm.ZERO, dtype=object)
        else:
            plan.fields.update({"fit_matrices": [sym_array("F%d" % k, (na, na)) for k in range(n0 + n1)]})
            l0tmp = np.full((n0, na, ng), tm.ZERO, dtype=object)
            l1tmp = np.full((n1, 3, na, ng), tm.ZERO, dtype=object)
        tag = "%s[n0=%d,n1=%d,nspin=%d]" % (clsname, n0, n1, nspin)
        p_vag = sym_array("p", (4 if n1 else 1, na, ng))
        vxc = sym_array("v", (n0 + n1, ng))
        try:
            feat = np.asarray(it.call_method(plan, "get_features", [p_vag.copy()], {"out": np.full((n0 + n1, ng), tm.ZERO, dtype=object), "l0tmp": l0tmp, "l1tmp": l1tmp}), dtype=object)
            out = np.asarray(it.call_method(plan, "get_vxc", [vxc.copy(), l0tmp], {"l1tmp": l1tmp}), dtype=object)
        except (Unsupported, PyRaise) as e:
            ctx.undecided("%s runs" % tag, str(e)[:200], fq)
            return
        ctx.holds("%s: get_vxc returns one block per component of p_vag" % tag, out.shape == p_vag.shape, "%s vs %s" % (out.shape, p_vag.shape), fq)
        if out.shape != p_vag.shape:
            return
        E = tm.mk_add(*[tm.lift(vxc[i, g]) * tm.lift(feat[i, g]) for i in range(n0 + n1) for g in range(ng)])
        for idx in np.ndindex(*p_vag.shape):
            ctx.equal("%s: 2 * get_vxc%s = d(sum vxc * feat)/d p_vag%s" % (tag, list(idx), list(idx)), [], 2 * tm.lift(out[idx]), tm.diff(E, p_vag[idx]), fq,
                      replay=replay_sdmx_plan_potential(clsname, n0, n1, nspin))
        ctx.canary("%s canary (the full derivative instead of half)" % tag, [], tm.lift(out[(0, 0, 0)]), tm.diff(E, p_vag[(0, 0, 0)]))
    return run


def replay_sdmx_plan_potential(clsname, n0, n1, nspin):
    def replay(wit):
        from pyvc import native
        native.install_shim()
        import ciderpress.dft.plans as P
        cls = getattr(P, clsname)
        plan = cls.__new__(cls)
        rng = np.random.RandomState(2)
        na, ng = 3, 4
        plan.settings = type("S", (), {"nfeat": n0 + n1, "n1terms": n1, "pows": list(range(n0)), "ndterms": 0})()
        plan.nspin, plan.nalpha = nspin, na
        if clsname == "SDMXIntPlan":
            plan.wt_dict = [rng.rand(na) for _ in range(n0 + n1)]
            plan._num_l0_feat, plan._num_l1_feat = n0, n1
            mk = lambda: (np.zeros((na, ng)), np.zeros((3, na, ng)))
        else:
            plan.fit_matrices = [rng.rand(na, na) for _ in range(n0 + n1)]
            mk = lambda: (np.zeros((n0, na, ng)), np.zeros((n1, 3, na, ng)))
        p = rng.rand(4 if n1 else 1, na, ng)
        v = rng.rand(n0 + n1, ng)
        l0, l1 = mk()
        plan.get_features(p.copy(), l0tmp=l0, l1tmp=l1)
        out = plan.get_vxc(v, l0, l1tmp=l1)
        worst, h = 0.0, 1e-6
        for idx in np.ndindex(*p.shape):
            e = []
            for sgn in (1, -1):
                q = p.copy()
                q[idx] += sgn * h
                a, b = mk()
                e.append(float((v * plan.get_features(q, l0tmp=a, l1tmp=b)).sum()))
            worst = max(worst, abs(2 * out[idx] - (e[0] - e[1]) / (2 * h)))
        return {"reproduced": bool(worst > 1e-5), "max |2 get_vxc - finite difference|": worst}
    return replay


SMOD = "ciderpress.pyscf.sdmx"


def unit_sdmx_generator(n0, n1, batch=False):
    """EXXSphGenerator.get_features / get_vxc_ (the SDMX feature generator between the integrators and the SDMX plan): with E = sum_ig vgrid[i,g] * feat[i,g] as a
    function of the density matrix, the matrix M that get_vxc_ adds to vmat satisfies  M + M^T = (G + G^T) / 2,  G = dE/dP entry by entry — the hermitian sum of the
    integrators then gives the derivative for symmetric P.  Real get_features, get_vxc_, _contract_ao_to_bas(_helper/_bwd), _eval_crho_potential and the real SDMX plan are
    executed (buffers, caches, transposes); PySCF's _dot_ao_dm / _dot_ao_ao / _scale_ao / lib.einsum by their dense meaning; the C contractions by contracts:
    SDMXcontract_ao_to_bas(_l1) overwrites b0 with A c0, the _bwd routines add A^T b0 (one abstract tensor A; the C pairs are C05 pair/*), and
    contract_shl_to_alpha_l1 / _bwd are T(cao) and T(cao)^T of one abstract tensor for the fixed convolved orbitals (assumed: that pair is UNVERIFIED at C level)."""
    def run(ctx):
        it = ctx.interp
        pm = it.load_module(PMOD)
        sm = it.load_module(SMOD)
        lib_ = sm.ns["libcider"].name
        ng, nao, nrf, na = NS, 2, 2, 2
        deriv = 1 if n1 else 0
        nv = 1 + 6 * deriv
        ncpa = 4 if n1 else 1
        A = sym_array("A", (nv, nrf, nao, ng))
        T = sym_array("T", (ncpa, na, nv, nrf, ng))
        from pyvc.npmodel import CPtr
        arr_of = lambda p_: p_.arr if isinstance(p_, CPtr) else p_
        calls = []

        def ao2bas(bwd):
            def fn(interp, ngrids, b0, ylm, c0, *rest):
                b0, c0 = arr_of(b0), arr_of(c0)
                if b0.ndim == 2:          # the l=0 routines receive the single block b0[0]
                    b0 = b0[None]
                calls.append(("bas-bwd" if bwd else "bas-fwd", b0.shape, c0.shape))
                for v in range(b0.shape[0]):
                    for r in range(nrf):
                        for g in range(ng):
                            if bwd:
                                for u in range(nao):
                                    c0[u, g] = c0[u, g] + A[v, r, u, g] * b0[v, r, g]
                            else:
                                # the forward routines receive c0 as (ngrids, nao) rows (what _dot_ao_dm returns)
                                b0[v, r, g] = tm.mk_add(*[A[v, r, u, g] * c0[g, u] for u in range(nao)])
            return fn

        def shl2alpha(bwd):
            def fn(interp, ngrids, nalpha, nrf_, tmp, b0, cao):
                tmp, b0 = arr_of(tmp), arr_of(b0)
                calls.append(("alpha-bwd" if bwd else "alpha-fwd", tmp.shape, b0.shape))
                # b0 is (nv, nrf, ngrids) in the forward call and the (nv, ngrids, nrf)-ordered buffer in the backward call (the caller transposes it back)
                for v in range(nv):
                    for r in range(nrf):
                        for g in range(ng):
                            if bwd:
                                b0[v, g, r] = tm.mk_add(*[T[c, a, v, r, g] * tmp[c, a, g] for c in range(ncpa) for a in range(na)])
                if not bwd:
                    for c in range(ncpa):
                        for a in range(na):
                            for g in range(ng):
                                tmp[c, a, g] = tm.mk_add(*[T[c, a, v, r, g] * b0[v, r, g] for v in range(nv) for r in range(nrf)])
            return fn
        ext = {"SDMXcontract_ao_to_bas": ao2bas(False), "SDMXcontract_ao_to_bas_bwd": ao2bas(True), "SDMXcontract_ao_to_bas_l1": ao2bas(False), "SDMXcontract_ao_to_bas_l1_bwd": ao2bas(True),
               "contract_shl_to_alpha_l1": shl2alpha(False), "contract_shl_to_alpha_l1_bwd": shl2alpha(True)}
        for k_, v_ in ext.items():
            it.externals["%s.%s" % (lib_, k_)] = v_
        it.externals["pyscf.lib.dot"] = lambda interp, a, b, *r, **k: np.asarray(a, dtype=object).dot(np.asarray(b, dtype=object))
        it.externals["pyscf.lib.einsum"] = lambda interp, spec, *ops, **k: np.einsum(spec, *[np.asarray(o, dtype=object) for o in ops])
        it.externals["pyscf.dft.numint._dot_ao_dm"] = lambda interp, mol, ao, dm, *r, **k: np.asarray(ao, dtype=object).dot(np.asarray(dm, dtype=object))
        it.externals["pyscf.dft.numint._dot_ao_ao"] = lambda interp, mol, ao1, ao2, *r, **k: np.asarray(ao1, dtype=object).T.dot(np.asarray(ao2, dtype=object))
        it.externals["pyscf.dft.numint._scale_ao"] = lambda interp, ao, wv, out=None: (np.einsum("xgi,xg->gi", np.asarray(ao, dtype=object), np.asarray(wv, dtype=object))
                                                                                        if np.asarray(ao, dtype=object).ndim == 3 else np.asarray(ao, dtype=object) * np.asarray(wv, dtype=object)[:, None])
        ov = {SMOD + ":_get_ylm_atom_loc": lambda interp, f, args, kwargs: np.array([0, 1], dtype=np.int32), SMOD + ":_get_rf_loc": lambda interp, f, args, kwargs: np.array([0, nrf], dtype=np.int32),
              SMOD + ":_get_nrf": lambda interp, f, args, kwargs: nrf, SMOD + ":EXXSphGenerator._get_ylm": lambda interp, f, args, kwargs: sym_array("ylm", (ncpa, 1, ng))}
        it.overrides.update(ov)
        fq = [SMOD + ":EXXSphGenerator." + n for n in ("get_features", "get_vxc_", "_contract_ao_to_bas", "_contract_ao_to_bas_bwd", "_contract_ao_to_bas_helper", "_eval_crho_potential", "has_l1", "deriv")] + \
             [PMOD + ":SDMXBasePlan.get_features", PMOD + ":SDMXBasePlan.get_vxc"]
        tag = "EXXSphGenerator[n0=%d,n1=%d]" % (n0, n1)
        ctx.assume("SDMX generator: C contractions by linear contracts (A / A^T, T / T^T), PySCF dense helpers by their documented meaning; bounded shape (%d grid points, %d orbitals, %d radial functions, %d exponents)" % (ng, nao, nrf, na))
        try:
            plan = Obj(pm.ns["SDMXPlan"])
            st = Obj(ClassV("_SDMXSettings", [], pm))
            st.fields.update({"nfeat": n0 + n1, "n1terms": n1, "pows": list(range(n0)), "ndterms": 0})
            plan.fields.update({"settings": st, "nspin": 1, "nalpha": na, "fit_matrices": [sym_array("F%d" % k, (na, na)) for k in range(n0 + n1)]})
            mol = Obj(ClassV("_Mol", [], sm))
            mol.fields.update({"nbas": 1, "natm": 1, "_atm": np.zeros((1, 6), dtype=np.int32), "_bas": np.zeros((1, 8), dtype=np.int32), "_env": sym_array("env", (3,)),
                               "ao_loc_nr": Builtin("mol.ao_loc_nr", lambda: np.array([0, nao], dtype=np.int32)), "nao_nr": Builtin("mol.nao_nr", lambda: nao),
                               "atom_coords": Builtin("mol.atom_coords", lambda unit=None: sym_array("Ratm", (1, 3)))})
            gen = Obj(sm.ns["EXXSphGenerator"])
            gen.fields.update({"plan": plan, "_cached_ao_data": None, "_ylm_buf": None})
            dm = sym_array("P", (nao, nao))
            ao = sym_array("ao", (ng, nao))
            cao = sym_array("cao", (2 * na if n1 else na, ng, nrf))
            coords = sym_array("xyz", (ng, 3))
            it.hyps = []
            feat = np.asarray(it.call_method(gen, "get_features", [dm.copy(), mol, coords], {"ao": ao, "cao": cao}), dtype=object)
            vgrid = sym_array("vg", (n0 + n1, ng))
            M = np.full((nao, nao), tm.ZERO, dtype=object)
            it.call_method(gen, "get_vxc_", [M, vgrid.copy()])
        except (Unsupported, PyRaise) as e:
            ctx.undecided("%s runs" % tag, str(e)[:300], fq)
            return
        finally:
            for k_ in ext:
                it.externals.pop("%s.%s" % (lib_, k_), None)
            for k_ in ov:
                it.overrides.pop(k_, None)
        ctx.holds("%s: features of shape (nfeat, ngrids); forward and backward contractions both called" % tag,
                  feat.shape == (n0 + n1, ng) and any(c[0] == "bas-fwd" for c in calls) and any(c[0] == "bas-bwd" for c in calls), "%s %s" % (feat.shape, calls), fq)
        uninit = [u.args[0] for x in list(M.reshape(-1)) + list(feat.reshape(-1)) for u in tm.free_vars(tm.lift(x)) if u.args[0].startswith("uninit!")]
        ctx.holds("%s: features and potential do not depend on uninitialised buffer contents" % tag, not uninit, "%s" % uninit[:3], fq)
        E = tm.mk_add(*[tm.lift(vgrid[i, g]) * tm.lift(feat[i, g]) for i in range(n0 + n1) for g in range(ng)])
        for u in range(nao):
            for v in range(u, nao):
                ctx.equal("%s: (M + M^T)[%d,%d] = (dE/dP[%d,%d] + dE/dP[%d,%d]) / 2" % (tag, u, v, u, v, v, u), [], tm.lift(M[u, v]) + tm.lift(M[v, u]),
                          Q(1, 2) * (tm.diff(E, dm[u, v]) + tm.diff(E, dm[v, u])), fq)
        ctx.canary("%s canary (full instead of half derivative)" % tag, [], tm.lift(M[0, 0]), tm.diff(E, dm[0, 0]))
        if not batch:
            return
        # C09: a stacked call gives, slot by slot, what the separate calls give (features and potential), on one generator object after the calls above
        for k_, v_ in ext.items():
            it.externals["%s.%s" % (lib_, k_)] = v_
        it.overrides.update(ov)
        try:
            dm2 = sym_array("Pb", (nao, nao))
            f2 = np.asarray(it.call_method(gen, "get_features", [dm2.copy(), mol, coords], {"ao": ao, "cao": cao}), dtype=object)
            M2 = np.full((nao, nao), tm.ZERO, dtype=object)
            it.call_method(gen, "get_vxc_", [M2, vgrid.copy()])
            fb = np.asarray(it.call_method(gen, "get_features", [np.stack([dm, dm2]), mol, coords], {"ao": ao, "cao": cao}), dtype=object)
            Mb = np.full((2, nao, nao), tm.ZERO, dtype=object)
            it.call_method(gen, "get_vxc_", [Mb, np.stack([vgrid, vgrid])])
        except (Unsupported, PyRaise) as e:
            ctx.undecided("%s batch runs" % tag, str(e)[:300], fq)
            return
        finally:
            for k_ in ext:
                it.externals.pop("%s.%s" % (lib_, k_), None)
            for k_ in ov:
                it.overrides.pop(k_, None)
        ctx.holds("%s batch: stacked features have one slot per density matrix" % tag, fb.shape == (2,) + feat.shape, str(fb.shape), fq)
        if fb.shape == (2,) + feat.shape:
            for k, (fs, Ms) in enumerate(((feat, M), (f2, M2))):
                for idx in np.ndindex(*feat.shape):
                    ctx.equal("%s batch slot %d: feature%s equals the separate call" % (tag, k, list(idx)), [], fb[k][idx], fs[idx], fq)
                for idx in np.ndindex(nao, nao):
                    ctx.equal("%s batch slot %d: potential matrix%s equals the separate call" % (tag, k, list(idx)), [], Mb[k][idx], Ms[idx], fq)
    return run


def units():
    u = [("rho_tuple", unit_rho_tuple)]
    for mode in ("ns", "np", "nst", "npa"):
        for nspin in (1, 2):
            u.append(("semilocal/%s/nspin%d" % (mode, nspin), unit_semilocal(mode, "MGGA" if mode in ("nst", "npa") else "GGA", nspin)))
    for version, level, rm in (("j", "MGGA", "one"), ("j", "MGGA", "expnt"), ("j", "GGA", "expnt"), ("i", "GGA", "one"), ("i", "MGGA", "one"), ("ij", "GGA", "one")):
        u.append(("nldfgen/%s/%s/%s" % (version, level, rm), unit_nldf_generator(version, level, rm)))
    for version, level in (("j", "MGGA"), ("j", "GGA"), ("ij", "GGA"), ("i", "GGA")):
        u.append(("nldfgen-real/%s/%s" % (version, level), unit_nldf_generator_real(version, level)))
    for nspin in (1, 2):
        for kind in ("MappedXC", "MappedXC2"):
            for fams in (("sl",), ("sl", "nldf"), ("sl", "nldf", "sdmx")):
                u.append(("eval_xc/nspin%d/%s/%s" % (nspin, kind, "+".join(fams)), unit_eval_xc(nspin, kind, fams)))
    for ncomp in (4, 5):
        u.append(("contract_wv/%d" % ncomp, unit_contract_wv(ncomp)))
    for fn in ("nr_rks", "nr_uks"):
        u.append(("integrator/" + fn, unit_integrator(fn)))
        u.append(("integrator-sdmx/" + fn, unit_integrator(fn, has_sdmx=True)))
        u.append(("integrator-nldf/" + fn + "_nldf", unit_integrator(fn + "_nldf", has_sdmx=True)))
    for clsname, n0, n1, nspin in (("SDMXPlan", 2, 0, 1), ("SDMXPlan", 1, 1, 2), ("SDMXPlan", 2, 2, 1), ("SDMXIntPlan", 1, 1, 1), ("SDMXIntPlan", 2, 0, 2)):
        u.append(("sdmx-plan/%s/n0_%d_n1_%d_nspin%d" % (clsname, n0, n1, nspin), unit_sdmx_plan_potential(clsname, n0, n1, nspin)))
    for n0, n1 in ((1, 0), (2, 0), (1, 1)):
        u.append(("sdmx-generator/n0_%d_n1_%d" % (n0, n1), unit_sdmx_generator(n0, n1)))
    for nspin in (1, 2):
        u.append(("fraclapl-plan/nspin%d" % nspin, unit_fraclapl_plan(nspin)))
    from contracts import c05
    u.append(("sdmx-adjoint", c05.unit_pair(c05.PAIRS[1])))
    # the reverse interpolation pass is the transpose of the forward pass (Python chain of LCAOInterpolator around the spline kernels)
    for onsite in (False, True):
        u.append(("interp-chain/onsite_%s" % onsite, c05.unit_interp_chain(onsite)))
    for n0, n1 in ((1, 1), (0, 2)):
        u.append(("spline-chain/n0_%d_n1_%d" % (n0, n1), c05.unit_spline_chain(n0, n1)))
    for n0, n1, onsite in ((1, 1, True), (1, 1, False)):
        u.append(("direct-chain/n0_%d_n1_%d_onsite_%s" % (n0, n1, onsite), c05.unit_direct_chain(n0, n1, onsite)))
    return u


EXPLANATION = (
    "C01 is an end-to-end statement; contracts decide its links one function at a time.  Proved here by reverse D-spec (differentiating the value "
    "term the engine obtains from the real source): the density-variable packing and its potential, the semilocal plan, the NLDF generator's "
    "get_features / get_potential around an abstract adjoint pair, eval_xc_cider's chain-rule assembly for MappedXC and MappedXC2 models with one or "
    "two spin channels and every combination of feature families, the integrators' accumulation of nelec / excsum, and the SDMX C contraction pair. "
    "The composition lemma over these contracts gives vmat = dExc/dP provided the assumed links hold: PySCF's AO evaluation and sparse contraction "
    "(contract_wv's callee), libxc, the convolution integrals / interpolator projections beyond the pairs of C05, EXXSphGenerator.")
TRUSTED = [
    "A1 reals; A2: the 1e-16 regulariser in exc_ml / (rho + 1e-16) treated as 0; A3/A4 numpy/Python model",
    "assumed links: PySCF eval_ao / eval_rho and the dense meaning of _scale_ao_sparse / _dot_ao_ao_sparse (as documented there), libxc, the C collaborators of the LCAO chains beyond C05's pairs (abstract matrices in interp-chain / spline-chain / direct-chain), the C contractions inside EXXSphGenerator (linear contracts in sdmx-generator/*; contract_shl_to_alpha_l1 pair UNVERIFIED at C level), FracLaplPlan",
    "bounded shapes: the interpolator chains, contract_wv and the SDMX plan units run on fixed small array shapes with every entry symbolic",
    "NLDF generator: version k (its own coefficient entry point cider_coefs_vk1_*) and the ij/i versions with rho_mult='expnt' are not run here (cost); versions j (both rho_mult, GGA/MGGA), i, ij are",
    "callee contracts: normaliser list (C12), model wrappers (C04), coefficient routine dp = dp/da (engine C in C04/C11 for the kernels; plan harness contract)",
]

if __name__ == "__main__":
    sys.exit(run_property("C01", "other", units(), EXPLANATION, TRUSTED, min_obligations=200))
