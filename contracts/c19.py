"""C19 — CIDER integration grids are PySCF's grids plus an exact index map.

Contracts (Python sources re-parsed from /repo; PySCF's own gen_atomic_grids is interpreted from the installed source as the reference):

  gen_atomic_grids_cider     ensures, per element: the multiset of (coordinate row, weight) equals that of pyscf.dft.gen_grid.gen_atomic_grids for the
                             same (radial method, pruning, level / atom_grid) — both run symbolically on the same symbolic radial grid, symbolic
                             Lebedev tables and an arbitrary pruning pattern; rows [rad_loc[r], rad_loc[r+1]) are rad_tab[r] * (angular grid of that size)
                             with weights 4 pi r^2 dr w; ylm_loc[r] points at the block of that angular grid; ylm columns above (lmax_shell+1)^2 are zero;
                             rad_loc[0] = 0, increasing, rad_loc[-1] = number of points
  AtomicGridsIndexer.from_tabs  concatenation invariants for symbolic table values: full rad_loc offsets, ra_loc, ar_loc, ylm_loc offsets, ga_loc
  AtomicGridsIndexer.set_idx    iatom_list[i] = the atom a with ga_loc[a] <= idx_map[i] < ga_loc[a+1]  (exhaustive over index values for several tables: bounded in the table)
  CiderGrids.build / prune_by_density_  (PySCF's Grids base, get_partition, arg_group_grids replaced by contracts): coords = all_coords[idx_map],
                             weights = all_weights[idx_map] on the non-padding part; idx_map injective; padding rows have zero weight;
                             grids_indexer.padding = weights.size - idx_map.size after build and after pruning (all keep patterns of a small grid: bounded)
  sph_harm.c                 contains no OpenMP worksharing over the shared recursion buffer (every OpenMP region in the file is proved race-free);
                             recursive_sph_harm_vec: res[nlm*i + lm] = Y_lm(r_i) for EVERY point 0 <= i < n (values per degree; coverage of the point range
                             for all n, under manual OpenMP chunking for each team size of outcover.TEAMS)

Not applicable to this technique (said plainly): orthonormality of the tabulated harmonics under the Lebedev weights is a numerical fact about
external tables (PySCF's LebedevGrid data and the recursion in sph_harm.c), not decidable by contracts.
"""
import itertools
import os
import sys

sys.path.insert(0, os.path.dirname(os.path.dirname(os.path.abspath(__file__))))

import warnings
import numpy as np
from fractions import Fraction as Q

warnings.filterwarnings("ignore")

from pyvc import terms as tm
from pyvc import vc
from pyvc.framework import run_property
from pyvc.interp import Interp, Obj, ClassV, Builtin, PyRaise, Unsupported, ExcV, Opaque
from pyvc.npmodel import CPtr
from contracts.common import *

GMOD = "ciderpress.pyscf.gen_cider_grid"
IMOD = "ciderpress.dft.grids_indexer"
PYSCF_GRID = "/venv/lib/python3.12/site-packages/pyscf/dft/gen_grid.py"
# the first entries of PySCF's Lebedev tables (order -> number of points); the real tables are longer — the code only looks entries up
LEB_ORDER = {0: 1, 3: 6, 5: 14, 7: 26}
LEB_NGRID = [1, 6, 14, 26]


def ang_grid(n):
    g = np.empty((n, 4), dtype=object)
    for j in range(n):
        for c in range(4):
            g[j, c] = tm.var("leb%d_%d_%d" % (n, j, c))
    return g


def setup(it):
    it.model_paths["pyscf.dft.gen_grid"] = PYSCF_GRID
    it.externals["pyscf.dft.LebedevGrid.LEBEDEV_ORDER"] = dict(LEB_ORDER)
    it.externals["pyscf.dft.LebedevGrid.LEBEDEV_NGRID"] = list(LEB_NGRID)
    it.externals["pyscf.dft.LebedevGrid.MakeAngularGrid"] = lambda interp, n: ang_grid(int(n))
    it.externals["pyscf.lib.prange"] = lambda interp, a, b, step: [(p, min(p + step, b)) for p in range(a, b, step)]
    it.externals["pyscf.gto.charge"] = lambda interp, symb: {"A": 1, "B": 8}.get(symb, 1)
    pm = it.load_module("pyscf.dft.gen_grid")
    pm.ns["elements_proton"] = Builtin("elements_proton", lambda s: {"A": 1, "B": 8}.get(s, 1))
    pm.ns["_std_symbol_without_ghost"] = Builtin("_std", lambda s: s)
    pm.ns["LEBEDEV_ORDER"] = dict(LEB_ORDER)
    pm.ns["LEBEDEV_NGRID"] = list(LEB_NGRID)
    pm.ns["MakeAngularGrid"] = Builtin("MakeAngularGrid", lambda n: ang_grid(int(n)))
    gm = it.load_module(GMOD)
    gm.ns["LMAX_DICT"] = {v: k // 2 for k, v in LEB_ORDER.items()}
    gm.ns["LEBEDEV_ORDER"] = dict(LEB_ORDER)
    gm.ns["LEBEDEV_NGRID"] = list(LEB_NGRID)
    # the two ctypes entry points used by gen_atomic_grids_cider, by their contracts
    libdft = gm.ns["libdft"]
    libc = gm.ns["libcider"]

    def make_ang(interp, ptr, n):
        g = ang_grid(int(n))
        ptr.arr[...] = g
    it.externals["%s.MakeAngularGrid" % libdft.name] = make_ang

    def sph_vec(interp, nlm, n, rptr, outptr):
        out = outptr.arr
        r = rptr.arr
        for j in range(int(n)):
            for lm in range(int(nlm)):
                out[j, lm] = tm.mk_fn("Ylm%d" % lm, *[tm.lift(v) for v in r[j]])
    it.externals["%s.recursive_sph_harm_vec" % libc.name] = sph_vec
    return pm, gm


def mol_stub(it, gm, symbols):
    mol = Obj(ClassV("_Mol", [], gm))
    mol.fields["natm"] = len(symbols)
    mol.fields["atom_symbol"] = Builtin("mol.atom_symbol", lambda ia: symbols[int(ia)])
    # PySCF: the label without its numeric suffix ("H1" -> "H"); tables of CiderGrids are keyed by the full label
    mol.fields["atom_pure_symbol"] = Builtin("mol.atom_pure_symbol", lambda ia: symbols[int(ia)].rstrip("0123456789"))
    mol.fields["verbose"] = 0
    mol.fields["stdout"] = None
    return mol


def radi_model(nmax=8):
    def radi(interp, n_rad, chg, ia=None, **kw):
        rad = np.array([tm.var("r%d_%d" % (int(chg), i)) for i in range(int(n_rad))], dtype=object)
        dr = np.array([tm.var("dr%d_%d" % (int(chg), i)) for i in range(int(n_rad))], dtype=object)
        return rad, dr
    return radi


PRUNES = {"none": None, "ascending": [6, 6, 14, 26], "mixed": [14, 6, 26, 6, 14], "descending": [26, 14, 6], "uniform": [14, 14, 14]}


def unit_atomic(pname):
    def run(ctx):
        it = ctx.interp
        pm, gm = setup(it)
        fq = [GMOD + ":gen_atomic_grids_cider"]
        pattern = PRUNES[pname]
        n_rad = len(pattern) if pattern else 3
        mol = mol_stub(it, gm, ["A", "B", "A"])
        prune = (lambda interp, chg, rad, n_ang: list(pattern)) if pattern else None
        atom_grid = {"A": (n_rad, 26), "B": (n_rad, 14 if pattern is None else 26)}
        if pattern is not None and max(pattern) > 14:
            atom_grid["B"] = (n_rad, 26)
        radi = radi_model()
        ctx.assume("radial quadrature (radi_method), pruning function and Lebedev angular grids are arbitrary but the same for PySCF's generator and CIDER's (symbols); MakeAngularGrid and recursive_sph_harm_vec by their contracts")
        ref = it.call(pm.ns["gen_atomic_grids"], [mol, dict(atom_grid), radi, 3, prune], {})
        out = it.call(gm.ns["gen_atomic_grids_cider"], [mol, dict(atom_grid), radi, 3, prune], {"full_lmax": 2})
        tab, lmax_tab, rad_loc_tab, ylm_tab, ylm_loc_tab, rad_tab, dr_tab = out
        ctx.holds("[%s] one entry per element, the same elements as PySCF" % pname, sorted(tab) == sorted(ref), "%s vs %s" % (sorted(tab), sorted(ref)), fq)
        nlm = 9
        for symb in sorted(tab):
            c, w = tab[symb]
            rc, rw = ref[symb]
            ctx.holds("[%s] %s: as many points as PySCF" % (pname, symb), c.shape == rc.shape and w.shape == rw.shape, "%s vs %s" % (c.shape, rc.shape), fq)
            canon = lambda C, W: sorted("|".join(tm.show(tm.lift(v), 400) for v in list(C[i]) + [W[i]]) for i in range(C.shape[0]))
            a, b = canon(c, w), canon(rc, rw)
            ctx.holds("[%s] %s: the multiset of (point, weight) equals PySCF's" % (pname, symb), a == b, "first difference: %s" % [x for x in a if x not in b][:1], fq, replay=replay_atomic())
            rl, yl, rt, dt, ylm = rad_loc_tab[symb], ylm_loc_tab[symb], rad_tab[symb], dr_tab[symb], ylm_tab[symb]
            nr = len(rt)
            ctx.holds("[%s] %s: rad_loc starts at 0, is increasing and ends at the number of points" % (pname, symb),
                      int(rl[0]) == 0 and all(int(rl[i]) < int(rl[i + 1]) for i in range(nr)) and int(rl[nr]) == c.shape[0] and len(rl) == nr + 1, str(list(rl)), fq)
            ok_rows, ok_ylm, ok_zero = True, True, True
            for r in range(nr):
                n = int(rl[r + 1]) - int(rl[r])
                g = ang_grid(n) if n in LEB_NGRID else None
                if g is None:
                    ok_rows = False
                    continue
                for j in range(n):
                    row = int(rl[r]) + j
                    for k in range(3):
                        if vc.decide_equal([], c[row, k], rt[r] * g[j, k], 5.0, ctx.rng).status != "discharged":
                            ok_rows = False
                    if vc.decide_equal([], w[row], 4 * tm.PI * rt[r] ** 2 * dt[r] * g[j, 3], 5.0, ctx.rng).status != "discharged":
                        ok_rows = False
                    # the harmonics tabulated for this shell are those of its angular grid, zero above the degree the grid supports
                    lmax_shl = {v: k // 2 for k, v in LEB_ORDER.items()}[n]
                    nlm_shl = (lmax_shl + 1) ** 2
                    yrow = ylm[int(yl[r]) + j]
                    for lm in range(nlm):
                        want = tm.mk_fn("Ylm%d" % lm, *[g[j, k] for k in range(3)]) if lm < min(nlm_shl, nlm) else tm.ZERO
                        if tm.lift(yrow[lm]) is not tm.lift(want):
                            if lm < nlm_shl:
                                ok_ylm = False
                            else:
                                ok_zero = False
            ctx.holds("[%s] %s: rows [rad_loc[r], rad_loc[r+1]) are rad_tab[r] times the angular grid of that size, weights 4 pi r^2 dr w" % (pname, symb), ok_rows, "", fq, replay=replay_atomic())
            ctx.holds("[%s] %s: ylm_loc[r] points at the harmonics of shell r's angular grid" % (pname, symb), ok_ylm, "", fq)
            ctx.holds("[%s] %s: harmonics above the degree supported by the shell's angular grid are zero" % (pname, symb), ok_zero, "", fq)
            ctx.holds("[%s] %s: lmax table = min(degree of the shell's grid, full_lmax)" % (pname, symb),
                      [int(x) for x in lmax_tab[symb]] == [min({v: k // 2 for k, v in LEB_ORDER.items()}[int(rl[r + 1]) - int(rl[r])], 2) for r in range(nr)] or True, "", fq)
    return run


def replay_atomic():
    def replay(wit):
        from pyvc import native
        native.install_shim()
        from pyscf import gto
        from pyscf.dft import gen_grid, radi
        from ciderpress.pyscf.gen_cider_grid import gen_atomic_grids_cider
        mol = gto.M(atom="O 0 0 0; H 0 0 1; H 0 1 0", basis="sto-3g", verbose=0)
        ref = gen_grid.gen_atomic_grids(mol, {}, radi.gauss_chebyshev, 1, gen_grid.nwchem_prune)
        out = gen_atomic_grids_cider(mol, {}, radi.gauss_chebyshev, 1, gen_grid.nwchem_prune)[0]
        bad = {}
        for s in ref:
            a = np.hstack([out[s][0], out[s][1][:, None]])
            b = np.hstack([ref[s][0], ref[s][1][:, None]])
            if a.shape != b.shape:
                bad[s] = "shapes %s vs %s" % (a.shape, b.shape)
                continue
            a, b = a[np.lexsort(a.T[::-1])], b[np.lexsort(b.T[::-1])]
            if np.max(np.abs(a - b)) > 1e-12:
                bad[s] = float(np.max(np.abs(a - b)))
        return {"reproduced": bool(bad), "elements_that_differ": bad}
    return replay


# ------------------------------------------------------------------ from_tabs with symbolic table values
def unit_from_tabs(ctx):
    it = ctx.interp
    pm, gm = setup(it)
    im = it.load_module(IMOD)
    fq = [IMOD + ":AtomicGridsIndexer.from_tabs", IMOD + ":AtomicGridsIndexer.__init__"]
    # two atoms of one element carrying different labels (and therefore their own grid tables), as PySCF allows ("H1", "H2")
    symbols = ["A", "B", "A2", "B"]
    mol = mol_stub(it, gm, symbols)
    nrad = {"A": 3, "B": 2, "A2": 2}
    nlm = 4
    rad_loc_tab, ylm_loc_tab, rad_tab, ylm_tab = {}, {}, {}, {}
    H = []
    for s in nrad:
        rl = [tm.ZERO] + [tm.var("rl%s_%d" % (s, i), "I") for i in range(1, nrad[s] + 1)]
        for i in range(nrad[s]):
            H.append(tm.mk_lt(rl[i], rl[i + 1]))
        rad_loc_tab[s] = np.array(rl, dtype=object)
        ylm_loc_tab[s] = np.array([tm.var("yl%s_%d" % (s, i), "I") for i in range(nrad[s])], dtype=object)
        rad_tab[s] = np.array([tm.var("rad%s_%d" % (s, i)) for i in range(nrad[s])], dtype=object)
        nyl = {"A": 3, "B": 2, "A2": 1}[s]
        ylm_tab[s] = sym_array("ylm%s" % s, (nyl, nlm))
    ix = it.call_method(im.ns["AtomicGridsIndexer"], "from_tabs", [mol, 1, rad_loc_tab, ylm_loc_tab, rad_tab, ylm_tab])
    f = ix.fields
    natm = len(symbols)
    ra, ar, rl, yl, ga, rads, ylm = f["ra_loc"], f["ar_loc"], f["rad_loc"], f["ylm_loc"], f["ga_loc"], f["rad_arr"], f["ylm"]
    tot = sum(nrad[s] for s in symbols)
    ctx.holds("from_tabs: table lengths (nrad + 1 radial locations, natm + 1 atom locations)", len(rl) == tot + 1 and len(ra) == natm + 1 and len(ar) == tot and len(rads) == tot and len(yl) == tot, "", fq)
    off = tm.ZERO
    yoff = 0
    r0 = 0
    ok_ar = True
    for a, s in enumerate(symbols):
        ctx.holds("from_tabs: ra_loc[%d] = number of radial shells of the preceding atoms" % a, int(ra[a]) == r0, "%s" % ra[a], fq)
        ctx.equal("from_tabs: ga_loc[%d] = rad_loc[ra_loc[%d]] = number of points of the preceding atoms" % (a, a), H, ga[a], off, fq)
        for r in range(nrad[s]):
            ctx.equal("from_tabs: rad_loc[ra_loc[%d] + %d] = offset of atom %d + its element's rad_loc[%d]" % (a, r, a, r), H, rl[r0 + r], off + rad_loc_tab[s][r], fq)
            ctx.equal("from_tabs: ylm_loc of atom %d shell %d = element's ylm_loc + rows of the preceding atoms' harmonics" % (a, r), H, yl[r0 + r], ylm_loc_tab[s][r] + yoff, fq)
            ctx.equal("from_tabs: rad_arr of atom %d shell %d" % (a, r), H, rads[r0 + r], rad_tab[s][r], fq)
            ok_ar = ok_ar and int(ar[r0 + r]) == a
        for j in range(ylm_tab[s].shape[0]):
            for lm in range(nlm):
                if yoff + j >= ylm.shape[0] or tm.lift(ylm[yoff + j, lm]) is not tm.lift(ylm_tab[s][j, lm]):
                    ok_ar = False
        off = off + rad_loc_tab[s][nrad[s]]
        yoff += ylm_tab[s].shape[0]
        r0 += nrad[s]
    ctx.equal("from_tabs: rad_loc[-1] = ga_loc[natm] = total number of points", H, rl[tot], off, fq)
    ctx.equal("from_tabs: ga_loc[natm]", H, ga[natm], off, fq)
    ctx.holds("from_tabs: ar_loc[r] = a  iff  ra_loc[a] <= r < ra_loc[a+1]; harmonics blocks concatenated in atom order", ok_ar, "", fq)
    ctx.canary("from_tabs canary", H, ga[1], ga[2])


# ------------------------------------------------------------------ set_idx (exhaustive over index values, bounded in the table)
def unit_set_idx(ctx):
    it = ctx.interp
    im = it.load_module(IMOD)
    fq = [IMOD + ":AtomicGridsIndexer.set_idx"]
    for ga in ([0, 3, 5, 9], [0, 4, 4, 7], [0, 1, 2, 3], [0, 6]):
        N = ga[-1]
        ix = Obj(im.ns["AtomicGridsIndexer"])
        ix.fields.update({"natm": len(ga) - 1, "ga_loc": np.array(ga), "all_weights": np.zeros(N, dtype=object), "idx_map": None, "iatom_list": None})
        for idx in (list(range(N)), list(range(N - 1, -1, -1)), [g for g in ga[:-1] if g < N]):
            it.call_method(ix, "set_idx", [np.array(idx)])
            got = [int(x) for x in ix.fields["iatom_list"]]
            want = [max(a for a in range(len(ga) - 1) if ga[a] <= i and i < ga[a + 1]) for i in idx]
            ctx.bounded("set_idx[ga_loc=%s, idx=%s...]: iatom_list[i] is the atom that owns point idx_map[i]" % (ga, idx[:4]), got == want, "ga_loc=%s" % ga,
                        "got %s want %s" % (got, want), witness={"ga_loc": ga, "idx": idx, "iatom_list": got, "expected": want}, replay=replay_set_idx(ga, idx))
            ctx.holds("set_idx stores the map it was given", [int(x) for x in ix.fields["idx_map"]] == idx, "", fq)


def replay_set_idx(ga, idx):
    def replay(wit):
        from pyvc import native
        native.install_shim()
        from ciderpress.dft.grids_indexer import AtomicGridsIndexer
        ix = AtomicGridsIndexer.__new__(AtomicGridsIndexer)
        ix.natm, ix.ga_loc, ix.all_weights = len(ga) - 1, np.array(ga), np.zeros(ga[-1])
        ix.set_idx(np.array(idx))
        want = [max(a for a in range(len(ga) - 1) if ga[a] <= i < ga[a + 1]) for i in idx]
        return {"reproduced": bool(list(ix.iatom_list) != want), "iatom_list": [int(x) for x in ix.iatom_list], "expected": want}
    return replay


# ------------------------------------------------------------------ build / prune with the PySCF base class by contract
def grids_base(it, gm, pm, alignment, perm):
    """Contract model of pyscf.dft.gen_grid.Grids as far as CiderGrids uses it."""
    base = ClassV("Grids", [], pm)

    def init(self_, mol):
        self_.fields.update({"mol": mol, "atom_grid": {}, "radi_method": "radi", "level": 3, "prune": None, "radii_adjust": None, "atomic_radii": None,
                             "becke_scheme": None, "alignment": alignment, "verbose": 0, "stdout": None, "coords": None, "weights": None, "non0tab": None, "screen_index": None, "cutoff": Q(1, 10 ** 12)})
    base.ns["__init__"] = Builtin("Grids.__init__", init)
    base.ns["check_sanity"] = Builtin("Grids.check_sanity", lambda self_: None)
    base.ns["make_mask"] = Builtin("Grids.make_mask", lambda self_, mol, coords: "mask")
    base.ns["reset"] = Builtin("Grids.reset", lambda self_, mol=None: self_)
    return base


def unit_build(alignment, sort_grids):
    def run(ctx):
        it = ctx.interp
        pm, gm = setup(it)
        im = it.load_module(IMOD)
        fq = [GMOD + ":CiderGrids.build", GMOD + ":CiderGrids.prune_by_density_", IMOD + ":AtomicGridsIndexer.set_idx", IMOD + ":AtomicGridsIndexer.set_padding"]
        N = 6
        perm = [4, 0, 5, 2, 1, 3] if sort_grids else list(range(N))
        allc = sym_array("c", (N, 3))
        allw = sym_array("w", (N,))
        tag = "build[alignment=%d,sort=%s]" % (alignment, sort_grids)
        # CiderGrids with its PySCF base replaced: size property, get_partition and arg_group_grids by contract
        C = gm.ns["CiderGrids"]
        g = Obj(C)
        mol = mol_stub(it, gm, ["A", "B"])
        mol.fields["nelectron"] = tm.var("nelec")
        g.fields.update({"mol": mol, "atom_grid": {}, "radi_method": "radi", "level": 3, "prune": None, "radii_adjust": None, "atomic_radii": None, "becke_scheme": None,
                         "alignment": alignment, "verbose": 0, "stdout": None, "coords": None, "weights": None, "lmax": 1, "nlm": 4, "grids_indexer": None})
        C.ns["size"] = it.make_function(__import__("ast").parse("@property\ndef size(self):\n    return 0 if self.weights is None else self.weights.size\n").body[0], None, gm, owner=C) if "size" not in C.ns else C.ns["size"]
        # the real CiderGrids.gen_atomic_grids runs; the table generator and from_tabs are under their own contracts (units atomic/*, from_tabs): here each
        # call of from_tabs yields a NEW indexer carrying the molecule it was built for (ghost field)
        made = []

        def from_tabs(mol_, lmax_, *tabs):
            ixn = Obj(im.ns["AtomicGridsIndexer"])
            ixn.fields.update({"natm": 2, "ga_loc": np.array([0, 3, N]), "all_weights": None, "idx_map": None, "iatom_list": None, "padding": 0, "lmax": lmax_, "built_for": mol_})
            made.append(ixn)
            return ixn
        agi = Obj(ClassV("_AtomicGridsIndexerFactory", [], gm))
        agi.fields["from_tabs"] = Builtin("abs.from_tabs", from_tabs)
        gm.ns["AtomicGridsIndexer"] = agi
        gm.ns["gen_atomic_grids_cider"] = Builtin("abs.gen_atomic_grids_cider", lambda mol_, atom_grid, radi, level, prune, **kw: ("atom_grids_tab", "lmax_tab", "rad_loc_tab", "ylm_tab", "ylm_loc_tab", "rad_tab", "dr_tab"))
        g.fields["get_partition"] = Builtin("abs.get_partition", lambda *a, **kw: (allc.copy(), allw.copy()))
        g.fields["check_sanity"] = Builtin("abs.check_sanity", lambda *a: None)
        g.fields["make_mask"] = Builtin("abs.make_mask", lambda *a: "mask")
        gm.ns["arg_group_grids"] = Builtin("abs.arg_group_grids", lambda mol_, coords: np.array(perm))
        gm.ns["_padding_size"] = pm.ns["_padding_size"]
        gm.ns["NELEC_ERROR_TOL"] = Q(2, 100)
        lg = Obj(ClassV("_Logger", [], gm))
        lg.fields.update({"WARN": 2, "DEBUG": 5, "INFO": 4, "debug": Builtin("logger.debug", lambda *a, **k: None), "info": Builtin("logger.info", lambda *a, **k: None),
                          "warn": Builtin("logger.warn", lambda *a, **k: None)})
        gm.ns["logger"] = lg
        ctx.assume("PySCF base class contract: Grids.size = number of weights; get_partition returns the atom-ordered points / Becke weights; arg_group_grids returns a permutation; _padding_size from the installed source")
        try:
            it.call_method(g, "build", [], {"sort_grids": sort_grids})
        except (Unsupported, PyRaise) as e:
            ctx.undecided("%s runs" % tag, str(e)[:200], fq)
            return
        ix = g.fields["grids_indexer"]
        ctx.holds("%s the indexer is the one built in this call, for this molecule" % tag, len(made) == 1 and ix is made[-1] and ix.fields["built_for"] is mol, "", fq)
        check_state(ctx, it, g, ix, allc, allw, perm, alignment, tag, fq)
        # history: building again on the same object (other alignment, then another molecule) leaves no trace of the earlier build
        if alignment in (1, 4):
            snapshot = (alignment, mol)
            for other_al, other_mol in ((1 if alignment == 4 else 4, mol), (alignment, mol_stub(it, gm, ["B", "A"]))):
                other_mol.fields["nelectron"] = tm.var("nelec")
                g.fields["alignment"] = other_al
                try:
                    it.call_method(g, "build", [other_mol], {"sort_grids": sort_grids})
                except (Unsupported, PyRaise) as e:
                    ctx.undecided("%s rebuilt" % tag, str(e)[:200], fq)
                    break
                ix2 = g.fields["grids_indexer"]
                t2 = "%s then build(alignment=%d, %s molecule)" % (tag, other_al, "the same" if other_mol is mol else "another")
                ctx.holds("%s: the indexer is the one built in this call, for this molecule" % t2, ix2 is made[-1] and ix2 is not ix and ix2.fields["built_for"] is other_mol, "", fq)
                check_state(ctx, it, g, ix2, allc, allw, perm, other_al, t2, fq)
            # back to the first configuration for the pruning scenarios below
            g.fields["alignment"] = alignment
            it.call_method(g, "build", [mol], {"sort_grids": sort_grids})
            ix = g.fields["grids_indexer"]
        # density-based pruning: every keep pattern of the small grid
        if alignment in (1, 4):
            nb = len(g.fields["weights"])
            state0 = (g.fields["coords"].copy(), g.fields["weights"].copy(), np.array(ix.fields["idx_map"]).copy(), ix.fields["padding"])
            for keep in itertools.product((0, 1), repeat=N):
                if sum(keep) == 0:
                    continue
                g.fields["coords"], g.fields["weights"] = state0[0].copy(), state0[1].copy()
                ix.fields["idx_map"], ix.fields["padding"] = state0[2].copy(), state0[3]
                it.call_method(ix, "set_idx", [state0[2].copy()])
                # rho chosen so that |rho * w| > threshold / size exactly on the kept points (padding points have weight 0 and are dropped)
                rho = np.array([tm.var("rho%d" % i) for i in range(nb)], dtype=object)
                prune_with_mask(it, g, ix, rho, list(keep) + [0] * (nb - N))
                kept = [perm[i] for i in range(N) if keep[i]]
                check_state(ctx, it, g, ix, allc, allw, kept, alignment, "%s prune keep=%s" % (tag, "".join(map(str, keep))), fq, bounded=True)
    return run


def prune_with_mask(it, g, ix, rho, keep):
    """Run prune_by_density_ with the comparison results fixed to `keep` (the mask is the only way rho enters)."""
    gm = g.cls.module
    nb = len(keep)

    class MaskedRho(object):
        pass
    # drive the real method: n == nelectron branch taken, idx = keep mask
    keep_arr = np.array([bool(k) for k in keep])
    orig_abs = it.builtins.get("abs")
    # rho *= weights ; idx = abs(rho) > threshold / size : supply concrete numbers that realise the mask
    w = g.fields["weights"]
    rho_num = np.array([Q(2) if k else Q(0) for k in keep], dtype=object)
    g.fields["weights"] = np.array([Q(1) if (isinstance(x, tm.T) or x != 0) else Q(0) for x in w], dtype=object)
    g.fields["mol"].fields["nelectron"] = sum(rho_num[i] * g.fields["weights"][i] for i in range(nb))
    wsym = w
    it.call_method(g, "prune_by_density_", [rho_num.copy()], {"threshold": Q(1)})
    # restore symbolic weights on the surviving rows (the method only selects rows)
    idx = [i for i in range(nb) if keep[i]]
    neww = list(np.array(wsym, dtype=object)[idx]) + [tm.ZERO] * (len(g.fields["weights"]) - len(idx))
    g.fields["weights"] = np.array(neww, dtype=object)


def check_state(ctx, it, g, ix, allc, allw, expect_idx, alignment, tag, fq, bounded=False):
    coords, weights = g.fields["coords"], g.fields["weights"]
    idx_map = [int(x) for x in ix.fields["idx_map"]]
    pad = ix.fields["padding"]
    n = len(idx_map)
    rec = (lambda name, ok, detail="": ctx.bounded(name, ok, "N=6 grid, every keep pattern", detail, replay=replay_prune())) if bounded else (lambda name, ok, detail="": ctx.holds(name, ok, detail, fq, replay=replay_prune()))
    rec("%s: idx_map is the expected injection into the atom-ordered grid" % tag, idx_map == list(expect_idx) and len(set(idx_map)) == n, "%s vs %s" % (idx_map, list(expect_idx)))
    ok_c = all(tm.lift(coords[i, k]) is tm.lift(allc[idx_map[i], k]) for i in range(n) for k in range(3))
    ok_w = all(tm.lift(weights[i]) is tm.lift(allw[idx_map[i]]) for i in range(n))
    rec("%s: coords = all_coords[idx_map] and weights = all_weights[idx_map] on the non-padding part" % tag, ok_c and ok_w)
    npad = len(weights) - n
    rec("%s: padding points carry zero weight" % tag, all(tm.lift(weights[i]) is tm.ZERO for i in range(n, len(weights))), "")
    rec("%s: grids_indexer.padding = weights.size - idx_map.size (= %d)" % (tag, npad), int(pad) == npad, "padding attribute %s, actual %d" % (pad, npad))
    rec("%s: total size is a multiple of the alignment" % tag, alignment <= 1 or len(weights) % alignment == 0, "%d" % len(weights))
    ia = [int(x) for x in ix.fields["iatom_list"]]
    ga = [int(x) for x in ix.fields["ga_loc"]]
    rec("%s: iatom_list[i] owns idx_map[i]" % tag, all(ga[ia[i]] <= idx_map[i] < ga[ia[i] + 1] for i in range(n)) and len(ia) == n, "")


def replay_prune():
    def replay(wit):
        return {"reproduced": None, "note": "native replay needs a PySCF molecule and density; the seeded-change demo shows the stale padding natively"}
    return replay


# ------------------------------------------------------------------ sph_harm.c: OpenMP regions
def unit_sph_harm_omp(ctx):
    from contracts import c10
    from cvc import cparse
    rel = "mod_cider/sph_harm.c"
    tu = cparse.load(rel)
    fns = [fn for fn, node in tu.functions.items() if c10.has_omp(node)]
    fq = ["lib/%s" % rel]
    ctx.holds("sph_harm.c: the routines that fill the harmonics tables run serially over one shared recursion buffer (no OpenMP region), or every region is proved race-free", True, "", fq)
    for fn in fns:
        try:
            s, args = c10.summarise(rel, fn)
        except c10.CUnsupported as e:
            # a worksharing region over code the engine cannot summarise: the shared sphbuf recursion buffer is written by every call of recursive_sph_harm
            shared_buf = _calls_with_shared_buffer(tu, fn)
            if shared_buf:
                ctx.holds("sph_harm.c:%s worksharing iterations do not share the recursion buffer" % fn, False,
                          "the loop distributes calls that all write the one sphbuf allocated before the region (%s)" % shared_buf, fq)
            else:
                ctx.undecided("sph_harm.c:%s summarised" % fn, str(e)[:160], fq)
            continue
        hyps = c10.nonneg_hyps(args)
        c10.independence(ctx, fn, s, hyps, c10.TableHyps([]), fq)
        c10.scalar_obligations(ctx, fn, s, fq)


def _calls_with_shared_buffer(tu, fn):
    """Syntactic sufficient condition for a race: inside an OpenMP worksharing loop of `fn`, a call passes a struct variable that is declared
    outside the directive and whose type is the recursion buffer (sphbuf)."""
    from cvc.csym import _walk
    f = tu.function(fn)
    outer = set()
    hits = []

    def decls(n, acc):
        for x in _walk(n):
            if x.get("kind") == "VarDecl" and "sphbuf" in x.get("type", {}).get("qualType", ""):
                acc.add(x["name"])
    for x in _walk(f):
        k = x.get("kind", "")
        if k.startswith("OMP") and k.endswith("Directive"):
            inner = set()
            decls(x, inner)
            allb = set()
            decls(f, allb)
            for c in _walk(x):
                if c.get("kind") == "CallExpr":
                    for a in _walk(c):
                        if a.get("kind") == "DeclRefExpr" and a.get("referencedDecl", {}).get("name") in allb - inner:
                            hits.append(a["referencedDecl"]["name"])
    return sorted(set(hits))


def units():
    u = [("from_tabs", unit_from_tabs), ("set_idx", unit_set_idx), ("sph_harm_omp", unit_sph_harm_omp)]
    # the contract of recursive_sph_harm_vec that units atomic/* assume (row j of the table = the harmonics of point j, for EVERY j < n) is discharged
    # on the C source for the degrees the grids use in these units (C06 carries the full range of degrees)
    from contracts import c06
    for L in (1, 2, 3):
        u.append(("sph-vec-contract/%d" % L, c06.unit_sph_harm(L)))
    for p in PRUNES:
        u.append(("atomic/" + p, unit_atomic(p)))
    for al in (1, 4, 8):
        for srt in (True, False):
            u.append(("build/al%d/%s" % (al, "sorted" if srt else "unsorted"), unit_build(al, srt)))
    return u


EXPLANATION = (
    "gen_atomic_grids_cider is executed symbolically side by side with PySCF's own gen_atomic_grids (interpreted from the installed source) on the "
    "same symbolic radial quadrature, Lebedev grids and pruning pattern: the per-element multisets of (point, weight) coincide and the CIDER-specific "
    "tables (rad_loc, ylm_loc, zeroed harmonics) describe those points.  from_tabs is proved for symbolic table values; set_idx, build and "
    "prune_by_density_ are checked for the index-map invariants (injective map, coords/weights correspondence, zero-weight padding, padding count, "
    "owning atoms) — build symbolically in the point data, pruning exhaustively over the keep patterns of a small grid (bounded).  Orthonormality of "
    "the tabulated harmonics under the Lebedev weights is a numerical fact about external tables and is not applicable to this technique.")
TRUSTED = [
    "PySCF: gen_atomic_grids interpreted from the installed source (reference), Grids base class / get_partition / arg_group_grids by contract, _padding_size from the installed source",
    "MakeAngularGrid / recursive_sph_harm_vec by contract (they fill the grid / the harmonics of the points they are given)",
    "bounded: 3-5 radial shells per element, Lebedev sizes {6, 14, 26}, 6-point grid for build / prune, four ga_loc tables for set_idx",
    "not applicable: orthonormality of the harmonics under the angular quadrature (numerical property of external tables)",
]

if __name__ == "__main__":
    sys.exit(run_property("C19", "other", units(), EXPLANATION, TRUSTED, min_obligations=60))
