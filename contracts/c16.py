"""C16 — Gaussian-process training solves the documented linear system.

Contracts (ciderpress/models/train.py, re-parsed from /repo on every run):

  MOLGP.fit(x, sigma_min)   ensures for every kernel k:  kernel_k.alpha = s * Kt_k^-1 Kmn_k (s * sum_j Knm_j Kt_j^-1 Kmn_j + Sigma + eps I)^-1 y
                             with Kt_k = Kmm_k + eps I, eps = numerical_epsilon, Kmn_k the stacked reaction covariances, Sigma = diag(f * noise_i^2),
                             s = x[0]^2 and f = sigma_min + x[1]^2 (s = f = 1 when x is None) — the documented system (docs/theory/gp.rst,
                             eq. gp_predictive_cider3) with its explicit jitter; alpha_mol_, y_mol_, K_, Kcov_ stored accordingly;
                             residual identity  y - Kcov alpha_mol = (Sigma + eps I) alpha_mol;  no reactions -> ValueError
  MOLGP.compute_likelihood  ensures  = -1/2 y^T Kf^-1 y - 1/2 log det Kf - n/2 log 2 pi  with  Kf = x0^2 Kcov + (sigma_min + x1^2)(K - Kcov)
  MOLGP.add_reactions       ensures every accepted reaction appends exactly one entry to rxn_ref_list, rxn_noise_list and to every kernel's
                             rxn_cov_list (lock-step), entry r is a function of reaction r and the stored dictionaries only (labels: reference minus
                             baselines with stoichiometric counts and the unit; noise options), the caller's reaction dicts are not modified apart
                             from the documented default of 'unit'; unsupported modes raise; hence permuting reactions permutes the rows, and
                             reset_reactions + re-adding reproduces the lists exactly
  fit is covariant under a permutation of the reactions (weights invariant), checked symbolically for n = 2, 3
  MOLGP._compute_mol_covs   low-density masking clause: NPOL/POL drop a grid point iff its *total* density is below 1e-6, SEP per spin channel

LAPACK is replaced by its contract: cholesky(A) is a factor L with L L^T = A for SPD A, cho_solve((L, True), B) = A^-1 B, solve(L, y) = L^-1 y,
slogdet(A) = (1, log det A).  Matrices are small with *symbolic entries* (control points M = 2, reactions n = 2 or 3, one or two kernels):
the proof is for all values at those dimensions; the code is shape-generic numpy without dimension-dependent branches (bounded in dimension: stated).
"""
import itertools
import os
import sys

sys.path.insert(0, os.path.dirname(os.path.dirname(os.path.abspath(__file__))))

import warnings
import numpy as np
from fractions import Fraction as Q

warnings.filterwarnings("ignore")

from pyvc import terms as tm
from pyvc import vc
from pyvc.framework import run_property
from pyvc.interp import Interp, Obj, ClassV, Builtin, PyRaise, Unsupported, ExcV
from contracts.common import *

TMOD = "ciderpress.models.train"
FQ = lambda *ms: ["%s:MOLGP.%s" % (TMOD, m) for m in ms]


# ------------------------------------------------------------------ exact small-matrix linear algebra over terms (the LAPACK contract)
def det(A):
    n = A.shape[0]
    if n == 1:
        return tm.lift(A[0, 0])
    if n == 2:
        return A[0, 0] * A[1, 1] - A[0, 1] * A[1, 0]
    return tm.mk_add(*[(-1) ** j * A[0, j] * det(np.delete(np.delete(A, 0, 0), j, 1)) for j in range(n)])


def inverse(A):
    n = A.shape[0]
    d = det(A)
    out = np.empty((n, n), dtype=object)
    if n == 1:
        out[0, 0] = 1 / tm.lift(A[0, 0])
        return out
    for i in range(n):
        for j in range(n):
            out[i, j] = (-1) ** (i + j) * det(np.delete(np.delete(A, j, 0), i, 1)) / d
    return out


def matmul(A, B):
    A2 = A if A.ndim == 2 else A.reshape(1, -1)
    B2 = B if B.ndim == 2 else B.reshape(-1, 1)
    out = np.empty((A2.shape[0], B2.shape[1]), dtype=object)
    for i in range(A2.shape[0]):
        for j in range(B2.shape[1]):
            out[i, j] = tm.mk_add(*[tm.lift(A2[i, k]) * tm.lift(B2[k, j]) for k in range(A2.shape[1])])
    if A.ndim == 1 and B.ndim == 1:
        return out[0, 0]
    if B.ndim == 1:
        return out[:, 0]
    if A.ndim == 1:
        return out[0]
    return out


class Factor(object):
    """Cholesky factor of an SPD matrix A, known only through the LAPACK contract (L L^T = A)."""

    def __init__(self, A):
        self.A = A
        self.shape = A.shape
        self.ndim = 2


class LinAlg(object):
    """Contract model of the LAPACK calls.  A solve returns *named* solution symbols together with their defining linear system
    (A X = B, unique for SPD A); no inverse is ever expanded.  A system that is a simultaneous row/column permutation of one solved
    earlier (same matrix and right-hand side up to that permutation) gets the correspondingly permuted symbols — the permutation
    covariance of the unique solution."""

    def __init__(self, log):
        self.log = log
        self.solved = []      # (A, b (1-d), x (1-d symbols))
        self.n = 0
        self.nfc = None

    def _eq(self, a, b):
        from pyvc.nf import NF, NFError
        a, b = tm.lift(a), tm.lift(b)
        if a is b:
            return True
        try:
            return NF().equal(a, b)
        except NFError:
            return False

    def solve_vec(self, A, b, tag):
        n = A.shape[0]
        for (A0, b0, x0) in self.solved:
            if A0.shape != A.shape:
                continue
            for perm in itertools.permutations(range(n)):
                if all(self._eq(b[q], b0[perm[q]]) for q in range(n)) and all(self._eq(A[q, r], A0[perm[q], perm[r]]) for q in range(n) for r in range(n)):
                    return np.array([x0[perm[q]] for q in range(n)], dtype=object)
        self.n += 1
        x = np.array([tm.var("%s%d_%d" % (tag, self.n, i)) for i in range(n)], dtype=object)
        self.solved.append((A.copy(), np.array(b, dtype=object), x))
        return x

    def solve(self, A, B, tag="sol"):
        B = np.array(B, dtype=object)
        if B.ndim == 1:
            return self.solve_vec(A, B, tag)
        return np.stack([self.solve_vec(A, B[:, c], tag) for c in range(B.shape[1])], axis=1)

    def definitions(self):
        """Defining equations (A x = b) of all solution symbols, as hypotheses."""
        hy = []
        for A, b, x in self.solved:
            for i in range(A.shape[0]):
                hy.append(tm.mk_eq(tm.mk_add(*[tm.lift(A[i, j]) * x[j] for j in range(A.shape[0])]), tm.lift(b[i])))
        return hy


def install_linalg(it, log):
    la = LinAlg(log)

    def cholesky(interp, A, lower=False, **kw):
        A_in = A
        A = np.array(A, dtype=object)
        log.append(("cholesky", A, lower))
        if kw.get("overwrite_a") and isinstance(A_in, np.ndarray):
            # the caller's matrix holds the factor afterwards: its old content is gone (fresh symbols)
            A_in[...] = np.array([[tm.var("chol_overwritten_%d_%d_%d" % (len(log), i, j)) for j in range(A.shape[1])] for i in range(A.shape[0])], dtype=object)
        if not lower:
            raise Unsupported("cholesky(lower=False) is not part of the contract model")
        return Factor(A)

    def cho_solve(interp, c_and_lower, B, **kw):
        c, lower = c_and_lower
        if not isinstance(c, Factor) or lower is not True:
            raise PyRaise(mk_exc_("ValueError", "cho_solve needs the factor returned by cholesky(lower=True)"))
        log.append(("cho_solve", c.A, np.array(B, dtype=object)))
        x = la.solve(c.A, B)
        if kw.get("overwrite_b") and isinstance(B, np.ndarray):
            # LAPACK solves in place: with overwrite_b the caller's right-hand side holds the solution afterwards (scipy documents that b "may" be overwritten;
            # for a C-contiguous float64 vector it is)
            xa = np.asarray(x, dtype=object)
            B[...] = xa.reshape(B.shape)
        return x

    def solve(interp, L, y):
        if isinstance(L, Factor):
            # v = L^-1 y: only v.v = y^T A^-1 y = y . (A^-1 y) is determined by the contract; v is returned as symbols carrying that relation
            z = la.solve(L.A, y, "z")
            y_ = np.array(y, dtype=object)
            n = len(y_)
            v = np.array([tm.var("halfsolve%d_%d" % (la.n, i)) for i in range(n)], dtype=object)
            la.halfs = getattr(la, "halfs", []) + [(v, tm.mk_add(*[tm.lift(y_[i]) * z[i] for i in range(n)]), L.A, y_)]
            return v
        raise Unsupported("numpy.linalg.solve with a general matrix")

    def slogdet(interp, A):
        A = np.array(A, dtype=object)
        log.append(("slogdet", A))
        return (1, tm.mk_fn("log", det(A)))
    it.externals["scipy.linalg.cholesky"] = cholesky
    it.externals["scipy.linalg.cho_solve"] = cho_solve
    it.np.linalg.table["solve"] = Builtin("np.linalg.solve", solve, needs_interp=True)
    it.np.linalg.table["slogdet"] = Builtin("np.linalg.slogdet", slogdet, needs_interp=True)
    return la


def mk_exc_(name, msg):
    from pyvc.interp import mk_exc
    return mk_exc(name, msg)


def setup(ctx):
    it = ctx.interp
    log = []
    it.linalg = install_linalg(it, log)
    it.externals["pyscf.lib.prange"] = lambda interp, a, b, step: [(p, min(p + step, b)) for p in range(a, b, step)]
    mod = it.load_module(TMOD)
    ctx.assume("add_reactions: an orbital-derivative entry in a mode-2 (XC) reaction raises KeyError (no derivative of the KS baseline is stored): outside the accepted inputs")
    ctx.assume("LAPACK / scipy.linalg contract: cholesky(A, lower=True) factors an SPD matrix, cho_solve((L, True), B) = A^-1 B, numpy.linalg.solve(L, y) = L^-1 y, "
               "slogdet(A) = (1, log det A) for SPD A (external; replaced by exact small-matrix algebra over symbolic entries)")
    return it, mod, log


def abstract_kernel(it, mod, name, M, n, component="x"):
    """A DFTKernel stand-in: symmetric symbolic control-point covariance and the lists / dictionaries add_reactions and fit touch."""
    k = Obj(ClassV("_AbstractDFTKernel", [], mod))
    Kmm = np.empty((M, M), dtype=object)
    for i in range(M):
        for j in range(M):
            Kmm[i, j] = tm.var("%s_mm_%d_%d" % (name, min(i, j), max(i, j)))
    k.fields.update({"component": component, "rxn_cov_list": [], "alpha": None, "cov_dict": {}, "base_dict": {}, "dcov_dict": {}, "dbase_dict": {}, "Nctrl": M})
    k.fields["get_kctrl"] = Builtin("abs.get_kctrl", lambda: Kmm.copy())
    k.Kmm = Kmm
    return k


def new_molgp(it, mod, kernels):
    gp = Obj(mod.ns["MOLGP"])
    gp.fields.update({"kernels": kernels, "default_noise": tm.var("default_noise"), "numerical_epsilon": tm.var("eps"), "args": None,
                      "exx_ref_dict": {}, "dexx_ref_dict": {}, "ks_baseline_dict": {}, "alpha_mol_": None, "y_mol_": None, "K_": None, "Kcov_": None})
    it.call_method(gp, "reset_reactions", [])
    return gp


def spd_hyps(mats):
    """Leading principal minors positive (Sylvester) — the domain on which the LAPACK contract applies."""
    hy = []
    for A in mats:
        for k in range(1, A.shape[0] + 1):
            hy.append(tm.mk_lt(tm.ZERO, det(A[:k, :k])))
    return hy


def unit_fit(nker, n, with_x):
    def run(ctx):
        it, mod, log = setup(ctx)
        la = it.linalg
        M = 2
        kernels = [abstract_kernel(it, mod, "k%d" % j, M, n, "x" if j == 0 else "c") for j in range(nker)]
        gp = new_molgp(it, mod, kernels)
        Kmn = []
        for j, k in enumerate(kernels):
            cov = sym_array("k%d_mn" % j, (n, M))
            k.fields["rxn_cov_list"] = [cov[r].copy() for r in range(n)]
            Kmn.append(cov.T)                 # (M, n)
        noise = sym_array("noise", (n,))
        y = sym_array("y", (n,))
        gp.fields["rxn_noise_list"] = list(noise)
        gp.fields["rxn_ref_list"] = list(y)
        eps = gp.fields["numerical_epsilon"]
        if with_x:
            x = sym_array("x", (2,))
            smin = tm.var("sigma_min")
            kw = {"x": x, "sigma_min": smin}
            s, f = x[0] ** 2, smin + x[1] ** 2
        else:
            kw, s, f = {}, tm.ONE, tm.ONE
        fq = FQ("fit")
        tag = "fit[kernels=%d,n=%d,%s]" % (nker, n, "x" if with_x else "x=None")
        paths = all_paths(it, lambda: it.call_method(gp, "fit", [], dict(kw)))
        ok = len(paths) == 1 and paths[0][0] == "return"
        ctx.holds("%s returns" % tag, ok, "%s" % [(p[0], str(p[1])[:200]) for p in paths], fq)
        if not ok:
            return
        H = []
        delta = lambda i, j: tm.ONE if i == j else tm.ZERO
        chols = [e for e in log if e[0] == "cholesky"]
        solves = [e for e in log if e[0] == "cho_solve"]
        ctx.holds("%s %d Cholesky factorisations and solves (one per kernel + the reaction system), all lower" % (tag, nker + 1),
                  len(chols) == nker + 1 and len(solves) == nker + 1 and all(e[2] for e in chols), "%d %d" % (len(chols), len(solves)), fq)
        if len(chols) != nker + 1 or len(solves) != nker + 1:
            return
        X = []
        for j, k in enumerate(kernels):
            A, B = solves[j][1], solves[j][2]
            for i in range(M):
                for l in range(M):
                    ctx.equal("%s kernel %d: factorised matrix[%d,%d] = Kmm + eps I" % (tag, j, i, l), H, A[i, l], k.Kmm[i, l] + eps * delta(i, l), fq)
                    ctx.equal("%s kernel %d: the matrix solved against is the one factorised [%d,%d]" % (tag, j, i, l), H, A[i, l], chols[j][1][i, l], fq)
                for r in range(n):
                    ctx.equal("%s kernel %d: right-hand side[%d,%d] = stacked reaction covariances Kmn" % (tag, j, i, r), H, B[i, r], Kmn[j][i, r], fq)
            X.append(np.stack([la.solve_vec(A, B[:, r], "sol") for r in range(n)], axis=1))        # the symbols the code received: Kt^-1 Kmn
        Kcov = np.empty((n, n), dtype=object)
        Kfull = np.empty((n, n), dtype=object)
        for i in range(n):
            for l in range(n):
                Kcov[i, l] = s * tm.mk_add(*[Kmn[j][m, i] * X[j][m, l] for j in range(nker) for m in range(M)])
                Kfull[i, l] = Kcov[i, l] + (f * noise[i] ** 2 + eps) * delta(i, l)
        A, B = solves[nker][1], solves[nker][2]
        for i in range(n):
            ctx.equal("%s reaction system: right-hand side[%d] = labels y" % (tag, i), H, B[i], y[i], fq)
            for l in range(n):
                ctx.equal("%s reaction system: matrix[%d,%d] = s sum_k Knm Kt^-1 Kmn + Sigma + eps I" % (tag, i, l), H, A[i, l], Kfull[i, l], fq, replay=replay_fit(nker, n, with_x))
                ctx.equal("%s reaction system: the matrix solved against is the one factorised [%d,%d]" % (tag, i, l), H, A[i, l], chols[nker][1][i, l], fq)
        am_sym = la.solve_vec(A, B, "sol")
        for j, k in enumerate(kernels):
            a = k.fields["alpha"]
            ctx.holds("%s kernel %d alpha has one weight per control point" % (tag, j), isinstance(a, np.ndarray) and a.shape == (M,), "", fq)
            for i in range(M):
                want = s * tm.mk_add(*[X[j][i, r] * am_sym[r] for r in range(n)])
                ctx.equal("%s kernel %d alpha[%d] = s Kt^-1 Kmn (s sum Knm Kt^-1 Kmn + Sigma + eps I)^-1 y" % (tag, j, i), H, a[i], want, fq, replay=replay_fit(nker, n, with_x))
        am = gp.fields["alpha_mol_"]
        Kc, Kf, ym = gp.fields["Kcov_"], gp.fields["K_"], gp.fields["y_mol_"]
        for i in range(n):
            ctx.equal("%s alpha_mol_[%d] = solution of the reaction system" % (tag, i), H, am[i], am_sym[i], fq)
            ctx.equal("%s y_mol_[%d]" % (tag, i), H, ym[i], y[i], fq)
            # residual identity  y - Kcov alpha_mol = (Sigma + eps I) alpha_mol, i.e. (given K alpha_mol = y)  y - Kcov a - (Sigma + eps I) a = y - K a
            res = y[i] - tm.mk_add(*[Kc[i, l] * am[l] for l in range(n)]) - (f * noise[i] ** 2 + eps) * am[i]
            ctx.equal("%s residual identity [%d]: y - Kcov a - (Sigma + eps I) a = y - K a (= 0 by the defining system of a)" % (tag, i), H, res, y[i] - tm.mk_add(*[A[i, l] * am_sym[l] for l in range(n)]), fq)
            for l in range(n):
                ctx.equal("%s Kcov_[%d,%d]" % (tag, i, l), H, Kc[i, l], Kcov[i, l], fq)
                ctx.equal("%s K_[%d,%d]" % (tag, i, l), H, Kf[i, l], Kfull[i, l], fq)
        ctx.canary("%s canary" % tag, H, kernels[0].fields["alpha"][0], 2 * tm.lift(kernels[0].fields["alpha"][0]) + 1)
        ctx.holds("%s leaves the reaction lists unchanged" % tag, all(tm.lift(a) is tm.lift(b) for a, b in zip(gp.fields["rxn_noise_list"], noise)) and
                  all(tm.lift(a) is tm.lift(b) for a, b in zip(gp.fields["rxn_ref_list"], y)), "", fq)
        # permutation covariance: permuting the reactions leaves the kernel weights unchanged (the solution of a permuted SPD system is the permuted solution)
        if not with_x:
            for perm in list(itertools.permutations(range(n)))[1:4]:
                k2 = [abstract_kernel(it, mod, "k%d" % j, M, n, "x" if j == 0 else "c") for j in range(nker)]
                gp2 = new_molgp(it, mod, k2)
                for j, k in enumerate(k2):
                    k.fields["rxn_cov_list"] = [Kmn[j].T[r].copy() for r in perm]
                gp2.fields["rxn_noise_list"] = [noise[r] for r in perm]
                gp2.fields["rxn_ref_list"] = [y[r] for r in perm]
                it.call_method(gp2, "fit", [], {})
                for j in range(nker):
                    for i in range(M):
                        ctx.equal("%s weights invariant under the permutation %s of the reactions: kernel %d alpha[%d]" % (tag, perm, j, i), H, k2[j].fields["alpha"][i], kernels[j].fields["alpha"][i], fq)
        # likelihood
        fql = FQ("compute_likelihood")
        xl = sym_array("xl", (2,))
        sl = tm.var("sigma_min_l")
        for kwl, s2, f2, lab in (({"x": xl, "sigma_min": sl}, xl[0] ** 2, sl + xl[1] ** 2, "x"), ({}, tm.ONE, Q(1, 4) + tm.ONE, "default")):
            del log[:]
            la.halfs = []
            val = it.call_method(gp, "compute_likelihood", [], dict(kwl))
            Kl = np.empty((n, n), dtype=object)
            for i in range(n):
                for l in range(n):
                    Kl[i, l] = s2 * Kcov[i, l] + f2 * (Kfull[i, l] - Kcov[i, l])
            ch = [e for e in log if e[0] == "cholesky"]
            sd = [e for e in log if e[0] == "slogdet"]
            okl = len(ch) == 1 and len(sd) == 1 and len(la.halfs) == 1
            ctx.holds("%s likelihood[%s]: one factorisation, one triangular solve, one log-determinant" % (tag, lab), okl, "%d %d %d" % (len(ch), len(sd), len(getattr(la, "halfs", []))), fql)
            if not okl:
                continue
            v, quad, Ah, yh = la.halfs[0]
            for i in range(n):
                ctx.equal("%s likelihood[%s]: solve is applied to the labels [%d]" % (tag, lab, i), H, yh[i], y[i], fql)
                for l in range(n):
                    ctx.equal("%s likelihood[%s]: K[%d,%d] = x0^2 Kcov + (sigma_min + x1^2)(K - Kcov)" % (tag, lab, i, l), H, ch[0][1][i, l], Kl[i, l], fql)
                    ctx.equal("%s likelihood[%s]: log det and solve use the same matrix [%d,%d]" % (tag, lab, i, l), H, sd[0][1][i, l], Ah[i, l], fql)
            want = -Q(1, 2) * tm.mk_add(*[v[i] * v[i] for i in range(n)]) - Q(1, 2) * tm.mk_fn("log", det(ch[0][1])) - Q(n, 2) * tm.mk_fn("log", 2 * tm.PI)
            ctx.equal("%s log marginal likelihood[%s] = -1/2 |L^-1 y|^2 - 1/2 log det K - n/2 log 2 pi   (|L^-1 y|^2 = y^T K^-1 y by the factor's contract)" % (tag, lab), H, val, want, fql)
    return run


def lik_value(v):
    return v


def replay_fit(nker, n, with_x):
    def replay(wit):
        from pyvc import native
        native.install_shim()
        from ciderpress.models.train import MOLGP
        rng = np.random.RandomState(6)
        M = 3

        class K(object):
            def __init__(self, comp):
                A = rng.rand(M, M)
                self.Kmm = A.dot(A.T) + 0.5 * np.eye(M)
                self.component = comp
                self.rxn_cov_list = [rng.rand(M) for _ in range(n)]
                self.alpha = None

            def get_kctrl(self):
                return self.Kmm
        ks = [K("x" if j == 0 else "c") for j in range(nker)]
        gp = MOLGP.__new__(MOLGP)
        gp.kernels, gp.numerical_epsilon = ks, 1e-9
        gp.rxn_noise_list = list(0.1 + rng.rand(n))
        gp.rxn_ref_list = list(rng.rand(n))
        x = np.array([1.4, 0.7]) if with_x else None
        gp.fit(x=x, sigma_min=0.3) if with_x else gp.fit()
        s, f = (x[0] ** 2, 0.3 + x[1] ** 2) if with_x else (1.0, 1.0)
        Kt = [k.Kmm + 1e-9 * np.eye(M) for k in ks]
        Kmn = [np.stack(k.rxn_cov_list).T for k in ks]
        Kcov = s * sum(Kmn[j].T.dot(np.linalg.solve(Kt[j], Kmn[j])) for j in range(nker))
        Kf = Kcov + np.diag(f * np.array(gp.rxn_noise_list) ** 2) + 1e-9 * np.eye(n)
        am = np.linalg.solve(Kf, np.array(gp.rxn_ref_list))
        err = max(float(np.max(np.abs(ks[j].alpha - s * np.linalg.solve(Kt[j], Kmn[j]).dot(am)))) for j in range(nker))
        return {"reproduced": bool(err > 1e-8), "max_abs_err_alpha": err}
    return replay


# ------------------------------------------------------------------ add_reactions / reset_reactions
def unit_reactions(ctx):
    it, mod, log = setup(ctx)
    M = 2
    fq = FQ("add_reactions", "reset_reactions")
    kx = abstract_kernel(it, mod, "kx", M, 0, "x")
    kc = abstract_kernel(it, mod, "kc", M, 0, "c")
    gp = new_molgp(it, mod, [kx, kc])
    systems = ["A", "B", "C"]
    for sname in systems:
        gp.fields["exx_ref_dict"][sname] = tm.var("exx_" + sname)
        gp.fields["ks_baseline_dict"][sname] = tm.var("ksb_" + sname)
        gp.fields["dexx_ref_dict"][sname] = {("O", 0): tm.var("dexx_" + sname)}
        for k, kn in ((kx, "x"), (kc, "c")):
            k.fields["cov_dict"][sname] = sym_array("cov%s_%s" % (kn, sname), (M,))
            k.fields["base_dict"][sname] = tm.var("base%s_%s" % (kn, sname))
            k.fields["dcov_dict"][sname] = {("O", 0): sym_array("dcov%s_%s" % (kn, sname), (M,))}
            k.fields["dbase_dict"][sname] = {("O", 0): tm.var("dbase%s_%s" % (kn, sname))}
    cA, cB, cC = tm.var("cA"), tm.var("cB"), tm.var("cC")
    E = tm.var("E")
    u = tm.var("unit")

    def rxns():
        return [
            (0, {"structs": ["A", "B"], "counts": [cA, cB]}),
            (2, {"structs": ["A", "C"], "counts": [cA, cC], "energy": E, "unit": u, "noise": tm.var("sig1")}),
            (2, {"structs": ["B"], "counts": [cB], "energy": E, "noise_factor": tm.var("nf"), "weight": tm.var("w")}),
            (0, {"structs": [("A", ("O", 0)), "C"], "counts": [cA, cC], "noise_rel_factor": tm.var("nrel")}),
            (0, {"structs": [("C", ("O", 0))], "counts": [cC], "noise_factor": tm.var("nf2")}),
        ]
    R = rxns()
    import copy
    before = [(m, {k: (list(v) if isinstance(v, list) else v) for k, v in r.items()}) for m, r in R]
    it.call_method(gp, "add_reactions", [R])
    n = len(R)
    ctx.holds("add_reactions: one label, one noise and one covariance row per kernel for each reaction (lock-step)",
              len(gp.fields["rxn_ref_list"]) == n and len(gp.fields["rxn_noise_list"]) == n and len(kx.fields["rxn_cov_list"]) == n and len(kc.fields["rxn_cov_list"]) == n,
              "%d %d %d %d" % (len(gp.fields["rxn_ref_list"]), len(gp.fields["rxn_noise_list"]), len(kx.fields["rxn_cov_list"]), len(kc.fields["rxn_cov_list"])), fq)
    # caller's dicts: only 'unit' may be defaulted
    for (m0, r0), (m1, r1) in zip(before, R):
        changed = [k for k in set(r0) | set(r1) if k != "unit" and (k not in r0 or k not in r1 or repr(r0[k]) != repr(r1[k]))]
        ctx.holds("add_reactions leaves the caller's reaction dict unchanged (apart from the documented default of 'unit') [mode %d, %s]" % (m0, r0["structs"]), not changed, "changed keys %s" % changed, fq,
                  replay=replay_readd())
    dn = gp.fields["default_noise"]
    kcal = Q("0.00159360109742136")
    ref = gp.fields["rxn_ref_list"]
    noi = gp.fields["rxn_noise_list"]
    g = gp.fields
    want_ref = [
        cA * g["exx_ref_dict"]["A"] + cB * g["exx_ref_dict"]["B"] - cA * kx.fields["base_dict"]["A"] - cB * kx.fields["base_dict"]["B"],
        E * u - cA * g["ks_baseline_dict"]["A"] - cC * g["ks_baseline_dict"]["C"] - cA * kx.fields["base_dict"]["A"] - cC * kx.fields["base_dict"]["C"]
        - cA * kc.fields["base_dict"]["A"] - cC * kc.fields["base_dict"]["C"],
        E * kcal - cB * g["ks_baseline_dict"]["B"] - cB * kx.fields["base_dict"]["B"] - cB * kc.fields["base_dict"]["B"],
        cA * g["dexx_ref_dict"]["A"][("O", 0)] + cC * g["exx_ref_dict"]["C"] - cA * kx.fields["dbase_dict"]["A"][("O", 0)] - cC * kx.fields["base_dict"]["C"],
        cC * g["dexx_ref_dict"]["C"][("O", 0)] - cC * kx.fields["dbase_dict"]["C"][("O", 0)],
    ]
    for r in range(5):
        ctx.equal("add_reactions label[%d] = reference - baselines with counts and unit" % r, [], ref[r], want_ref[r], fq)
    want_cov_x = [cA * kx.fields["cov_dict"]["A"] + cB * kx.fields["cov_dict"]["B"], cA * kx.fields["cov_dict"]["A"] + cC * kx.fields["cov_dict"]["C"], cB * kx.fields["cov_dict"]["B"],
                  cA * kx.fields["dcov_dict"]["A"][("O", 0)] + cC * kx.fields["cov_dict"]["C"], cC * kx.fields["dcov_dict"]["C"][("O", 0)]]
    want_cov_c = [None, cA * kc.fields["cov_dict"]["A"] + cC * kc.fields["cov_dict"]["C"], cB * kc.fields["cov_dict"]["B"], None, None]
    for r in range(n):
        for i in range(M):
            ctx.equal("add_reactions exchange covariance row %d[%d] = sum count * cov" % (r, i), [], kx.fields["rxn_cov_list"][r][i], want_cov_x[r][i], fq)
            wc = want_cov_c[r][i] if want_cov_c[r] is not None else tm.ZERO
            ctx.equal("add_reactions correlation covariance row %d[%d] (zero for exchange-only reactions)" % (r, i), [], kc.fields["rxn_cov_list"][r][i], wc, fq)
    absref3 = tm.mk_fn("abs", tm.lift(ref[3]))
    want_noise = [dn, tm.var("sig1"), tm.var("nf") * dn / tm.mk_sqrt(tm.var("w")), dn + tm.var("nrel") * absref3, tm.var("nf2") * dn]
    for r in range(n):
        ctx.equal("add_reactions noise[%d] (noise | noise_factor*default | default, + rel*|label|, / sqrt(weight))" % r, [tm.mk_lt(tm.ZERO, tm.var("w"))], noi[r], want_noise[r], fq)
    ctx.canary("add_reactions canary", [], ref[0], 2 * tm.lift(ref[0]) + 1)
    # unsupported modes
    for mode, exc in ((1, "NotImplementedError"), (3, "ValueError")):
        ps = all_paths(it, lambda: it.call_method(gp, "add_reactions", [[(mode, {"structs": ["A"], "counts": [cA], "energy": E})]]))
        ctx.holds("add_reactions rejects mode %d with %s and appends nothing" % (mode, exc), all(p[0] == "raise" and isinstance(p[1], ExcV) and p[1].cls.name == exc for p in ps) and len(gp.fields["rxn_ref_list"]) == n, "", fq)
    # reset + re-add the SAME dict objects reproduces the lists exactly; permuted order permutes them
    snap = ([tm.lift(x) for x in ref], [tm.lift(x) for x in noi], [[tm.lift(v) for v in row] for row in kx.fields["rxn_cov_list"]], [[tm.lift(v) for v in row] for row in kc.fields["rxn_cov_list"]])
    it.call_method(gp, "reset_reactions", [])
    ctx.holds("reset_reactions empties the label, noise and every kernel's covariance list", not gp.fields["rxn_ref_list"] and not gp.fields["rxn_noise_list"] and not kx.fields["rxn_cov_list"] and not kc.fields["rxn_cov_list"], "", fq)
    it.call_method(gp, "add_reactions", [R])
    same = all(a is tm.lift(b) for a, b in zip(snap[0], gp.fields["rxn_ref_list"])) and all(a is tm.lift(b) for a, b in zip(snap[1], gp.fields["rxn_noise_list"]))
    ctx.holds("reset_reactions + re-adding the same reaction objects reproduces labels and noises exactly", same and len(gp.fields["rxn_noise_list"]) == n,
              "noise now %s" % [tm.show(tm.lift(x), 60) for x in gp.fields["rxn_noise_list"]], fq, replay=replay_readd())
    perm = [3, 0, 4, 2, 1]
    it.call_method(gp, "reset_reactions", [])
    it.call_method(gp, "add_reactions", [[R[p] for p in perm]])
    okp = all(snap[0][p] is tm.lift(gp.fields["rxn_ref_list"][q]) and snap[1][p] is tm.lift(gp.fields["rxn_noise_list"][q]) and
              all(snap[2][p][i] is tm.lift(kx.fields["rxn_cov_list"][q][i]) and snap[3][p][i] is tm.lift(kc.fields["rxn_cov_list"][q][i]) for i in range(M)) for q, p in enumerate(perm))
    ctx.holds("adding the reactions in a permuted order permutes labels, noises and covariance rows (entry r depends on reaction r only)", okp, "", fq)
    # every value of the noise options is honoured, including 0 (a noiseless reaction) — on every path of the option parsing
    it.call_method(gp, "reset_reactions", [])
    zero = [(0, {"structs": ["A"], "counts": [cA], "noise": 0}), (0, {"structs": ["B"], "counts": [cB], "noise_factor": 0}),
            (0, {"structs": ["C"], "counts": [cC], "noise": Q(0)}), (0, {"structs": ["A"], "counts": [cA], "noise": tm.var("sig1"), "weight": tm.var("w")})]
    ps = all_paths(it, lambda: (it.call_method(gp, "reset_reactions", []), it.call_method(gp, "add_reactions", [zero]), list(gp.fields["rxn_noise_list"]))[2])
    ok = [p for p in ps if p[0] == "return"]
    ctx.holds("add_reactions with zero-valued noise options returns", len(ok) >= 1, "", fq)
    for k, (o, v, pc, _) in enumerate(ok):
        Hn = [tm.mk_lt(tm.ZERO, tm.var("w"))] + list(pc)
        for r, want in enumerate([tm.ZERO, tm.ZERO, tm.ZERO, tm.var("sig1") / tm.mk_sqrt(tm.var("w"))]):
            ctx.equal("add_reactions honours the noise option of reaction %d also when it is 0 (a noiseless reaction)#%d" % (r, k), Hn, v[r], want, fq, replay=replay_zero_noise())
    it.call_method(gp, "reset_reactions", [])


def replay_zero_noise():
    def replay(wit):
        from pyvc import native
        native.install_shim()
        from ciderpress.models.train import MOLGP

        class K(object):
            component = "x"
            Nctrl = 2

            def __init__(self):
                self.rxn_cov_list = []
                self.cov_dict = {"A": np.array([1.0, 2.0])}
                self.base_dict = {"A": 0.3}
        gp = MOLGP.__new__(MOLGP)
        gp.kernels, gp.default_noise = [K()], 0.03
        gp.exx_ref_dict, gp.ks_baseline_dict = {"A": -1.2}, {"A": 0.0}
        gp.rxn_ref_list, gp.rxn_noise_list = [], []
        try:
            gp.add_reactions([(0, {"structs": ["A"], "counts": [1.0], "noise": 0.0}), (0, {"structs": ["A"], "counts": [1.0], "noise_factor": 0.0})])
        except Exception as e:
            return {"reproduced": None, "error": "%s: %s" % (type(e).__name__, e)}
        return {"reproduced": bool(any(x != 0 for x in gp.rxn_noise_list)), "noises_for_noise=0_and_noise_factor=0": [float(x) for x in gp.rxn_noise_list]}
    return replay


def replay_readd():
    def replay(wit):
        from pyvc import native
        native.install_shim()
        from ciderpress.models.train import MOLGP

        class K(object):
            component = "x"
            Nctrl = 2

            def __init__(self):
                self.rxn_cov_list = []
                self.cov_dict = {"A": np.array([1.0, 2.0])}
                self.base_dict = {"A": 0.3}
        gp = MOLGP.__new__(MOLGP)
        gp.kernels, gp.default_noise = [K()], 0.03
        gp.exx_ref_dict, gp.ks_baseline_dict = {"A": -1.2}, {"A": 0.0}
        rx = [(0, {"structs": ["A"], "counts": [2.0], "weight": 4.0, "noise_rel_factor": 0.1})]
        gp.reset_reactions()
        gp.add_reactions(rx)
        first = list(gp.rxn_noise_list)
        gp.reset_reactions()
        gp.add_reactions(rx)
        second = list(gp.rxn_noise_list)
        return {"reproduced": bool(first != second or "noise" in rx[0][1]), "noise_first_add": first, "noise_after_reset_and_readd": second, "reaction_dict_keys": sorted(rx[0][1])}
    return replay


# ------------------------------------------------------------------ low-density mask of _compute_mol_covs
def unit_molcovs(mode):
    def run(ctx):
        it, mod, log = setup(ctx)
        fq = FQ("_compute_mol_covs")
        nspin, N0, ns, nctrl = 2, 2, 2, 2
        desc = sym_array("d", (nspin, N0, ns))
        wt = sym_array("w", (ns,))
        gp = new_molgp(it, mod, [])
        gp.fields["_get_normalized_features"] = Builtin("abs.norm", lambda d: d)     # identity normaliser: the mask reads X0T[:, 0] = density feature
        data = {"wt": wt, "desc": desc, "val": sym_array("val", (ns,)), "e_tot_orig": tm.var("etot"), "exc_orig": tm.var("exc")}
        gp.fields["load_data"] = Builtin("abs.load_data", lambda ddir, mol_id, god: dict(data))
        k = Obj(ClassV("_AbstractDFTKernel", [], mod))
        kv = sym_array("kv", (nctrl, nspin, ns)) if mode == "SEP" else sym_array("kv", (nctrl, ns))
        mv = sym_array("mv", (nspin, ns)) if mode == "SEP" else sym_array("mv", (ns,))
        av = sym_array("av", (nspin, ns)) if mode == "SEP" else sym_array("av", (ns,))
        dmv = sym_array("dmv", (nspin, N0, ns))
        k.fields.update({"mode": mode, "cov_dict": {}, "base_dict": {}, "dcov_dict": {}, "dbase_dict": {}})
        k.fields["multiplicative_baseline"] = Builtin("abs.mb", lambda X: (mv.copy(), dmv.copy()))
        k.fields["additive_baseline"] = Builtin("abs.ab", lambda X: (av.copy(), dmv.copy()))
        k.fields["get_k"] = Builtin("abs.get_k", lambda X: kv.copy())
        cut = tm.const(Q(1, 10 ** 6))
        paths = all_paths(it, lambda: it.call_method(gp, "_compute_mol_covs", [{"REF": "r"}, ["mol"], k], {"get_orb_deriv": False, "save_refs": False}))
        ret = [p for p in paths if p[0] == "return"]
        ctx.holds("_compute_mol_covs[%s] runs" % mode, len(ret) >= 1 and len(ret) == len(paths), "%s" % [(p[0], str(p[1])[:160]) for p in paths if p[0] != "return"][:2], fq)
        if not ret:
            return
        # the result may be split over paths by the sign of the cutoff comparison; express the expectation with ite and compare on every path
        for pi, p in enumerate(ret):
            pc = list(p[2])
            cov = k.fields["cov_dict"].get("mol") if len(ret) == 1 else None
            if cov is None:
                ctx.undecided("_compute_mol_covs[%s] single symbolic path" % mode, "path splitting on the cutoff comparison", fq)
                return
            for c in range(nctrl):
                parts = []
                for g in range(ns):
                    if mode == "SEP":
                        for s in range(nspin):
                            below = tm.mk_lt(desc[s, 0, g], cut)
                            parts.append(tm.mk_ite(below, tm.ZERO, wt[g] * kv[c, s, g] * mv[s, g]))
                    else:
                        below = tm.mk_lt(desc[0, 0, g] + desc[1, 0, g], cut)
                        parts.append(tm.mk_ite(below, tm.ZERO, wt[g] * kv[c, g] * mv[g]))
                ctx.equal("_compute_mol_covs[%s] covariance[%d] = sum_g w_g k_g m_g over points whose %s density is at least 1e-6" % (mode, c, "per-spin" if mode == "SEP" else "total"),
                          pc, cov[c], tm.mk_add(*parts), fq, replay=replay_mask(mode))
            base = k.fields["base_dict"]["mol"]
            parts = []
            for g in range(ns):
                if mode == "SEP":
                    for s in range(nspin):
                        parts.append(tm.mk_ite(tm.mk_lt(desc[s, 0, g], cut), tm.ZERO, wt[g] * av[s, g]))
                else:
                    parts.append(tm.mk_ite(tm.mk_lt(desc[0, 0, g] + desc[1, 0, g], cut), tm.ZERO, wt[g] * av[g]))
            ctx.equal("_compute_mol_covs[%s] baseline integral with the same mask" % mode, pc, base, tm.mk_add(*parts), fq, replay=replay_mask(mode))
    return run


def unit_molcovs2(mode):
    """MOLGP2._compute_mol_covs (the second implementation, libxc-style baselines on the density tuple): a grid point contributes to the covariance and
    baseline integrals unless its density is negligible — per channel in SEP mode; in NPOL / POL mode only when BOTH spin densities are below 1e-6
    (a fully polarised system must not be wiped out)."""
    def run(ctx):
        it, mod, log = setup(ctx)
        fq = ["ciderpress.models.train:MOLGP2._compute_mol_covs"]
        nspin, N0, ns, nctrl = 2, 2, 2, 2
        desc = sym_array("d", (nspin, N0, ns))
        rho = sym_array("r", (nspin, 5, ns))
        wt = sym_array("w", (ns,))
        gp = Obj(mod.ns["MOLGP2"])
        mk = lambda name, **f: (lambda o: (o.fields.update(f), o)[1])(Obj(ClassV(name, [], mod)))
        gp.fields.update({"kernels": [], "exx_ref_dict": {}, "dexx_ref_dict": {}, "ks_baseline_dict": {}, "settings": mk("_S", sl_settings=mk("_SL", level="MGGA"))})
        gp.fields["_get_normalized_features"] = Builtin("abs.norm", lambda d: d)
        data = {"wt": wt, "nspin": 1, "desc": desc, "rho_data": rho, "val": sym_array("val", (ns,)), "e_tot_orig": tm.var("etot"), "exc_orig": tm.var("exc")}
        gp.fields["load_data"] = Builtin("abs.load_data", lambda ddir, mol_id, god: dict(data))
        k = Obj(ClassV("_AbstractDFTKernel2", [], mod))
        kv = sym_array("kv", (nctrl, nspin, ns)) if mode == "SEP" else sym_array("kv", (nctrl, ns))
        mv = sym_array("mv", (nspin, ns)) if mode == "SEP" else sym_array("mv", (ns,))
        av = sym_array("av", (nspin, ns)) if mode == "SEP" else sym_array("av", (ns,))
        vr, vs, vt = sym_array("vr", (nspin, ns)), sym_array("vs", (2 * nspin - 1, ns)), sym_array("vt", (nspin, ns))
        k.fields.update({"mode": mode, "cov_dict": {}, "base_dict": {}, "dcov_dict": {}, "dbase_dict": {}})
        k.fields["multiplicative_baseline"] = Builtin("abs.mb", lambda rt: (mv.copy(), vr.copy(), vs.copy(), vt.copy()))
        k.fields["additive_baseline"] = Builtin("abs.ab", lambda rt: (av.copy(), vr.copy(), vs.copy(), vt.copy()))
        k.fields["get_k"] = Builtin("abs.get_k", lambda X: kv.copy())
        cut = tm.const(Q(1, 10 ** 6))
        it.hyps = []
        try:
            paths = all_paths(it, lambda: it.call_method(gp, "_compute_mol_covs", [{"REF": "r"}, ["mol"], k], {"get_orb_deriv": False, "save_refs": False}))
        except Unsupported as e:
            ctx.undecided("MOLGP2._compute_mol_covs[%s] runs" % mode, str(e)[:200], fq)
            return
        ret = [p for p in paths if p[0] == "return"]
        ctx.holds("MOLGP2._compute_mol_covs[%s] runs" % mode, len(ret) == 1 and len(paths) == 1, "%s" % [(p[0], str(p[1])[:160]) for p in paths if p[0] != "return"][:2], fq)
        if len(ret) != 1:
            return
        pc = list(ret[0][2])
        cov = k.fields["cov_dict"]["mol"]
        base = k.fields["base_dict"]["mol"]
        for c in range(nctrl):
            parts = []
            for g in range(ns):
                if mode == "SEP":
                    for s_ in range(nspin):
                        parts.append(tm.mk_ite(tm.mk_lt(rho[s_, 0, g], cut), tm.ZERO, wt[g] * kv[c, s_, g] * mv[s_, g]))
                else:
                    both = tm.mk_and(tm.mk_lt(rho[0, 0, g], cut), tm.mk_lt(rho[1, 0, g], cut))
                    parts.append(tm.mk_ite(both, tm.ZERO, wt[g] * kv[c, g] * mv[g]))
            ctx.equal("MOLGP2._compute_mol_covs[%s] covariance[%d]: a point is dropped only when %s" % (mode, c, "that channel's density is below 1e-6" if mode == "SEP" else "both spin densities are below 1e-6"),
                      pc, cov[c], tm.mk_add(*parts), fq, replay=replay_mask(mode))
        parts = []
        for g in range(ns):
            if mode == "SEP":
                for s_ in range(nspin):
                    parts.append(tm.mk_ite(tm.mk_lt(rho[s_, 0, g], cut), tm.ZERO, wt[g] * av[s_, g]))
            else:
                parts.append(tm.mk_ite(tm.mk_and(tm.mk_lt(rho[0, 0, g], cut), tm.mk_lt(rho[1, 0, g], cut)), tm.ZERO, wt[g] * av[g]))
        ctx.equal("MOLGP2._compute_mol_covs[%s] baseline integral with the same mask" % mode, pc, base, tm.mk_add(*parts), fq, replay=replay_mask(mode))
    return run


def unit_kernel_history(mode):
    """History invariance at the kernel object the weights formula reads K_mm from: DFTKernel.get_kctrl is a function of the CURRENT kernel and control
    points — after set_kernel (hyper-parameters changed between two fits) it must not return the matrix of the previous kernel."""
    def run(ctx):
        it, mod, log = setup(ctx)
        DMOD = "ciderpress.models.dft_kernel"
        dm = it.load_module(DMOD)
        fq = [DMOD + ":DFTKernel.__init__", DMOD + ":DFTKernel.get_kctrl", DMOD + ":DFTKernel.set_kernel"]
        nf, nctrl = 2, 2
        pol = mode == "POL"

        def sym_kernel(name):
            def ksym(Xa, Ya=None, eval_gradient=False):
                Yv = Xa if Ya is None else Ya
                out = np.empty((Xa.shape[0], Yv.shape[0]), dtype=object)
                for i in range(Xa.shape[0]):
                    for j in range(Yv.shape[0]):
                        a_, b_ = [tm.lift(v) for v in Xa[i]], [tm.lift(v) for v in Yv[j]]
                        if [u.id for u in a_] > [u.id for u in b_]:
                            a_, b_ = b_, a_
                        out[i, j] = tm.mk_fn(name, *(a_ + b_))
                return out
            S = Obj(ClassV("_AbstractSymKernel", [], dm))
            S.fields["__call__"] = Builtin("abs." + name, ksym)
            return S, (lambda x, y: ksym(np.array([x], dtype=object), np.array([y], dtype=object))[0, 0])
        S1, K1 = sym_kernel("KOLD")
        S2, K2 = sym_kernel("KNEW")
        fl = Obj(ClassV("_FL", [], dm))
        fl.fields["nfeat"] = nf
        try:
            dk = it.call(dm.ns["DFTKernel"], [S1, fl, mode, None], {})
        except (Unsupported, PyRaise) as e:
            ctx.undecided("DFTKernel[%s] constructed" % mode, str(e)[:200], fq)
            return
        Xc = sym_array("c", (2, nctrl, nf)) if pol else sym_array("c", (nctrl, nf))
        Xd = sym_array("e", (2, nctrl, nf)) if pol else sym_array("e", (nctrl, nf))

        def want(K, X):
            W = np.empty((nctrl, nctrl), dtype=object)
            for c in range(nctrl):
                for d in range(nctrl):
                    if pol:
                        W[c, d] = K(X[0, c], X[0, d]) * K(X[1, c], X[1, d]) + K(X[0, c], X[1, d]) * K(X[1, c], X[0, d])
                    else:
                        W[c, d] = K(X[c], X[d])
            return W
        steps = [("initial kernel and control points", S1, K1, Xc, None), ("after set_kernel(new kernel)", S2, K2, Xc, "kernel"),
                 ("after the control points were replaced", S2, K2, Xd, "points"), ("after set_kernel(back to the first kernel)", S1, K1, Xd, "kernel")]
        dk.fields["X1ctrl"] = Xc
        for label, S, K, X, what in steps:
            if what == "kernel":
                it.call_method(dk, "set_kernel", [S])
            elif what == "points":
                # the documented way to replace control points without re-running the selection: assign and invalidate exactly as set_control_points ends
                dk.fields["X1ctrl"] = X
                if "Kmm" in dk.fields:
                    dk.fields["Kmm"] = None
            Kmm = np.asarray(it.call_method(dk, "get_kctrl", []), dtype=object)
            W = want(K, X)
            for c in range(nctrl):
                for d in range(nctrl):
                    ctx.equal("DFTKernel[%s].get_kctrl %s: entry [%d,%d] is computed from the current kernel and control points" % (mode, label, c, d), [], Kmm[c, d], W[c, d], fq,
                              replay=replay_kernel_history(mode))
        ctx.canary("DFTKernel[%s] history canary (old and new kernel differ)" % mode, [], want(K1, Xc)[0, 1], want(K2, Xc)[0, 1])
    return run


def replay_kernel_history(mode="NPOL"):
    def replay(wit):
        """Native: control-point covariance after set_kernel, against the documented formula with the CURRENT kernel and control points (POL: spin-polarised control
        points, k_aa k_bb + k_ab k_ba)."""
        from pyvc import native
        native.install_shim()
        from sklearn.gaussian_process.kernels import RBF
        from ciderpress.models.dft_kernel import DFTKernel

        class FL(object):
            nfeat = 2
        dk = DFTKernel(RBF(1.0), FL(), mode, None)
        rng = np.random.RandomState(2)
        dk.X1ctrl = rng.rand(2, 3, 2) if mode == "POL" else np.array([[0.0, 0.0], [1.0, 0.5]])
        k_old = dk.get_kctrl().copy()
        dk.set_kernel(RBF(0.3))
        k_new = dk.get_kctrl()
        K = RBF(0.3)
        if mode == "POL":
            a, b = dk.X1ctrl
            ref = K(a, a) * K(b, b) + K(a, b) * K(b, a)
        else:
            ref = K(dk.X1ctrl, dk.X1ctrl)
        return {"reproduced": bool(np.max(np.abs(k_new - ref)) > 1e-12), "mode": mode, "K01_old_kernel": float(k_old[0, 1]), "K01_returned_after_set_kernel": float(k_new[0, 1]),
                "K01_of_the_new_kernel": float(ref[0, 1]), "max |Kmm - formula|": float(np.max(np.abs(k_new - ref)))}
    return replay


def replay_mask(mode):
    def replay(wit):
        return {"reproduced": None, "note": "_compute_mol_covs reads hdf5 training data; the engine's counterexample is a density pattern (one spin channel below 1e-6, total above) — see the witness"}
    return replay


def units():
    u = [("reactions", unit_reactions)]
    for nker, n, wx in ((1, 2, False), (1, 2, True), (2, 2, True), (2, 2, False), (1, 3, False)):
        u.append(("fit/k%d/n%d/%s" % (nker, n, "x" if wx else "nox"), unit_fit(nker, n, wx)))
    for mode in ("NPOL", "POL"):
        u.append(("kernel-history/" + mode, unit_kernel_history(mode)))
    for mode in ("SEP", "NPOL", "POL"):
        u.append(("molcovs/" + mode, unit_molcovs(mode)))
        u.append(("molcovs2/" + mode, unit_molcovs2(mode)))
    return u


EXPLANATION = (
    "MOLGP.fit, compute_likelihood, add_reactions, reset_reactions and the masking clause of _compute_mol_covs are executed symbolically on the real "
    "source with LAPACK replaced by its contract (exact small-matrix algebra over symbolic entries).  The stored weights are proved equal to the "
    "documented system with its explicit jitter, the residual identity and the likelihood formula hold, reactions are recorded in lock-step and each "
    "entry depends on its own reaction only (so permutation / reset + re-add invariance follow, and are checked directly), and weights are invariant "
    "under permuting the reactions.  Dimensions are fixed small (2 control points, 2-3 reactions, 1-2 kernels) with all entries symbolic: the code is "
    "shape-generic numpy, but this is a proof per dimension, not for all dimensions.")
TRUSTED = [
    "A1 reals; A3/A4 numpy/Python model",
    "LAPACK contract (cholesky / cho_solve / solve / slogdet) on SPD input; SPD-ness of Kmm + eps I and of the reaction matrix is the caller's domain (not proved)",
    "bounded in dimension: M = 2 control points, n in {2, 3} reactions, 1-2 kernels; entries symbolic",
    "DFTKernel.get_kctrl / cov_dict / base_dict are the C15 / C04 contracts (abstract symbols here); hdf5 I/O of load_data is outside the check",
]

if __name__ == "__main__":
    sys.exit(run_property("C16", "other", units(), EXPLANATION, TRUSTED, min_obligations=100))
