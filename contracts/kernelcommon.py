"""Shared by C15 / C11 / C16: interpreter set-up for ciderpress.models.kernels (sklearn bases replaced by their assumed
contract model specs/models/sklearn_gp_kernels.py), constructor recipes (the `requires` of each kernel class: hyper-parameter
domains from the declared bounds), and small helpers."""
import itertools
import math
import os
from fractions import Fraction as Q

import numpy as np

from pyvc import terms as tm
from pyvc.interp import Interp, Obj, ClassV, Builtin, PyRaise, Unsupported, ExcV
from contracts.common import sym_array, all_paths

VERIF = os.path.dirname(os.path.dirname(os.path.abspath(__file__)))
KMOD = "ciderpress.models.kernels"
SK_MODEL = os.path.join(VERIF, "specs", "models", "sklearn_gp_kernels.py")
SK_ASSUMPTION = ("sklearn.gaussian_process.kernels (RBF, ConstantKernel, WhiteKernel, DotProduct, Sum, Product, Exponentiation, Hyperparameter, "
                 "Kernel.hyperparameters ordering) behave as documented: assumed contract model specs/models/sklearn_gp_kernels.py "
                 "(formulas and log-theta gradient convention from the scikit-learn documentation)")


def setup_interp(it):
    it.model_paths["sklearn.gaussian_process.kernels"] = SK_MODEL
    it.externals["scipy.special.comb"] = lambda interp, n, k, exact=False: math.comb(int(n), int(k))
    it.externals["itertools.combinations"] = lambda interp, seq, r: [tuple(c) for c in itertools.combinations(list(interp.iterate(seq)), int(r))]
    return it.load_module(KMOD)


def pos(v):
    return tm.mk_lt(tm.ZERO, v)


def obj_list(xs):
    a = np.empty(len(xs), dtype=object)
    for i, x in enumerate(xs):
        a[i] = x
    return a


class Recipe(object):
    """One configuration of one kernel class: how to construct it with symbolic hyper-parameters."""

    def __init__(self, name, cls, nfeat, build, hparams, hyps, order=None, note=""):
        self.name, self.cls, self.nfeat, self.build, self.hparams, self.hyps, self.order, self.note = name, cls, nfeat, build, hparams, hyps, order, note


def leaf_recipes(max_order=4):
    """Constructor recipes for the leaf kernel classes of ciderpress.models.kernels.
    hparams: {hyperparameter name: (list of symbols, attribute bounds kwarg)} — only those that are sklearn hyper-parameters."""
    R = []

    def ls(n, iso):
        if iso:
            l = tm.var("l")
            return l, [l]
        v = [tm.var("l%d" % i) for i in range(n)]
        return obj_list(v), v

    for iso in (False, True):
        nf = 3
        l, lv = ls(nf, iso)
        tag = "iso" if iso else "aniso"
        R.append(Recipe("DiffRBF/" + tag, "DiffRBF", nf, (lambda l=l: ([], {"length_scale": l})), {"length_scale": (lv, "length_scale_bounds")}, [pos(x) for x in lv]))
    l, lv = ls(3, False)
    R.append(Recipe("DiffAntisymRBF", "DiffAntisymRBF", 4, (lambda l=l: ([], {"length_scale": l})), {"length_scale": (lv, "length_scale_bounds")}, [pos(x) for x in lv]))
    R.append(Recipe("DiffLinearKernel", "DiffLinearKernel", 3, (lambda: ([], {})), {}, []))
    c = tm.var("c0")
    R.append(Recipe("DiffConstantKernel", "DiffConstantKernel", 3, (lambda: ([], {"constant_value": c})), {"constant_value": ([c], "constant_value_bounds")}, [pos(c)]))
    w = tm.var("w0")
    R.append(Recipe("DiffWhiteKernel", "DiffWhiteKernel", 3, (lambda: ([], {"noise_level": w})), {"noise_level": ([w], "noise_level_bounds")}, [pos(w)]))
    for order in range(1, 7):
        for fact in (True, False):
            for iso in (True, False):
                if not iso and order > 3:
                    continue
                nf = 3
                if iso:
                    g = tm.var("g")
                    gv = [g]
                else:
                    gv = [tm.var("g%d" % i) for i in range(nf)]
                    g = obj_list(gv)
                R.append(Recipe("DiffPolyKernel/o%d/%s/%s" % (order, "fact" if fact else "nofact", "iso" if iso else "aniso"), "DiffPolyKernel", nf,
                                (lambda g=g, order=order, fact=fact: ([], {"gamma": g, "order": order, "factorial": fact})),
                                {"gamma": (gv, "gamma_bounds")}, [pos(x) for x in gv], order=order))
    for cls in ("DiffARBF", "DiffARBFV2", "DiffAddLLRBF", "DiffAddRQ"):
        for order in range(1, max_order + 1):
            for iso in (False, True):
                if iso and order not in (2,):
                    continue
                nf = max(3, order)
                l, lv = ls(nf, iso)
                sv = [tm.var("s%d" % i) for i in range(order + 1)]
                kw = {"order": order, "length_scale": l, "scale": list(sv)}
                hy = [pos(x) for x in lv] + [pos(x) for x in sv]
                if cls in ("DiffAddLLRBF", "DiffAddRQ"):
                    a = tm.var("alpha")
                    kw["alpha"] = a
                    hy.append(pos(a))
                R.append(Recipe("%s/o%d/%s" % (cls, order, "iso" if iso else "aniso"), cls, nf, (lambda kw=kw: ([], dict(kw))),
                                {"length_scale": (lv, "length_scale_bounds"), "scale": (sv, "scale_bounds")}, hy, order=order))
    return R


def construct(it, mod, recipe, fixed=()):
    args, kw = recipe.build()
    kw = dict(kw)
    for hp in fixed:
        kw[recipe.hparams[hp][1]] = "fixed"
    return it.call(mod.ns[recipe.cls], list(args), kw)


def returned(paths):
    """(value, pc) of the returning paths; raising paths listed separately."""
    ret = [(p[1], p[2]) for p in paths if p[0] == "return"]
    exc = [p for p in paths if p[0] != "return"]
    return ret, exc


def exc_name(p):
    e = p[1]
    return e.cls.name if isinstance(e, ExcV) else str(e)
