"""C12 — feature transforms and normalisers have derivatives matching their values.

Contracts (sidecar; the functions are read from /repo at run time):

  for every class K in ciderpress.dft.transform_data:ALL_CLASSES, every coincidence pattern of its index
  fields, all parameter values in the class's domain:
    K.fill_feat_(y, x)            ensures y[s] = F_K(x[:, s])  (a function of sample s only; y fully overwritten)
                                  assigns y only
    K.fill_deriv_(dfdx, dfdy, x)  ensures for every raw index r (touched or not), every sample s:
                                      dfdx[r, s] = old(dfdx[r, s]) + dfdy[s] * d F_K / d x[r, s]
                                  assigns dfdx only
  where d F_K/dx is obtained by differentiating the *term the engine got from executing fill_feat_*.

  FeatureList.fill_vals_/fill_derivs_/__call__: additivity over the list (maps are abstract, given by the
  contract above).

  normalisers (4 classes): fill_fwd value N(x, rho, inh); fill_bwd = reverse-mode of N; get_normed_feature_deriv
  = forward-mode of N.  FeatNormalizerList (4 slmodes): get_derivative_wrt_unnormed_features is the transpose of
  the Jacobian of get_normalized_feature_vector (including the rho / inh paths); get_derivative_of_normed_features
  is that Jacobian applied to the tangent; hence the two are transposes.
"""
import ast
import sys
import os

sys.path.insert(0, os.path.dirname(os.path.dirname(os.path.abspath(__file__))))

import warnings
import numpy as np
from fractions import Fraction as Q

warnings.filterwarnings("ignore")

from pyvc import terms as tm
from pyvc import vc, smt
from pyvc.nf import NF, NFError
from pyvc.framework import run_property
from contracts.common import *

MOD = "ciderpress.dft.transform_data"
NMOD = "ciderpress.dft.feat_normalizer"
INDEX_NAMES = ("i", "j", "k", "l", "i_n", "i_s", "i_alpha")


def class_names():
    """The registered classes, read from the repository table (not a hand-written list)."""
    it = Interp(os.environ.get("CIDERPRESS_REPO", "/repo"))
    m = it.load_module(MOD)
    return [c.name for c in m.ns["ALL_CLASSES"]]


def param_domain(clsname, name, v):
    if name.startswith("gamma"):
        return [tm.mk_lt(tm.ZERO, v)]
    if clsname == "OmegaMap":
        if name == "c":
            return [tm.mk_lt(tm.ZERO, v)]
        if name in ("B", "C"):
            return [tm.mk_lt(tm.ZERO, v)]
    return []


def clamp_inactive_hyps(terms_, xvars):
    """D-spec is stated where no clamp (np.maximum/np.clip against a constant) is active (DESIGN 5.C12 domain)."""
    hyps = []
    for t in terms_:
        for g in tm.ite_conditions(tm.lift(t)):
            if g.op in ("<", "<="):
                a, b = g.args
                if a in xvars and b.op == "c":      # guard  x < c  (max: clamp active when true; min: active when false)
                    pass
                elif b in xvars and a.op == "c":
                    pass
                else:
                    continue
                hyps.append(g)
    return hyps


def native_map(clsname, args):
    import ciderpress.dft.transform_data as td
    return getattr(td, clsname)(*args)


def unit_map(clsname):
    def run(ctx):
        it = ctx.interp
        mod = it.load_module(MOD)
        cls = mod.ns[clsname]
        names, defaults = init_params(cls)
        idx_names = [n for n in names if n in INDEX_NAMES]
        real_names = [n for n in names if n not in INDEX_NAMES and n != "bounds"]
        pvars = {n: tm.var("p_" + n) for n in real_names}
        phyps = []
        for n in real_names:
            phyps += param_domain(clsname, n, pvars[n])
        fq = ["%s:%s.fill_feat_" % (MOD, clsname), "%s:%s.fill_deriv_" % (MOD, clsname)]
        n_patterns = 0
        for part in set_partitions(idx_names):
            n_patterns += 1
            nblocks = max(part.values()) + 1 if part else 0
            nraw = nblocks + 2
            tag = "pat[" + ",".join("%s=%d" % (n, part[n]) for n in idx_names) + "]"
            args = [part[n] if n in part else pvars[n] for n in names if n != "bounds"]
            obj = it.call(cls, args, {})
            x0 = sym_array("x", (nraw, NS))
            yold = sym_array("yold", (NS,))
            dold = sym_array("dold", (nraw, NS))
            g0 = sym_array("g", (NS,))
            xvars = set(x0.reshape(-1))

            def run_value():
                y, x = yold.copy(), x0.copy()
                it.call_method(obj, "fill_feat_", [y, x])
                return y, x

            def run_deriv():
                d, g, x = dold.copy(), g0.copy(), x0.copy()
                it.call_method(obj, "fill_deriv_", [d, g, x])
                return d, g, x
            vpaths = all_paths(it, run_value)
            dpaths = all_paths(it, run_deriv)
            for vi, (vo, vval, vpc, _) in enumerate(vpaths):
                if vo != "return":
                    # a raising path of the value routine: outside the domain (e.g. zero-size input)
                    continue
                y, xv = vval
                # ---- frame + totality of fill_feat_
                ctx.holds("%s/value.frame-x#%d" % (tag, vi), same_elements(xv, x0), "fill_feat_ must not write x", fq[:1])
                dep = [u.args[0] for s in range(NS) for u in tm.free_vars(tm.lift(y[s])) if u.args[0].startswith("yold") or u.args[0].startswith("uninit")]
                ctx.holds("%s/value.overwrites-y#%d" % (tag, vi), not dep, "y depends on its old content: %s" % dep, fq[:1])
                # ---- pointwise in the sample index
                cross = [(s, r, s2) for s in range(NS) for r in range(nraw) for s2 in range(NS) if s2 != s
                         and x0[r, s2] in tm.subterms(tm.lift(y[s])).values()]
                ctx.holds("%s/value.pointwise#%d" % (tag, vi), not cross, "y[s] reads another sample: %s" % cross[:3], fq[:1])
                # ---- domain: clamps inactive, definedness side conditions
                hyps = list(phyps) + list(vpc)
                clamp = []
                for g in clamp_inactive_hyps(list(y), xvars):
                    a, b = g.args
                    # np.maximum(x, c) = ite(x < c, c, x): inactive iff x > c ;  np.minimum/clip upper: ite(c < x, c, x): inactive iff x < c
                    if a in xvars:
                        clamp.append(tm.mk_lt(b, a))
                    else:
                        clamp.append(tm.mk_lt(b, a))
                hyps += list(dict.fromkeys(clamp))
                ys = [vc.simplify_ite(hyps, y[s]) for s in range(NS)]
                if clsname == "OmegaMap":
                    hyps += omega_domain(ys, x0, part, pvars)
                    ys = [vc.simplify_ite(hyps, t) for t in ys]
                if clamp:
                    ctx.assume("C12 domain of %s: clamps inactive %s" % (clsname, sorted(set(tm.show(h, 60).replace("_0", "_s").replace("_1", "_s") for h in clamp))))
                for di, (do, dval, dpc, _) in enumerate(dpaths):
                    if do != "return":
                        H = hyps + list(dpc)
                        ok, _ = smt.feasible(H, 3.0)
                        ctx.holds("%s/deriv.total#%d.%d" % (tag, vi, di), not ok,
                                  "fill_deriv_ raises %s inside the domain of fill_feat_" % (dval,), fq[1:])
                        continue
                    d, g, xd = dval
                    H = hyps + list(dpc)
                    ctx.holds("%s/deriv.frame-x#%d.%d" % (tag, vi, di), same_elements(xd, x0), "fill_deriv_ must not write x", fq[1:])
                    ctx.holds("%s/deriv.frame-dfdy#%d.%d" % (tag, vi, di), same_elements(g, g0), "fill_deriv_ must not write dfdy", fq[1:])
                    first_nonzero = None
                    for r in range(nraw):
                        for s in range(NS):
                            dy = tm.diff(ys[s], x0[r, s])
                            expect = dold[r, s] + g0[s] * dy
                            if dy is not tm.ZERO and first_nonzero is None:
                                first_nonzero = (r, s, dy)
                            ctx.equal("%s/dspec[r=%d,s=%d]#%d.%d" % (tag, r, s, vi, di), H, d[r, s], expect, fq,
                                      replay=make_map_replay(clsname, names, part, nraw, r, s))
                    if first_nonzero is not None and nblocks == len(idx_names):
                        r, s, dy = first_nonzero
                        ctx.canary("%s/canary-2x[r=%d]" % (tag, r), H, d[r, s], dold[r, s] + 2 * g0[s] * dy)
                        ctx.canary("%s/canary-drop[r=%d]" % (tag, r), H, d[r, s], dold[r, s])
            # ---- conformance of the engine's model against native execution (first pattern only: same code)
            if nblocks == len(idx_names):
                conformance_map(ctx, clsname, names, part, nraw, pvars, phyps, vpaths, dpaths, x0, yold, dold, g0)
    return run


def omega_domain(ys, x0, part, pvars):
    """Domain of OmegaMap: n > 1e-10, |s2|, |alpha| < 1e10, inner term and denominator above their 1e-10 floors."""
    h = []
    big = tm.const(10 ** 10)
    tiny = tm.const(Q(1, 10 ** 10))
    i_n, i_s, i_a = part["i_n"], part["i_s"], part["i_alpha"]
    B, C, c = pvars["B"], pvars["C"], pvars["c"]
    for s in range(NS):
        n, s2, al = x0[i_n, s], x0[i_s, s], x0[i_a, s]
        h += [tm.mk_lt(tiny, n), tm.mk_lt(-big, s2), tm.mk_lt(s2, big), tm.mk_lt(-big, al), tm.mk_lt(al, big)]
        if i_s == i_a:
            inner = B + C * (al + Q(5, 3) * s2)
        else:
            inner = B + C * (al + Q(5, 3) * s2)
        h += [tm.mk_lt(tiny, inner)]
    return h


def _native_inputs(names, part, nraw, env, NSn):
    args = []
    for n in names:
        if n == "bounds":
            continue
        if n in part:
            args.append(part[n])
        else:
            args.append(env.get("p_" + n, 1.0))
    x = np.zeros((nraw, NSn))
    for r in range(nraw):
        for s in range(NSn):
            x[r, s] = env.get("x_%d_%d" % (r, s), 0.37 + 0.11 * r + 0.05 * s)
    return args, x


def make_map_replay(clsname, names, part, nraw, r, s):
    def replay(wit):
        env = env_floats(wit or {})
        args, x = _native_inputs(names, part, nraw, env, NS)
        obj = native_map(clsname, args)

        def val(xx):
            xc = x.copy()
            xc[r, s] = xx
            y = np.zeros(NS)
            obj.fill_feat_(y, xc)
            return y[s]
        fd = central_diff(val, x[r, s], h=1e-5 * max(1.0, abs(x[r, s])))
        # the accumulation contract is part of the clause: start from the witness' old(dfdx) and seed dfdy
        dfdx = np.array([[env.get("dold_%d_%d" % (rr, ss), 0.25 + 0.1 * rr) for ss in range(NS)] for rr in range(nraw)])
        dfdy = np.array([env.get("g_%d" % ss, 1.0) for ss in range(NS)])
        if abs(dfdy[s]) < 1e-3:
            dfdy[s] = 1.0
        old = dfdx[r, s]
        obj.fill_deriv_(dfdx, dfdy.copy(), x.copy())
        code = dfdx[r, s]
        expect = old + dfdy[s] * fd
        rep = abs(code - expect) > 1e-6 * (1 + abs(expect))
        return {"reproduced": bool(rep), "class": clsname, "ctor_args": args, "x": x.tolist(), "raw_index": r, "sample": s,
                "old_dfdx": float(old), "dfdy": float(dfdy[s]), "dfdx_after_fill_deriv_": float(code),
                "old_plus_dfdy_times_finite_difference_of_fill_feat_": float(expect)}
    return replay


def conformance_map(ctx, clsname, names, part, nraw, pvars, phyps, vpaths, dpaths, x0, yold, dold, g0):
    n = 20 if ctx.tier == "quick" else 200
    variables = list(x0.reshape(-1)) + list(pvars.values()) + list(dold.reshape(-1)) + list(g0) + list(yold)
    xh = [tm.mk_lt(tm.const(Q(1, 100)), v) for v in x0.reshape(-1)] + [tm.mk_lt(v, tm.const(3)) for v in x0.reshape(-1)]
    ok_all, detail, done = True, "", 0
    for _ in range(n):
        env = vc.sample_env(variables, phyps + xh, ctx.rng)
        if env is None:
            break
        fenv = env_floats(env)
        args, x = _native_inputs(names, part, nraw, fenv, NS)
        try:
            obj = native_map(clsname, args)
            y = np.array([fenv["yold_%d" % s] for s in range(NS)])
            obj.fill_feat_(y, x.copy())
            d = np.array([[fenv["dold_%d_%d" % (r, s)] for s in range(NS)] for r in range(nraw)])
            g = np.array([fenv["g_%d" % s] for s in range(NS)])
            obj.fill_deriv_(d, g.copy(), x.copy())
        except Exception as e:
            ok_all, detail = False, "native raised %s" % e
            break
        # pick the symbolic path whose path condition holds
        sy = sd = None
        for vo, vval, vpc, _ in vpaths:
            if vo == "return" and all(tm.evaluate(c, fenv) for c in vpc):
                sy = eval_array(vval[0], fenv)
        for do, dval, dpc, _ in dpaths:
            if do == "return" and all(tm.evaluate(c, fenv) for c in dpc):
                sd = eval_array(dval[0], fenv)
        if sy is None or sd is None or not close(sy, y) or not close(sd, d):
            ok_all, detail = False, "symbolic %s / %s vs native %s / %s at %s" % (sy, sd, y, d, fenv)
            break
        done += 1
    ctx.conformance("%s/conformance" % clsname, ok_all and done > 0, detail or "%d samples agree" % done)


# ---------------------------------------------------------------------------------- FeatureList
def unit_featlist(ctx):
    """Additivity over the list: maps are abstract (uninterpreted F_t with partials D_r F_t), per the class contract."""
    it = ctx.interp
    mod = it.load_module(MOD)
    FL = mod.ns["FeatureList"]
    fq = ["%s:FeatureList.%s" % (MOD, n) for n in ("fill_vals_", "fill_derivs_", "__call__")]
    # the loop bodies may use the loop variable only to select element i (uniform body => induction over the list)
    for name in ("fill_vals_", "fill_derivs_", "__call__"):
        f, _ = FL.lookup(name)
        loops = [n for n in ast.walk(f.node) if isinstance(n, ast.For)]
        ok = len(loops) == 1 and isinstance(loops[0].iter, ast.Call) and ast.unparse(loops[0].iter) == "range(self.nfeat)"
        uses = [ast.unparse(n) for n in ast.walk(loops[0]) if isinstance(n, ast.Subscript)] if loops else []
        ctx.holds("featlist/%s.loop-shape" % name, ok, "loop: %s subscripts %s" % ([ast.unparse(l.iter) for l in loops], uses), [fq[0]])
    nraw = 4
    for m in (1, 3):
        x0 = sym_array("x", (nraw, NS))
        dold = sym_array("dold", (nraw, NS))
        g0 = sym_array("g", (m, NS))

        env_mod = it.load_module(MOD)
        maps = []
        from pyvc.interp import ClassV, Obj, Builtin
        absc = ClassV("_AbstractMap", [], env_mod)

        def F(t, s, x):
            return tm.mk_fn("F%d" % t, *[tm.lift(x[r, s]) for r in range(nraw)])

        def mk_feat(t):
            def fill_feat_(y, x):
                for s in range(NS):
                    y[s] = F(t, s, x)
            return Builtin("abs.fill_feat_", fill_feat_)

        def mk_deriv(t):
            def fill_deriv_(dfdx, dfdy, x):
                for r in range(nraw):
                    for s in range(NS):
                        args = [tm.lift(x[q, s]) for q in range(nraw)]
                        dfdx[r, s] = tm.lift(dfdx[r, s]) + tm.lift(dfdy[s]) * tm.T("f", ("D%d_F%d" % (r, t),) + tuple(args))
            return Builtin("abs.fill_deriv_", fill_deriv_)
        for t in range(m):
            o = Obj(absc)
            o.fields["fill_feat_"] = mk_feat(t)
            o.fields["fill_deriv_"] = mk_deriv(t)
            maps.append(o)
        fl = it.call(FL, [maps], {})
        # fill_vals_
        td = sym_array("told", (m, NS))
        x = x0.copy()
        it.call_method(fl, "fill_vals_", [td, x])
        ok = all(td[t, s] is F(t, s, x0) for t in range(m) for s in range(NS)) and same_elements(x, x0)
        ctx.holds("featlist/fill_vals_[m=%d]" % m, ok, "tdesc[t] must be map t applied to xdesc", [fq[0]])
        # __call__ : (nsamp, ninp) -> (nsamp, nfeat)
        xd = x0.copy().T
        out = it.call(fl, [xd], {})
        ok = out.shape == (NS, m) and all(out[s, t] is F(t, s, x0) for t in range(m) for s in range(NS))
        ctx.holds("featlist/__call__[m=%d]" % m, ok, "FeatureList(x)[s, t] must be map t at sample s", [fq[2]])
        # fill_derivs_
        d = dold.copy()
        g = g0.copy()
        x = x0.copy()
        it.call_method(fl, "fill_derivs_", [d, g, x])
        for r in range(nraw):
            for s in range(NS):
                expect = dold[r, s]
                for t in range(m):
                    Ft = F(t, s, x0)
                    expect = expect + g0[t, s] * tm.diff(Ft, x0[r, s])
                ctx.equal("featlist/additive[m=%d,r=%d,s=%d]" % (m, r, s), [], d[r, s], expect, [fq[1]])
        ctx.holds("featlist/fill_derivs_.frame[m=%d]" % m, same_elements(g, g0) and same_elements(x, x0), "dfdy / xdesc must be unchanged", [fq[1]])
        if m == 3:
            ctx.canary("featlist/canary-drop-one", [], d[0, 0], dold[0, 0] + sum(g0[t, 0] * tm.diff(F(t, 0, x0), x0[0, 0]) for t in range(2)))
    ctx.assume("FeatureList loops are uniform in the list index (checked syntactically), so the m=1 preservation step from an arbitrary pre-state is the induction step; m=3 is an additional unrolled instance")


# ---------------------------------------------------------------------------------- normalisers
NORMS = ["ConstantNormalizer", "DensityNormalizer", "InhomogeneityNormalizer", "GeneralNormalizer"]


def norm_ctor(it, nmod, name):
    cls = nmod.ns[name]
    names, _ = init_params(cls)
    pv = {n: tm.var("p_" + n) for n in names}
    return cls, names, pv


def norm_hyps(rho, inh, pv):
    h = [tm.mk_lt(tm.ZERO, rho), tm.mk_le(tm.ZERO, inh)]
    if "const2" in pv:
        h.append(tm.mk_le(tm.ZERO, pv["const2"]))
    return h


def unit_norm(name):
    def run(ctx):
        it = ctx.interp
        nmod = it.load_module(NMOD)
        cls, names, pv = norm_ctor(it, nmod, name)
        obj = it.call(cls, [pv[n] for n in names], {})
        fq = ["%s:%s.%s" % (NMOD, name, f) for f in ("fill_fwd", "fill_bwd", "get_normed_feature_deriv")]
        x0, rho0, inh0 = sym_array("x", (NS,)), sym_array("rho", (NS,)), sym_array("inh", (NS,))
        g0 = sym_array("g", (NS,))
        drho_old, dinh_old = sym_array("drho_old", (NS,)), sym_array("dinh_old", (NS,))
        hyps = []
        for s in range(NS):
            hyps += norm_hyps(rho0[s], inh0[s], pv)
        ctx.assume("C12 domain of the normalisers: rho > 0 (the list clamps rho at cutoff), inh >= 0, const2 >= 0")
        for mode in ("xn=None", "xn=buffer"):
            x, rho, inh = x0.copy(), rho0.copy(), inh0.copy()
            if mode == "xn=None":
                xn = it.call_method(obj, "fill_fwd", [x, rho, inh])
            else:
                buf = sym_array("xnold", (NS,))
                xn = it.call_method(obj, "fill_fwd", [x, rho, inh], {"xn": buf})
                ctx.holds("fwd.returns-buffer[%s]" % mode, xn is buf, "fill_fwd must fill and return the buffer it was given", fq[:1])
            ctx.holds("fwd.frame[%s]" % mode, same_elements(x, x0) and same_elements(rho, rho0) and same_elements(inh, inh0),
                      "fill_fwd must not write x, rho, inh", fq[:1])
            dep = [u.args[0] for s in range(NS) for u in tm.free_vars(tm.lift(xn[s])) if u.args[0].startswith(("uninit", "xnold"))]
            ctx.holds("fwd.overwrites[%s]" % mode, not dep, "xn depends on old buffer content %s" % dep, fq[:1])
        val = [tm.lift(xn[s]) for s in range(NS)]
        # reverse mode
        for mode in ("fresh", "buffers"):
            x, rho, inh, g = x0.copy(), rho0.copy(), inh0.copy(), g0.copy()
            if mode == "fresh":
                res = it.call_method(obj, "fill_bwd", [g, x, rho, inh])
                base_rho = base_inh = [tm.ZERO] * NS
            else:
                bx, br, bi = sym_array("dxold", (NS,)), drho_old.copy(), dinh_old.copy()
                res = it.call_method(obj, "fill_bwd", [g, x, rho, inh], {"dfdx": bx, "dfdrho": br, "dfdinh": bi})
                ctx.holds("bwd.returns-buffers", res[0] is bx and res[1] is br and res[2] is bi, "", fq[1:2])
                base_rho, base_inh = list(drho_old), list(dinh_old)
            dfdx, dfdrho, dfdinh = res
            ctx.holds("bwd.frame[%s]" % mode, same_elements(x, x0) and same_elements(rho, rho0) and same_elements(inh, inh0) and same_elements(g, g0),
                      "fill_bwd must not write its inputs", fq[1:2])
            for s in range(NS):
                for s2 in range(NS):
                    if s2 != s:
                        continue
                rp = make_norm_replay(name, names)
                ctx.equal("bwd.dx[%s,s=%d]" % (mode, s), hyps, dfdx[s], g0[s] * tm.diff(val[s], x0[s]), fq[:2], rp)
                ctx.equal("bwd.drho[%s,s=%d]" % (mode, s), hyps, dfdrho[s], base_rho[s] + g0[s] * tm.diff(val[s], rho0[s]), fq[:2], rp)
                ctx.equal("bwd.dinh[%s,s=%d]" % (mode, s), hyps, dfdinh[s], base_inh[s] + g0[s] * tm.diff(val[s], inh0[s]), fq[:2], rp)
        ctx.canary("bwd.canary-2x", hyps, dfdx[0], 2 * g0[0] * tm.diff(val[0], x0[0]))
        # pointwise
        cross = [1 for s in range(NS) for s2 in range(NS) if s2 != s for v in (x0, rho0, inh0) if v[s2] in tm.subterms(val[s]).values()]
        ctx.holds("fwd.pointwise", not cross, "xn[s] reads another sample", fq[:1])
        # forward mode
        dx, drho, dinh = sym_array("tx", (NS,)), sym_array("trho", (NS,)), sym_array("tinh", (NS,))
        x, rho, inh = x0.copy(), rho0.copy(), inh0.copy()
        tang = it.call_method(obj, "get_normed_feature_deriv", [x, rho, inh, dx, drho, dinh])
        for s in range(NS):
            expect = tm.diff(val[s], x0[s]) * dx[s] + tm.diff(val[s], rho0[s]) * drho[s] + tm.diff(val[s], inh0[s]) * dinh[s]
            ctx.equal("fwdmode[s=%d]" % s, hyps, tang[s], expect, [fq[0], fq[2]], make_norm_replay(name, names))
        ctx.canary("fwdmode.canary", hyps, tang[0], tm.diff(val[0], x0[0]) * dx[0] + tm.diff(val[0], rho0[0]) * drho[0])  if name in ("InhomogeneityNormalizer", "GeneralNormalizer") else None
        ctx.holds("fwdmode.frame", same_elements(x, x0) and same_elements(rho, rho0) and same_elements(inh, inh0), "", fq[2:])
        # conformance
        conformance_norm(ctx, name, names, pv, hyps, val, dfdx, dfdrho, dfdinh, tang, x0, rho0, inh0, g0, drho_old, dinh_old, dx, drho, dinh)
    return run


def native_norm(name, args):
    import ciderpress.dft.feat_normalizer as fn
    return getattr(fn, name)(*args)


def make_norm_replay(name, names):
    def replay(wit):
        env = env_floats(wit or {})
        args = [env.get("p_" + n, 0.7) for n in names]
        obj = native_norm(name, args)
        x = np.array([env.get("x_%d" % s, 0.4) for s in range(NS)])
        rho = np.array([env.get("rho_%d" % s, 0.8) for s in range(NS)])
        inh = np.array([env.get("inh_%d" % s, 0.3) for s in range(NS)])
        g = np.ones(NS)
        dfdx, dfdrho, dfdinh = obj.fill_bwd(g, x, rho, inh)
        out = {"ctor_args": args, "x": x.tolist(), "rho": rho.tolist(), "inh": inh.tolist()}
        bad = False
        for label, arr, code in (("x", x, dfdx), ("rho", rho, dfdrho), ("inh", inh, dfdinh)):
            def val(v, arr=arr):
                a = [x.copy(), rho.copy(), inh.copy()]
                k = {"x": 0, "rho": 1, "inh": 2}[label]
                a[k][0] = v
                return obj.fill_fwd(*a)[0]
            fd = central_diff(val, arr[0], 1e-5)
            out["d" + label] = {"code": float(code[0]), "fd": float(fd)}
            tx = np.zeros(NS), np.zeros(NS), np.zeros(NS)
            k = {"x": 0, "rho": 1, "inh": 2}[label]
            tx[k][0] = 1.0
            fw = obj.get_normed_feature_deriv(x, rho, inh, *tx)
            fw0 = float(np.asarray(fw).reshape(-1)[0])
            out["d" + label]["fwdmode"] = fw0
            if abs(code[0] - fd) > 1e-6 * (1 + abs(fd)) or abs(fw0 - fd) > 1e-6 * (1 + abs(fd)):
                bad = True
        out["reproduced"] = bad
        return out
    return replay


def conformance_norm(ctx, name, names, pv, hyps, val, dfdx, dfdrho, dfdinh, tang, x0, rho0, inh0, g0, dro, dio, dx, drho, dinh):
    n = 20 if ctx.tier == "quick" else 200
    variables = list(pv.values()) + list(x0) + list(rho0) + list(inh0) + list(g0) + list(dro) + list(dio) + list(dx) + list(drho) + list(dinh)
    extra = [tm.mk_lt(tm.const(Q(1, 10)), v) for v in list(rho0) + list(pv.values())] + [tm.mk_lt(v, tm.const(2)) for v in list(rho0) + list(inh0) + list(pv.values())]
    ok, detail, done = True, "", 0
    for _ in range(n):
        env = vc.sample_env(variables, hyps + extra, ctx.rng)
        if env is None:
            break
        fe = env_floats(env)
        obj = native_norm(name, [fe["p_" + k] for k in names])
        arr = lambda nm: np.array([fe["%s_%d" % (nm, s)] for s in range(NS)])
        x, rho, inh, g = arr("x"), arr("rho"), arr("inh"), arr("g")
        nxn = obj.fill_fwd(x, rho, inh)
        br, bi = arr("drho_old"), arr("dinh_old")
        ndx, ndr, ndi = obj.fill_bwd(g, x, rho, inh, dfdrho=br, dfdinh=bi)
        nt = obj.get_normed_feature_deriv(x, rho, inh, arr("tx"), arr("trho"), arr("tinh"))
        sym = [np.array([float(tm.evaluate(tm.lift(t), fe)) for t in v]) for v in (val, dfdx, dfdrho, dfdinh, tang)]
        nat = [nxn, ndx, ndr, ndi, nt]
        if not all(close(a, b) for a, b in zip(sym, nat)):
            ok, detail = False, "symbolic vs native mismatch at %s: %s vs %s" % (fe, sym, nat)
            break
        done += 1
    ctx.conformance("%s/conformance" % name, ok and done > 0, detail or "%d samples agree" % done)


# ---------------------------------------------------------------------------------- normaliser list
SLMODES = ["npa", "nst", "np", "ns"]


def unit_normlist(slmode, classes=None):
    def run(ctx):
        NORMS = list(classes) if classes is not None else list(globals()["NORMS"])
        it = ctx.interp
        nmod = it.load_module(NMOD)
        L = nmod.ns["FeatNormalizerList"]
        fq = ["%s:FeatNormalizerList.%s" % (NMOD, f) for f in (
            "get_normalized_feature_vector", "get_derivative_wrt_unnormed_features", "get_derivative_of_normed_features",
            "_get_rho_and_inh", "_get_drho_and_dinh", "_check_shape")]
        nsl = 3 if slmode in ("npa", "nst") else 2
        # one normaliser of every class + a None entry behind the semilocal block
        norms = [None] * nsl
        hy = []
        qvars = []
        k = 0
        for name in NORMS:
            cls, names, pv = norm_ctor(it, nmod, name)
            pv = {n: tm.var("q%d_%s" % (k, n)) for n in names}
            qvars += list(pv.values())
            norms.append(it.call(cls, [pv[n] for n in names], {}))
            if "const2" in pv:
                hy.append(tm.mk_le(tm.ZERO, pv["const2"]))
            k += 1
        norms.append(None)
        nfeat = len(norms)
        cutoff = tm.var("cutoff")
        hy.append(tm.mk_lt(tm.ZERO, cutoff))
        lst = it.call(L, [norms, slmode], {"cutoff": cutoff})
        nspin = 1
        X0 = sym_array("X", (nspin, nfeat, NS))
        G0 = sym_array("G", (nspin, nfeat, NS))
        hyps = list(hy)
        for s in range(NS):
            hyps.append(tm.mk_lt(cutoff, X0[0, 0, s]))     # rho above the cutoff (below: C08)
            hyps.append(tm.mk_le(tm.ZERO, X0[0, 1, s]))
            if nsl == 3:
                hyps.append(tm.mk_le(tm.ZERO, X0[0, 2, s]))
        ctx.assume("C12 domain of the normaliser list: rho > cutoff > 0 (A7; sub-cutoff region is C08), gradient and tau terms >= 0")

        def fwd():
            X = X0.copy()
            r = it.call_method(lst, "get_normalized_feature_vector", [X])
            return r, X

        def bwd():
            X, G = X0.copy(), G0.copy()
            r = it.call_method(lst, "get_derivative_wrt_unnormed_features", [X, G])
            return r, X, G
        it.hyps = list(hyps)
        vpaths = [p for p in all_paths(it, fwd)]
        bpaths = [p for p in all_paths(it, bwd)]
        ctx.holds("paths", all(p[0] == "return" for p in vpaths + bpaths), "a path raised: %s" % [(p[0], p[1]) for p in vpaths + bpaths if p[0] != "return"][:2], fq[:2])
        for vi, (vo, vval, vpc, _) in enumerate(vpaths):
            if vo != "return":
                continue
            XN, Xv = vval
            ctx.holds("fwd.frame#%d" % vi, same_elements(Xv, X0), "get_normalized_feature_vector must not write X0T", fq[:1])
            H = hyps + list(vpc)
            XNs = np.empty(XN.shape, dtype=object)
            for idx in np.ndindex(*XN.shape):
                XNs[idx] = vc.simplify_ite(H, XN[idx])
            dep = [u.args[0] for t in XNs.reshape(-1) for u in tm.free_vars(t) if u.args[0].startswith("uninit")]
            ctx.holds("fwd.total#%d" % vi, not dep, "output reads uninitialised memory", fq[:1])
            for bi, (bo, bval, bpc, _) in enumerate(bpaths):
                if bo != "return":
                    continue
                DX, Xb, Gb = bval
                HH = H + list(bpc)
                ctx.holds("bwd.frame#%d.%d" % (vi, bi), same_elements(Xb, X0) and same_elements(Gb, G0), "reverse pass must not write its inputs", fq[1:2])
                for j in range(nfeat):
                    for s in range(NS):
                        expect = tm.ZERO
                        for i in range(nfeat):
                            expect = expect + G0[0, i, s] * tm.diff(XNs[0, i, s], X0[0, j, s])
                        ctx.equal("transpose-of-jacobian[%s,j=%d,s=%d]#%d.%d" % (slmode, j, s, vi, bi), HH, DX[0, j, s], expect, fq[:2] + fq[3:4],
                                  replay=make_list_replay(slmode, nsl, classes))
                if classes is None:
                    ctx.canary("bwd.canary-no-rho-path[%s]" % slmode, HH, DX[0, 0, 0],
                               G0[0, 0, 0] * tm.diff(XNs[0, 0, 0], X0[0, 0, 0]))
            # forward (tangent) mode: shapes (nfeat, NS)
            X2 = X0[0].copy()
            D2 = sym_array("D", (nfeat, NS))
            D2c = D2.copy()
            tpaths = all_paths(it, lambda: it.call_method(lst, "get_derivative_of_normed_features", [X2, D2c]))
            for ti, (to, tval, tpc, _) in enumerate(tpaths):
                if to != "return":
                    ctx.holds("tangent.paths#%d" % ti, False, "tangent routine raised %s" % (tval,), fq[2:3])
                    continue
                HH = H + list(tpc)
                for i in range(nfeat):
                    for s in range(NS):
                        expect = tm.ZERO
                        for j in range(nfeat):
                            expect = expect + tm.diff(XNs[0, i, s], X0[0, j, s]) * D2[j, s]
                        ctx.equal("jacobian-times-tangent[%s,i=%d,s=%d]#%d.%d" % (slmode, i, s, vi, ti), HH, tval[i, s], expect, [fq[0], fq[2], fq[4]],
                                  replay=make_list_replay(slmode, nsl, classes))
                ctx.holds("tangent.frame#%d.%d" % (vi, ti), same_elements(X2, X0[0]) and same_elements(D2c, D2), "", fq[2:3])
        ctx.assume("transposition of forward- and reverse-mode list routines follows from both being proved against the same Jacobian (lemma <J t, g> = <t, J^T g>)")
        if classes is None:
            conformance_list(ctx, slmode, nsl, vpaths, bpaths, X0, G0, hyps, nfeat, qvars)
    return run


def unit_normlist_history(slmode):
    """State outliving a call: the reverse pass of a FeatNormalizerList must be the chain rule AT THE FEATURES IT IS HANDED, whatever the object did before.  One list
    object: forward pass on an array X; the caller then overwrites X in place (the next grid block, the same buffer); reverse pass on X — compared element by element
    with the reverse pass of a freshly built list on the new values.  Likewise forward after forward, and reverse after reverse, on the re-used buffer."""
    def run(ctx):
        it = ctx.interp
        nmod = it.load_module(NMOD)
        L = nmod.ns["FeatNormalizerList"]
        fq = ["%s:FeatNormalizerList.%s" % (NMOD, f) for f in ("get_normalized_feature_vector", "get_derivative_wrt_unnormed_features", "_get_rho_and_inh")]
        nsl = 3 if slmode in ("npa", "nst") else 2

        def build():
            norms = [None] * nsl
            hy = []
            k = 0
            for name in NORMS:
                cls, names, pv = norm_ctor(it, nmod, name)
                pv = {n: tm.var("q%d_%s" % (k, n)) for n in names}
                norms.append(it.call(cls, [pv[n] for n in names], {}))
                if "const2" in pv:
                    hy.append(tm.mk_le(tm.ZERO, pv["const2"]))
                k += 1
            norms.append(None)
            return norms, hy
        norms, hy = build()
        nfeat = len(norms)
        cutoff = tm.var("cutoff")
        hy.append(tm.mk_lt(tm.ZERO, cutoff))
        XA, XB = sym_array("XA", (1, nfeat, NS)), sym_array("XB", (1, nfeat, NS))
        G0 = sym_array("G", (1, nfeat, NS))
        hyps = list(hy)
        for X0 in (XA, XB):
            for s_ in range(NS):
                hyps.append(tm.mk_lt(cutoff, X0[0, 0, s_]))
                hyps.append(tm.mk_le(tm.ZERO, X0[0, 1, s_]))
                if nsl == 3:
                    hyps.append(tm.mk_le(tm.ZERO, X0[0, 2, s_]))
        it.hyps = list(hyps)
        used = it.call(L, [norms, slmode], {"cutoff": cutoff})
        fresh = it.call(L, [build()[0], slmode], {"cutoff": cutoff})

        def scenario():
            buf = XA.copy()
            it.call_method(used, "get_normalized_feature_vector", [buf])
            buf[...] = XB                                    # the caller re-uses its buffer for the next block
            d_used = it.call_method(used, "get_derivative_wrt_unnormed_features", [buf, G0.copy()])
            f_used = it.call_method(used, "get_normalized_feature_vector", [buf])
            d_again = it.call_method(used, "get_derivative_wrt_unnormed_features", [buf, G0.copy()])
            d_new = it.call_method(fresh, "get_derivative_wrt_unnormed_features", [XB.copy(), G0.copy()])
            f_new = it.call_method(fresh, "get_normalized_feature_vector", [XB.copy()])
            return d_used, f_used, d_again, d_new, f_new
        try:
            ps = all_paths(it, scenario)
        except (Unsupported, PyRaise) as e:
            ctx.undecided("normlist history[%s] runs" % slmode, str(e)[:200], fq)
            return
        ok = [p for p in ps if p[0] == "return"]
        ctx.holds("normlist history[%s]: the call sequence returns on every path" % slmode, len(ok) == len(ps) and len(ok) >= 1, "%s" % [(p[0], str(p[1])[:80]) for p in ps if p[0] != "return"][:2], fq)
        for pi, (o_, val, pc, _) in enumerate(ok):
            d_used, f_used, d_again, d_new, f_new = [np.asarray(v, dtype=object) for v in val]
            H = hyps + list(pc)
            for idx in np.ndindex(*d_new.shape):
                for nm, a in (("reverse pass after a forward pass on the buffer's previous contents", d_used), ("second reverse pass", d_again)):
                    if tm.lift(a[idx]) is tm.lift(d_new[idx]):
                        ctx.holds("normlist history[%s]#%d %s %s = fresh list" % (slmode, pi, nm, list(idx)), True, "", fq)
                    else:
                        ctx.equal("normlist history[%s]#%d %s %s = fresh list" % (slmode, pi, nm, list(idx)), H, a[idx], d_new[idx], fq, replay=replay_normlist_history(slmode, nsl))
                if tm.lift(f_used[idx]) is tm.lift(f_new[idx]):
                    ctx.holds("normlist history[%s]#%d forward pass on the re-used buffer %s = fresh list" % (slmode, pi, list(idx)), True, "", fq)
                else:
                    ctx.equal("normlist history[%s]#%d forward pass on the re-used buffer %s = fresh list" % (slmode, pi, list(idx)), H, f_used[idx], f_new[idx], fq, replay=replay_normlist_history(slmode, nsl))
    return run


def replay_normlist_history(slmode, nsl):
    def replay(wit):
        fe = env_floats(wit or {})
        cutoff = fe.get("cutoff", 1e-10)
        used, fresh = native_list(slmode, nsl, fe, cutoff), native_list(slmode, nsl, fe, cutoff)
        nfeat = used.nfeat
        mk = lambda nm, off: np.array([[[fe.get("%s_0_%d_%d" % (nm, i, s_), off + 0.1 * i + 0.07 * s_) for s_ in range(NS)] for i in range(nfeat)]])
        XA, XB, G = mk("XA", 0.5), mk("XB", 0.9), np.ones((1, nfeat, NS))
        buf = XA.copy()
        used.get_normalized_feature_vector(buf)
        buf[...] = XB
        d_used = used.get_derivative_wrt_unnormed_features(buf, G.copy())
        f_used = used.get_normalized_feature_vector(buf)
        d_new = fresh.get_derivative_wrt_unnormed_features(XB.copy(), G.copy())
        f_new = fresh.get_normalized_feature_vector(XB.copy())
        err = max(float(np.max(np.abs(d_used - d_new))), float(np.max(np.abs(f_used - f_new))))
        return {"reproduced": bool(err > 1e-12), "max difference used vs fresh list": err, "slmode": slmode}
    return replay


def native_list(slmode, nsl, fe, cutoff, classes=None):
    import ciderpress.dft.feat_normalizer as fn
    norms = [None] * nsl
    k = 0
    for name in (classes if classes is not None else NORMS):
        cls = getattr(fn, name)
        import inspect
        names = list(inspect.signature(cls.__init__).parameters)[1:]
        norms.append(cls(*[fe.get("q%d_%s" % (k, n), 0.6 + 0.1 * k) for n in names]))
        k += 1
    norms.append(None)
    return fn.FeatNormalizerList(norms, slmode, cutoff=cutoff)


def make_list_replay(slmode, nsl, classes=None):
    def replay(wit):
        fe = env_floats(wit or {})
        cutoff = fe.get("cutoff", 1e-10)
        lst = native_list(slmode, nsl, fe, cutoff, classes)
        nfeat = lst.nfeat
        X = np.array([[[fe.get("X_0_%d_%d" % (i, s), 0.5 + 0.1 * i + 0.07 * s) for s in range(NS)] for i in range(nfeat)]])
        G = np.ones((1, nfeat, NS))
        code = lst.get_derivative_wrt_unnormed_features(X.copy(), G.copy())
        bad = False
        out = {"slmode": slmode, "X0T": X.tolist(), "cutoff": cutoff, "rows": []}
        for j in range(nfeat):
            def val(v):
                Xc = X.copy()
                Xc[0, j, 0] = v
                return lst.get_normalized_feature_vector(Xc)[0, :, 0].sum()
            fd = central_diff(val, X[0, j, 0], 1e-5)
            T_ = np.zeros((nfeat, NS))
            T_[j, 0] = 1.0
            tang = lst.get_derivative_of_normed_features(X[0].copy(), T_)[:, 0].sum()
            out["rows"].append({"j": j, "reverse": float(code[0, j, 0]), "fd": float(fd), "tangent": float(tang)})
            if abs(code[0, j, 0] - fd) > 1e-6 * (1 + abs(fd)) or abs(tang - fd) > 1e-6 * (1 + abs(fd)):
                bad = True
        out["reproduced"] = bad
        return out
    return replay


def conformance_list(ctx, slmode, nsl, vpaths, bpaths, X0, G0, hyps, nfeat, qvars):
    n = 10 if ctx.tier == "quick" else 100
    variables = sorted(set(u for h in hyps for u in tm.free_vars(h)) | set(X0.reshape(-1)) | set(G0.reshape(-1)) | set(qvars), key=lambda u: u.args[0])
    extra = [tm.mk_lt(v, tm.const(2)) for v in variables if v.args[0].startswith(("X", "q"))] + \
            [tm.mk_lt(tm.const(Q(1, 10)), v) for v in variables if v.args[0].startswith("q")] + \
            [tm.mk_lt(tm.var("cutoff"), tm.const(Q(1, 10)))]
    ok, detail, done = True, "", 0
    for _ in range(n):
        env = vc.sample_env(variables, hyps + extra, ctx.rng)
        if env is None:
            break
        fe = env_floats(env)
        lst = native_list(slmode, nsl, fe, fe["cutoff"])
        X = np.array([[[fe["X_0_%d_%d" % (i, s)] for s in range(NS)] for i in range(nfeat)]])
        G = np.array([[[fe["G_0_%d_%d" % (i, s)] for s in range(NS)] for i in range(nfeat)]])
        nv = lst.get_normalized_feature_vector(X.copy())
        nb = lst.get_derivative_wrt_unnormed_features(X.copy(), G.copy())
        sv = sb = None
        for o, val, pc, _ in vpaths:
            if o == "return" and all(tm.evaluate(c, fe) for c in pc):
                sv = eval_array(val[0], fe)
        for o, val, pc, _ in bpaths:
            if o == "return" and all(tm.evaluate(c, fe) for c in pc):
                sb = eval_array(val[0], fe)
        if sv is None or sb is None or not close(sv, nv) or not close(sb, nb):
            ok, detail = False, "mismatch at %s" % fe
            break
        done += 1
    ctx.conformance("normlist[%s]/conformance" % slmode, ok and done > 0, detail or "%d samples agree" % done)


def units():
    u = [("map/" + c, unit_map(c)) for c in class_names()]
    u.append(("featlist", unit_featlist))
    u += [("norm/" + n, unit_norm(n)) for n in NORMS]
    u += [("normlist/" + m, unit_normlist(m)) for m in SLMODES]
    u += [("normlist-history/" + m, unit_normlist_history(m)) for m in SLMODES]
    # lists that hold only some of the normaliser classes (a reverse pass that decides what to route by looking at the classes present must get every
    # combination right): each class alone and the pairs without a GeneralNormalizer
    for sub in (["InhomogeneityNormalizer"], ["DensityNormalizer"], ["GeneralNormalizer"], ["ConstantNormalizer", "InhomogeneityNormalizer"],
                ["DensityNormalizer", "InhomogeneityNormalizer"], ["ConstantNormalizer", "DensityNormalizer"]):
        for m in SLMODES:
            u.append(("normlist-subset/%s/%s" % ("+".join(x[:4] for x in sub), m), unit_normlist(m, sub)))
    return u


EXPLANATION = (
    "Every map class registered in ALL_CLASSES (read from the repository at run time), every coincidence pattern of its index "
    "fields, and all parameter values in the class's domain: fill_deriv_ is proved equal to old(dfdx) + dfdy * d/dx of the term "
    "obtained by symbolically executing fill_feat_ on the real source (exact normal form over Q(atoms), side conditions by z3/cvc5); "
    "untouched raw indices and input frames included.  The same for the four normalisers (reverse and forward mode) and for "
    "FeatNormalizerList in its four slmodes (reverse pass = transpose of the Jacobian of the forward pass, tangent pass = Jacobian x tangent). "
    "The sample axis is instantiated at a generic extent 2 with independent symbols per sample and pointwise-ness is itself an obligation. "
    "Floating point is treated as real arithmetic (A1).")

TRUSTED = [
    "A1: IEEE doubles treated as mathematical reals; float literals denote the decimal rational they are written as",
    "A3: numpy semantics as modelled by pyvc.npmodel (object arrays: numpy's own views/slicing/broadcasting; elementwise ops exact; maximum/where/clip/masks as ite)",
    "A4: Python semantics as implemented by pyvc.interp (MRO from class definitions, no monkey patching)",
    "A7: derivative obligations exclude the measure-zero boundaries of piecewise guards; clamps (np.maximum(x,1e-10), np.clip) are taken inactive (listed per class)",
    "generic sample extent NS=2: numpy elementwise/broadcast semantics are uniform in the extent of an axis that is only used elementwise (pointwise-ness of each routine is checked as an obligation)",
    "pyvc.nf normal form: x^a*x^b=x^(a+b) and sqrt(P)^2=P on the domain where the recorded side conditions hold (each discharged by z3/cvc5)",
]

if __name__ == "__main__":
    sys.exit(run_property("C12", "proof", units(), EXPLANATION, TRUSTED, min_obligations=400))
