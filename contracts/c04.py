"""C04 — model evaluators return consistent energy densities and feature derivatives.

Contracts:
  MappedDFTKernel.__call__(X0T, rhocut)       (modes SEP/NPOL/POL, nspin 1/2, with/without additive baseline, 2 evaluators sharing buffers)
        ensures dres[s, i, g] = d res[g] / d X0T[s, i, g]          where res is the returned energy density
        callee contracts: feature list (C12), FuncEvaluator (res += E, dres += dE), baseline (m, dm = dM)
  MappedDFTKernel2.__call__(X0T, rho_tuple, vrho_tuple, rhocut)
        ensures dfdX0T = d f / d X0T  and  vrho_tuple += d f / d rho_tuple   (libxc: uninterpreted differentiable energy density, v = its partials)
  KernelEvaluator / GlobalLinearEvaluator / SplineSetEvaluator.__call__
        ensures res += f(X1), dres += d f / d X1 (accumulating; chunk-independent); shape mismatch raises ValueError
  baselines: _lda_x/_pbe_x/_chachiyo_x/_vi_x_damp helpers, _sl_x_helper, get_sigma/get_dsigma, get_gga_c,
             get_libxc_baseline_ss/_os/get_libxc_baseline recombinations:  derivative outputs = derivative of the energy output
  C kernels model_utils.c:evaluate_se_kernel, _antisym, _spin, _spin_v2 (engine C, contracts/ckernels.py): for all n, nctrl, nfeat,
        out[i] += sum_t alpha_t k(x_i, c_t) with the documented squared-exponential forms, and every element of outd receives the
        derivative of that sum with respect to the input element at the same position (plus bounds and iteration independence)
"""
import json
import os
import sys
import warnings

sys.path.insert(0, os.path.dirname(os.path.dirname(os.path.abspath(__file__))))
warnings.filterwarnings("ignore")

import numpy as np
from fractions import Fraction as Q

from pyvc import terms as tm
from pyvc import vc, smt
from pyvc.framework import run_property
from pyvc.interp import Obj, ExcV, Builtin, ClassV
from contracts.common import *
from contracts.evalharness import *

XMOD = "ciderpress.dft.xc_evaluator"
X2MOD = "ciderpress.dft.xc_evaluator2"
BMOD = "ciderpress.dft.baselines"
N0, N1 = 3, 2


def spin_evaluator(it, n1, tag="G"):
    """Spin-symmetric evaluator for POL mode: f[g] = G(a, b) + G(b, a) with a = X1[0, g], b = X1[1, g]."""
    x = it.load_module(XMOD)
    cls = ClassV("_AbstractSpinEvaluator", [x.ns["FuncEvaluator"]], x)
    o = Obj(cls)

    def call(X1, res=None, dres=None):
        assert X1.ndim == 3 and X1.shape[0] == 2
        for g in range(X1.shape[1]):
            a = [X1[0, g, n] for n in range(n1)]
            b = [X1[1, g, n] for n in range(n1)]
            res[g] = tm.lift(res[g]) + ufn(tag, a + b) + ufn(tag, b + a)
            for n in range(n1):
                dres[0, g, n] = tm.lift(dres[0, g, n]) + ufn("D%d_%s" % (n, tag), a + b) + ufn("D%d_%s" % (n1 + n, tag), b + a)
                dres[1, g, n] = tm.lift(dres[1, g, n]) + ufn("D%d_%s" % (n1 + n, tag), a + b) + ufn("D%d_%s" % (n, tag), b + a)
        return res, dres
    o.fields["__call__"] = Builtin("abs.spin-feval", call)
    return o


def make_fevals(it, mode):
    if mode == "POL":
        return [spin_evaluator(it, N1, "G"), spin_evaluator(it, N1, "H")]
    return [abstract_evaluator(it, N1, "E"), abstract_evaluator(it, N1, "E2")]


def unit_wrapper1(mode, nspin, add, rhocut=False):
    def run(ctx):
        RC = tm.var("rhocut")
        it = ctx.interp
        x = it.load_module(XMOD)
        fl = abstract_feature_list(it, N0, N1)
        fevals = make_fevals(it, mode)
        mul = Builtin("abs.mul", lambda X: abstract_baseline("M")(it, X))
        addb = Builtin("abs.add", lambda X: abstract_baseline("A")(it, X)) if add else None
        K = it.call(x.ns["MappedDFTKernel"], [fevals, fl, mode, mul], {"additive_baseline": addb})
        X0 = sym_array("X", (nspin, N0, NS))
        fq = [XMOD + ":MappedDFTKernel.__call__", XMOD + ":KernelEvalBase.get_descriptors", XMOD + ":KernelEvalBase.apply_descriptor_grad",
              XMOD + ":KernelEvalBase.apply_baseline", XMOD + ":KernelEvalBase._baseline"]

        def thunk():
            Xc = X0.copy()
            r = it.call(K, [Xc], {"rhocut": RC} if rhocut else {})
            return r, Xc
        it.hyps = [tm.mk_lt(tm.ZERO, RC)] if rhocut else []
        paths = all_paths(it, thunk)
        for pi_, (o, v, pc, _) in enumerate(paths):
            if o != "return":
                ctx.holds("total#%d" % pi_, False, "wrapper raises %s" % (v,), fq, witness={"exception": str(v)})
                continue
            pc = list(pc) + ([tm.mk_lt(tm.ZERO, RC)] if rhocut else [])
            (res, dres), Xc = v
            ctx.holds("frame-X0T#%d" % pi_, same_elements(Xc, X0), "the wrapper must not write the caller's X0T", fq)
            ctx.holds("shapes#%d" % pi_, res.shape == (NS,) and dres.shape == X0.shape, "res %s dres %s" % (res.shape, dres.shape), fq)
            if res.shape != (NS,) or dres.shape != X0.shape:
                continue
            for s in range(nspin):
                for i in range(N0):
                    for g in range(NS):
                        ctx.equal("dres[%d,%d,%d] = d res/dX0T#%d" % (s, i, g, pi_), pc, dres[s, i, g], tm.diff(tm.lift(res[g]), X0[s, i, g]), fq,
                                  replay=replay_wrapper1(mode, nspin, add))
                        for g2 in range(NS):
                            if g2 != g:
                                ctx.holds("pointwise[%d,%d,%d<-%d]#%d" % (s, i, g, g2, pi_), tm.diff(tm.lift(res[g]), X0[s, i, g2]) is tm.ZERO, "res[g] depends on another grid point", fq)
            ctx.canary("canary#%d" % pi_, pc, dres[0, 0, 0], 2 * tm.diff(tm.lift(res[0]), X0[0, 0, 0]))
    return run


def replay_wrapper1(mode, nspin, add):
    """Native replay with concrete smooth stand-ins for the abstract components."""
    def replay(wit):
        from pyvc import native
        native.install_shim()
        import ciderpress.dft.xc_evaluator as xe
        import ciderpress.dft.transform_data as td

        class Ev(xe.FuncEvaluator):
            def __call__(self, X1, res=None, dres=None):
                if X1.ndim == 3:
                    a, b = X1[0], X1[1]
                    w = np.arange(1, a.shape[1] + 1) * 0.3
                    res[:] += np.sin(a @ w) * np.cos(b @ w) + np.sin(b @ w) * np.cos(a @ w)
                    dres[0] += (np.cos(a @ w) * np.cos(b @ w) - np.sin(b @ w) * np.sin(a @ w))[:, None] * w
                    dres[1] += (np.cos(a @ w) * np.cos(b @ w) - np.sin(b @ w) * np.sin(a @ w))[:, None] * w
                else:
                    w = np.arange(1, X1.shape[1] + 1) * 0.3
                    res[:] += np.sin(X1 @ w)
                    dres[:] += np.cos(X1 @ w)[:, None] * w
                return res, dres

        def base(X0T):
            m = 1.0 + 0.1 * (X0T ** 2).sum(axis=(0, 1))
            return m, 0.2 * X0T
        fl = td.FeatureList([td.UMap(0, 0.7), td.VMap(1, 1.3, scale=2.0, center=0.5)])
        K = xe.MappedDFTKernel([Ev(), Ev()], fl, mode, base, base if add else None)
        X = 0.3 + np.random.RandomState(1).rand(nspin, N0, 4)
        res, dres = K(X.copy())
        bad, rows = False, []
        for s in range(nspin):
            for i in range(N0):
                def val(v):
                    Xc = X.copy()
                    Xc[s, i, 0] = v
                    return K(Xc)[0][0]
                fd = central_diff(val, X[s, i, 0], 1e-4)
                rows.append({"s": s, "i": i, "code": float(dres[s, i, 0]), "fd": float(fd)})
                if abs(dres[s, i, 0] - fd) > 1e-6 * (1 + abs(fd)):
                    bad = True
        return {"reproduced": bad, "mode": mode, "nspin": nspin, "rows": rows}
    return replay


# ------------------------------------------------------------------------------------------ v2 wrapper
def libxc_contract(it):
    """Assumed contract of the ctypes entry points of libxc_baselines.c, installed as overrides of the Python wrappers that
    call them: energy per particle eps = B/rho_tot with B an uninterpreted differentiable energy density; v* = partials of B."""
    def mk(kind):
        def fn(interp, f, args, kwargs):
            xcid = args[0]
            tup = [np.asarray(a, dtype=object) for a in args[1:]]
            ng = tup[0].shape[1]
            name = "B%s_%s_%d" % (kind, xcid, tup[0].shape[0])
            exc = np.empty((ng,), dtype=object)
            outs = [np.empty(t.shape, dtype=object) for t in tup]
            for g in range(ng):
                col = [t[c, g] for t in tup for c in range(t.shape[0])]
                rtot = sum(tm.lift(tup[0][c, g]) for c in range(tup[0].shape[0]))
                exc[g] = ufn(name, col) / rtot
                k = 0
                for o_, t in zip(outs, tup):
                    for c in range(t.shape[0]):
                        o_[c, g] = ufn("D%d_%s" % (k, name), col)
                        k += 1
            return tuple([exc] + outs)
        return fn
    it.overrides[BMOD + ":get_libxc_lda_baseline"] = mk("lda")
    it.overrides[BMOD + ":get_libxc_gga_baseline"] = mk("gga")
    it.overrides[BMOD + ":get_libxc_mgga_baseline"] = mk("mgga")


def replay_wrapper2(mode, nspin, rhocut):
    """Native replay of the feature-derivative clause of MappedDFTKernel2 with a concrete evaluator and the real libxc baseline."""
    def replay(wit):
        from pyvc import native
        native.install_shim()
        import ciderpress.dft.xc_evaluator as xe, ciderpress.dft.xc_evaluator2 as x2, ciderpress.dft.transform_data as td

        class Ev(xe.FuncEvaluator):
            def __call__(self, X1, res=None, dres=None):
                if X1.ndim == 3:
                    a, b = X1[0], X1[1]
                    w = np.arange(1, a.shape[1] + 1) * 0.3
                    res[:] += np.sin(a @ w) * np.cos(b @ w) + np.sin(b @ w) * np.cos(a @ w)
                    c = np.cos(a @ w) * np.cos(b @ w) - np.sin(b @ w) * np.sin(a @ w)
                    dres[0] += c[:, None] * w
                    dres[1] += c[:, None] * w
                else:
                    w = np.arange(1, X1.shape[1] + 1) * 0.3
                    res[:] += np.sin(X1 @ w)
                    dres[:] += np.cos(X1 @ w)[:, None] * w
                return res, dres
        fl = td.FeatureList([td.UMap(0, 0.7), td.VMap(1, 1.3, scale=2.0, center=0.5)])
        K = x2.MappedDFTKernel2([Ev()], fl, mode, "GGA_X_PBE")
        rng = np.random.RandomState(0)
        ng = 4
        X = 0.3 + rng.rand(nspin, 3, ng)
        rho = 0.3 + rng.rand(nspin, ng)
        rc = 1e-3 if rhocut else 0
        if rhocut:
            rho[0, 0] = 1e-4      # one channel below the cutoff; with two channels the total stays above it
        sig = np.abs(rng.rand(2 * nspin - 1, ng)) * 0.1

        def run(Xin):
            vt = (np.zeros_like(rho, order="F"), np.zeros_like(sig, order="F"))
            return K(Xin.copy(), (rho.copy(order="F"), sig.copy(order="F")), vt, rhocut=rc)
        f, d = run(X)
        rows, bad = [], False
        for s_ in range(nspin):
            for i in range(2):
                h = 1e-5
                Xp, Xm = X.copy(), X.copy()
                Xp[s_, i, 0] += h
                Xm[s_, i, 0] -= h
                fd = (run(Xp)[0][0] - run(Xm)[0][0]) / (2 * h)
                rows.append({"spin": s_, "feature": i, "code": float(d[s_, i, 0]), "finite_difference": float(fd)})
                if abs(d[s_, i, 0] - fd) > 1e-6 * (1 + abs(fd)):
                    bad = True
        return {"reproduced": bad, "mode": mode, "nspin": nspin, "rhocut": rc, "rho_at_g0": rho[:, 0].tolist(), "rows": rows}
    return replay


def unit_wrapper2(mode, nspin, level, add, rhocut=False):
    def run(ctx):
        RC = tm.var("rhocut")
        it = ctx.interp
        libxc_contract(it)
        x2 = it.load_module(X2MOD)
        fl = abstract_feature_list(it, N0, N1)
        fevals = make_fevals(it, mode)
        mulid = {"lda": "LDA_X", "gga": "GGA_X_PBE", "mgga": "MGGA_X_R2SCAN"}[level]
        addid = {"lda": "LDA_C_PW_MOD", "gga": "GGA_C_PBE", "mgga": "MGGA_C_R2SCAN"}[level] if add else None
        K = it.call(x2.ns["MappedDFTKernel2"], [fevals, fl, mode, mulid], {"additive_baseline": addid})
        X0 = sym_array("X", (nspin, N0, NS))
        rho = sym_array("rho", (nspin, NS))
        sig = sym_array("sig", (2 * nspin - 1, NS))
        tau = sym_array("tau", (nspin, NS))
        rt0 = [rho] + ([sig] if level != "lda" else []) + ([tau] if level == "mgga" else [])
        vold = [sym_array("v%d" % k, r.shape) for k, r in enumerate(rt0)]
        hyps = [tm.mk_lt(tm.ZERO, r) for r in rho.reshape(-1)]
        fq = [X2MOD + ":MappedDFTKernel2.__call__", X2MOD + ":KernelEvalBase2.apply_libxc_baseline_", X2MOD + ":KernelEvalBase2._get_baseline",
              X2MOD + ":KernelEvalBase2.apply_descriptor_grad", BMOD + ":get_libxc_baseline"]

        def thunk():
            Xc = X0.copy()
            rt = tuple(r.copy() for r in rt0)
            vt = tuple(v.copy() for v in vold)
            r = it.call(K, [Xc, rt, vt], {"rhocut": RC} if rhocut else {})
            return r, Xc, rt, vt
        if rhocut:
            hyps.append(tm.mk_lt(tm.ZERO, RC))
        it.hyps = list(hyps)
        paths = all_paths(it, thunk)
        for pi_, (o, v, pc, _) in enumerate(paths):
            if o != "return":
                feas, _ = smt.feasible(hyps + pc, 3.0)
                ctx.holds("total#%d" % pi_, not feas, "wrapper raises %s" % (v,), fq, witness={"exception": str(v)})
                continue
            (f, dX), Xc, rt, vt = v
            H = hyps + pc
            ctx.holds("frame#%d" % pi_, same_elements(Xc, X0) and all(same_elements(a, b) for a, b in zip(rt, rt0)), "X0T / rho_tuple must not be written", fq)
            ctx.holds("shapes#%d" % pi_, f.shape == (NS,) and dX.shape == X0.shape, "f %s dfdX0T %s" % (f.shape, dX.shape), fq)
            if f.shape != (NS,) or dX.shape != X0.shape:
                continue
            for g in range(NS):
                for s in range(nspin):
                    for i in range(N0):
                        ctx.equal("dfdX0T[%d,%d,%d]#%d" % (s, i, g, pi_), H, dX[s, i, g], tm.diff(tm.lift(f[g]), X0[s, i, g]), fq,
                                  replay=replay_wrapper2(mode, nspin, rhocut))
                for k, (r0, vo, vn) in enumerate(zip(rt0, vold, vt)):
                    # with a cutoff the mask is piecewise constant in rho: the clause is checked region by region (A7 excludes only the boundary)
                    for c in range(r0.shape[0]):
                        ctx.equal("vrho_tuple[%d][%d,%d] += df/drho_tuple#%d" % (k, c, g, pi_), H, vn[c, g], tm.lift(vo[c, g]) + tm.diff(tm.lift(f[g]), r0[c, g]), fq)
            ctx.canary("canary#%d" % pi_, H, vt[0][0, 0], tm.lift(vold[0][0, 0]))
    return run


# ------------------------------------------------------------------------------------------ evaluators
def unit_evaluators(ctx):
    it = ctx.interp
    x = it.load_module(XMOD)
    # --- GlobalLinearEvaluator
    n = 3
    c = [tm.var("c%d" % i) for i in range(n)]
    ev = it.call(x.ns["GlobalLinearEvaluator"], [c], {})
    fqg = [XMOD + ":GlobalLinearEvaluator.__call__"]
    X1 = sym_array("X", (NS, n))
    r0, d0 = sym_array("r", (NS,)), sym_array("d", (NS, n))
    for label, args in (("fresh", {}), ("accumulate", {"res": r0.copy(), "dres": d0.copy()})):
        res, dres = it.call(ev, [X1.copy()], dict(args))
        val = [sum(c[i] * X1[g, i] for i in range(n)) for g in range(NS)]
        for g in range(NS):
            base = r0[g] if args else tm.ZERO
            ctx.equal("linear[%s].res[%d]" % (label, g), [], res[g], base + val[g], fqg)
            for i in range(n):
                based = d0[g, i] if args else tm.ZERO
                ctx.equal("linear[%s].dres[%d,%d]" % (label, g, i), [], dres[g, i], based + tm.diff(val[g], X1[g, i]), fqg)
    for bad in ({"res": sym_array("r", (NS + 1,))}, {"dres": sym_array("d", (NS, n + 1))}):
        rp = all_paths(it, lambda: it.call(ev, [X1.copy()], dict(bad)))
        ctx.holds("linear.bad-shape-rejected[%s]" % list(bad)[0], all(p[0] == "raise" and isinstance(p[1], ExcV) and p[1].cls.name == "ValueError" for p in rp), "", fqg)
    # --- KernelEvaluator with an abstract kernel: k[g, c] = K(x_g, c), dk[g, c, n] = D_n K
    nctrl = 3
    kcls = ClassV("_AbstractKernel", [], x)
    kern = Obj(kcls)

    def k_and_deriv(X, Xc):
        k = np.empty((X.shape[0], nctrl), dtype=object)
        dk = np.empty((X.shape[0], nctrl, n), dtype=object)
        for g in range(X.shape[0]):
            for cc in range(nctrl):
                a = [X[g, i] for i in range(n)]
                k[g, cc] = ufn("K%d" % cc, a)
                for i in range(n):
                    dk[g, cc, i] = ufn("D%d_K%d" % (i, cc), a)
        return k, dk
    kern.fields["k_and_deriv"] = Builtin("abs.k_and_deriv", k_and_deriv)
    alpha = sym_array("alpha", (nctrl,))
    ke = it.call(x.ns["KernelEvaluator"], [kern, None, alpha], {})
    fqk = [XMOD + ":KernelEvaluator.__call__"]
    res, dres = it.call(ke, [X1.copy()], {"res": r0.copy(), "dres": d0.copy()})
    for g in range(NS):
        val = sum(alpha[cc] * ufn("K%d" % cc, [X1[g, i] for i in range(n)]) for cc in range(nctrl))
        ctx.equal("kernel.res[%d]" % g, [], res[g], r0[g] + val, fqk)
        for i in range(n):
            ctx.equal("kernel.dres[%d,%d]" % (g, i), [], dres[g, i], d0[g, i] + tm.diff(val, X1[g, i]), fqk)
    ctx.canary("kernel.canary", [], res[0], r0[0])
    # chunking: the loop `for i0 in range(0, N, dn)` with dn = 2000 covers [0, N) exactly once (integer obligations)
    N_, i0, j = tm.var("N", "I"), tm.var("i0", "I"), tm.var("j", "I")
    dn = tm.const(2000)
    k_ = tm.var("k", "I")
    hy = [tm.mk_le(tm.ZERO, j), tm.mk_lt(j, N_)]
    # existence: j in chunk k = floor(j/dn); uniqueness: two chunks k != k' are disjoint
    ctx.valid("kernel.chunks-cover", hy + [tm.mk_eq(k_ * dn + tm.var("r", "I"), j), tm.mk_le(tm.ZERO, tm.var("r", "I")), tm.mk_lt(tm.var("r", "I"), dn)],
              tm.mk_and(tm.mk_le(k_ * dn, j), tm.mk_lt(j, tm.mk_min(N_, k_ * dn + dn)), tm.mk_le(tm.ZERO, k_), tm.mk_lt(k_ * dn, N_)), fqk)
    k2 = tm.var("k2", "I")
    ctx.valid("kernel.chunks-disjoint", hy + [tm.mk_le(k_ * dn, j), tm.mk_lt(j, tm.mk_min(N_, k_ * dn + dn)), tm.mk_le(k2 * dn, j), tm.mk_lt(j, tm.mk_min(N_, k2 * dn + dn))],
              tm.mk_eq(k_, k2), fqk)
    ctx.assume("KernelEvaluator: each chunk computes rows [i0,i1) from X1[i0:i1] only (k_and_deriv is row-wise by its contract, C15), so results do not depend on the chunk size")
    # --- SplineSetEvaluator: y_t, dy_t external (numba) with dy = dy/dX assumed; index scatter and scaling checked
    S = x.ns["SplineSetEvaluator"]
    scale = [tm.var("sc0"), tm.var("sc1"), tm.var("sc2")]
    ind_sets = [(0,), (1, 2), (2, 0)]
    grids = [[(0, 1, 5)], [(0, 1, 4), (0, 1, 6)], [(0, 1, 4), (0, 1, 6)]]
    coeffs = [sym_array("ca", (2,)), sym_array("cb", (2,)), sym_array("cc", (2,))]
    const = tm.var("const")
    sev = it.call(S, [scale, ind_sets, grids, coeffs], {"const": const})
    tcount = [0]

    def get_vec_eval(interp, f, args, kwargs):
        grid, coeff, X, N = args
        t = tcount[0] % 3
        tcount[0] += 1
        y = np.empty((X.shape[0],), dtype=object)
        dy = np.empty((X.shape[0], N), dtype=object)
        for s in range(X.shape[0]):
            a = [tm.lift(c_) for c_ in coeff.reshape(-1)] + [tm.lift(v) for v in X[s]]
            y[s] = ufn("S%d" % N, a)
            for k in range(N):
                dy[s, k] = ufn("D%d_S%d" % (len(coeff.reshape(-1)) + k, N), a)
        return y, dy
    it.overrides[XMOD + ":get_vec_eval"] = get_vec_eval
    fqs = [XMOD + ":SplineSetEvaluator.__call__"]
    for label, args in (("fresh", {}), ("accumulate", {"res": r0.copy(), "dres": d0.copy()})):
        res, dres = it.call(sev, [X1.copy()], dict(args))
        for g in range(NS):
            val = const
            for t in range(3):
                a = [tm.lift(c_) for c_ in coeffs[t].reshape(-1)] + [X1[g, i] for i in ind_sets[t]]
                val = val + scale[t] * ufn("S%d" % len(ind_sets[t]), a)
            base = r0[g] if args else tm.ZERO
            ctx.equal("spline[%s].res[%d]" % (label, g), [], res[g], base + val, fqs)
            for i in range(n):
                based = d0[g, i] if args else tm.ZERO
                ctx.equal("spline[%s].dres[%d,%d]" % (label, g, i), [], dres[g, i], based + tm.diff(val, X1[g, i]), fqs)
    ctx.canary("spline.canary", [], dres[0, 2], d0[0, 2])
    ctx.assume("numba cubic-spline evaluator returns (y, dy/dX) for its (grid, coeffs, X): assumed external contract; torch NNEvaluator not covered")


# ------------------------------------------------------------------------------------------ native baselines
def unit_baselines(ctx):
    it = ctx.interp
    b = it.load_module(BMOD)
    nfeat = 4
    for name in ("_lda_x_helper", "_pbe_x_helper", "_chachiyo_x_helper", "_vi_x_damp_helper"):
        f = b.ns[name]
        X = sym_array("X", (nfeat, NS))
        e0, d0 = sym_array("e", (NS,)), sym_array("d", (nfeat, NS))
        hyps = [tm.mk_lt(tm.ZERO, X[0, g]) for g in range(NS)] + [tm.mk_le(tm.ZERO, X[1, g]) for g in range(NS)] + [tm.mk_not(tm.mk_eq(X[1, g], tm.const(Q(1, 10 ** 8)))) for g in range(NS)] + [tm.mk_le(tm.ZERO, X[3, g]) for g in range(NS)]
        it.hyps = list(hyps)

        def thunk():
            Xc, e, d = X.copy(), e0.copy(), d0.copy()
            it.call(f, [Xc, e, d], {})
            return Xc, e, d
        for pi_, (o, v, pc, _) in enumerate(all_paths(it, thunk)):
            if o != "return":
                continue
            Xc, e, d = v
            H = hyps + pc
            ctx.holds("%s.frame#%d" % (name, pi_), same_elements(Xc, X), "", [BMOD + ":" + name])
            for g in range(NS):
                val = tm.lift(e[g]) - e0[g]
                for i in range(nfeat):
                    ctx.equal("%s.dedx[%d,%d] += d e/dX#%d" % (name, i, g, pi_), H, d[i, g], d0[i, g] + tm.diff(vc.simplify_ite(H, val), X[i, g]), [BMOD + ":" + name])
            ctx.canary("%s.canary#%d" % (name, pi_), H, d[0, 0], d0[0, 0])
    ctx.assume("_chachiyo_x_helper: stated for every s2 >= 0 except the switching point s2 = 1e-8 between the Taylor branch and the closed form (both branches are checked; the value jumps by O(s2^2) there)")
    # _sl_x_helper: average over spin channels
    for nspin in (1, 2):
        X = sym_array("X", (nspin, nfeat, NS))
        hyps = [tm.mk_lt(tm.ZERO, X[s, 0, g]) for s in range(nspin) for g in range(NS)]
        e, d = it.call(b.ns["lda_x"], [X.copy()], {})
        for g in range(NS):
            for s in range(nspin):
                for i in range(nfeat):
                    ctx.equal("lda_x[nspin=%d].dedx[%d,%d,%d]" % (nspin, s, i, g), hyps, d[s, i, g], tm.diff(tm.lift(e[g]), X[s, i, g]), [BMOD + ":_sl_x_helper", BMOD + ":lda_x"])
    # get_sigma / get_dsigma / get_gga_c with libxc abstract
    libxc_contract(it)
    for nspin in (1, 2):
        X = sym_array("X", (nspin, nfeat, NS))
        hyps = [tm.mk_lt(tm.ZERO, X[s, 0, g]) for s in range(nspin) for g in range(NS)] + [tm.mk_le(tm.ZERO, X[s, 1, g]) for s in range(nspin) for g in range(NS)]
        it.hyps = list(hyps)
        paths = all_paths(it, lambda: it.call(b.ns["get_gga_c"], [130, X.copy()], {}))
        for pi_, (o, v, pc, _) in enumerate(paths):
            if o != "return":
                ctx.holds("get_gga_c[nspin=%d].total#%d" % (nspin, pi_), False, "raises %s" % (v,), [BMOD + ":get_gga_c"])
                continue
            e, d = v
            for g in range(NS):
                for s in range(nspin):
                    for i in range(nfeat):
                        ctx.equal("get_gga_c[nspin=%d].dedx[%d,%d,%d]#%d" % (nspin, s, i, g, pi_), hyps + pc, d[s, i, g], tm.diff(tm.lift(e[g]), X[s, i, g]),
                                  [BMOD + ":get_gga_c", BMOD + ":get_sigma", BMOD + ":get_dsigma"])
            ctx.canary("get_gga_c[nspin=%d].canary#%d" % (nspin, pi_), hyps + pc, d[0, 1, 0], 2 * tm.diff(tm.lift(e[0]), X[0, 1, 0]))
    # libxc recombinations: get_libxc_baseline for every table entry
    for nspin in (1, 2):
        rho, sig, tau = sym_array("rho", (nspin, NS)), sym_array("sig", (2 * nspin - 1, NS)), sym_array("tau", (nspin, NS))
        hyps = [tm.mk_lt(tm.ZERO, r) for r in rho.reshape(-1)]
        it.hyps = list(hyps)
        for table in ("LDA_CODES", "GGA_CODES", "MGGA_CODES", "SS_GGA_CODES", "OS_GGA_CODES"):
            for xcid in b.ns[table]:
                tup0 = [rho] + ([sig] if table != "LDA_CODES" else []) + ([tau] if table == "MGGA_CODES" else [])
                paths = all_paths(it, lambda: (lambda tup: (it.call(b.ns["get_libxc_baseline"], [xcid, tup], {}), tup))(tuple(t.copy() for t in tup0)))
                for pi_, (o, v, pc, _) in enumerate(paths):
                    if o != "return":
                        ctx.holds("libxc[%s,nspin=%d].total#%d" % (xcid, nspin, pi_), False, "raises %s" % (v,), [BMOD + ":get_libxc_baseline"])
                        continue
                    res, tup = v
                    ctx.holds("libxc[%s,nspin=%d].frame#%d" % (xcid, nspin, pi_), all(same_elements(a, b_) for a, b_ in zip(tup, tup0)), "rho_tuple written", [BMOD + ":get_libxc_baseline"])
                    for g in range(NS):
                        for k, t0 in enumerate(tup0):
                            if k + 1 >= len(res):
                                continue
                            for c in range(t0.shape[0]):
                                if c >= np.asarray(res[k + 1], dtype=object).shape[0]:
                                    ctx.holds("libxc[%s,nspin=%d].v-shape[%d]" % (xcid, nspin, k), False, "derivative block smaller than the input block", [BMOD + ":get_libxc_baseline"])
                                    continue
                                ctx.equal("libxc[%s,nspin=%d].v%d[%d,%d]#%d" % (xcid, nspin, k, c, g, pi_), hyps + pc, res[k + 1][c, g], tm.diff(tm.lift(res[0][g]), t0[c, g]),
                                          [BMOD + ":get_libxc_baseline", BMOD + ":get_libxc_baseline_ss", BMOD + ":get_libxc_baseline_os"])
    ctx.assume("libxc (ctypes entry points get_lda/gga/mgga_baseline): energy per particle of an unspecified differentiable energy density B, v* = partial derivatives of B (libxc's documented convention); B itself uninterpreted")


# ------------------------------------------------------------------------------------------ libxc_baselines.c: the call contract of libxc
LIBXC_C = "xc_utils/libxc_baselines.c"
LIBXC_ENTRY = {"get_lda_baseline": ("xc_lda_exc_vxc", ["size", "rho", "exc", "vrho"]),
               "get_gga_baseline": ("xc_gga_exc_vxc", ["size", "rho", "sigma", "exc", "vrho", "vsigma"]),
               # libxc's meta-GGA entry takes (rho, sigma, lapl, tau, ...): the laplacian slot receives rho as a placeholder (no functional used here reads it), v2lapl = NULL
               "get_mgga_baseline": ("xc_mgga_exc_vxc", ["size", "rho", "sigma", "rho", "tau", "exc", "vrho", "vsigma", None, "vtau"])}


def unit_libxc_c(fn):
    """get_lda/gga/mgga_baseline (C): requires nothing of earlier calls; ensures the libxc evaluation is made with a functional object that was initialised
    for THIS call's (fn_id, nspin) and carries THIS call's density threshold, on this call's arrays in libxc's argument order.  xc_func_init,
    xc_func_set_dens_threshold, xc_func_end and xc_*_exc_vxc are external: contracts with ghost state (id, nspin, threshold) on the functional object.
    File-scope variables have arbitrary entry values (any history of earlier calls); the ghost state of a file-scope functional object on entry is arbitrary too."""
    def run(ctx):
        from cvc import cparse
        from cvc.csym import CSym, Arr, Ptr, CUnsupported, fresh
        fq = ["lib/%s:%s" % (LIBXC_C, fn)]
        tu = cparse.load(LIBXC_C)
        entry, order = LIBXC_ENTRY[fn]
        calls = []

        def ghost_of(sym, a):
            if not (isinstance(a, tuple) and a and a[0] == "addr"):
                raise CUnsupported("functional object not passed by address")
            name = a[1]
            if name not in sym.ghost:
                local = isinstance(a[2], dict) and name in a[2]
                # a local object is uninitialised (distinct marker values); a file-scope one holds whatever an earlier call left
                sym.ghost[name] = {k: (fresh("uninit_" + k, "I" if k != "thr" else "R") if local else fresh("entry_%s_%s" % (name, k), "I" if k != "thr" else "R")) for k in ("id", "nspin", "thr")}
                sym.ghost[name]["file_scope"] = not local
            return sym.ghost[name]

        def cond(sym):
            return tm.mk_and(*sym.guards) if sym.guards else tm.TRUE

        def c_init(sym, args):
            g = ghost_of(sym, args[0])
            c = cond(sym)
            for k, v in (("id", args[1]), ("nspin", args[2])):
                g[k] = tm.mk_ite(c, tm.lift(v), g[k]) if c is not tm.TRUE else tm.lift(v)
            return 0

        def c_thr(sym, args):
            g = ghost_of(sym, args[0])
            c = cond(sym)
            g["thr"] = tm.mk_ite(c, tm.lift(args[1]), g["thr"]) if c is not tm.TRUE else tm.lift(args[1])

        def c_end(sym, args):
            ghost_of(sym, args[0])

        def c_eval(sym, args):
            calls.append((dict((k, v) for k, v in ghost_of(sym, args[0]).items()), list(args[1:]), list(sym.guards)))
        sy = CSym([tu], contracts={"xc_func_init": c_init, "xc_func_set_dens_threshold": c_thr, "xc_func_end": c_end, entry: c_eval})
        I = lambda n_: tm.var(n_, "I")
        args = {}
        for pn, ty in tu.params(fn):
            args[pn] = Ptr(Arr(pn)) if "*" in ty else (tm.var(pn) if "double" in ty else I(pn))
        try:
            sy.run(fn, args)
        except CUnsupported as e:
            ctx.undecided("%s summarised" % fn, str(e)[:200], fq)
            return
        ctx.holds("%s makes exactly one libxc evaluation, unconditionally" % fn, len(calls) == 1 and not calls[0][2], "%d calls" % len(calls), fq)
        if len(calls) != 1:
            return
        g, cargs, _ = calls[0]
        ok = len(cargs) == len(order)
        for a, want in zip(cargs, order):
            if want is None:
                ok = ok and (a == 0 or a is None or (isinstance(a, tm.T) and a is tm.ZERO))
            elif isinstance(args[want], Ptr):
                ok = ok and isinstance(a, Ptr) and a.arr is args[want].arr and tm.lift(a.off) is tm.ZERO
            else:
                ok = ok and isinstance(a, tm.T) and a is args[want]
        ctx.holds("%s passes its own arrays to %s in libxc's argument order" % (fn, entry), ok, str(cargs)[:200], fq)
        goal = tm.mk_and(tm.mk_eq(g["id"], args["fn_id"]), tm.mk_eq(g["nspin"], args["nspin"]), tm.mk_eq(g["thr"], args["dens_threshold"]))
        v = vc.decide_valid([], goal, ctx.timeout)
        name = "%s evaluates a functional initialised for this call's (fn_id, nspin) and density threshold, whatever was called before" % fn
        if v.status == "refuted":
            rp = replay_libxc_history(fn)(v.witness)
            if rp.get("reproduced"):
                v.detail = "the functional object handed to libxc can be the one an earlier call initialised"
                r = ctx._rec("obligation", name, v, fq)
                r["replay"] = rp
            else:
                ctx.undecided(name, "solver state of the file-scope variables is not reached by the replayed two-call history (entry state is unconstrained): %s" % str(rp)[:200], fq)
        else:
            ctx._rec("obligation", name, v, fq)
    return run


def replay_libxc_history(fn):
    """Two-call history on the compiled library in a fresh process: the same functional id evaluated with nspin=1 and then nspin=2, against nspin=2 alone."""
    def replay(wit):
        import subprocess
        from pyvc import native
        out = native.build_libs()
        code = ("import ctypes, numpy as np, json, sys\n"
                "lib = ctypes.CDLL(%r)\n"
                "kind = %r\n"
                "def ev(nspin, seed=1):\n"
                "    rng = np.random.RandomState(seed); n = 5\n"
                "    rho = np.asfortranarray(rng.rand(nspin, n) + 0.3); sig = np.asfortranarray(rng.rand(2 * nspin - 1, n) + 1.0); tau = np.asfortranarray(rng.rand(nspin, n) + 1.0)\n"
                "    exc = np.zeros(n); vrho = np.zeros_like(rho); vs = np.zeros_like(sig); vt = np.zeros_like(tau)\n"
                "    p = lambda a: a.ctypes.data_as(ctypes.c_void_p)\n"
                "    if kind == 'get_lda_baseline': lib.get_lda_baseline(ctypes.c_int(1), ctypes.c_int(nspin), ctypes.c_int(n), p(rho), p(exc), p(vrho), ctypes.c_double(1e-10))\n"
                "    elif kind == 'get_gga_baseline': lib.get_gga_baseline(ctypes.c_int(101), ctypes.c_int(nspin), ctypes.c_int(n), p(rho), p(sig), p(exc), p(vrho), p(vs), ctypes.c_double(1e-10))\n"
                "    else: lib.get_mgga_baseline(ctypes.c_int(263), ctypes.c_int(nspin), ctypes.c_int(n), p(rho), p(sig), p(tau), p(exc), p(vrho), p(vs), p(vt), ctypes.c_double(1e-10))\n"
                "    return exc.tolist()\n"
                "if sys.argv[1] == 'history': ev(1)\n"
                "print(json.dumps(ev(2)))\n") % (out + "/libxc_utils.so", fn)
        res = {}
        for mode in ("fresh", "history"):
            cp = subprocess.run([sys.executable, "-c", code, mode], capture_output=True, text=True, timeout=120)
            if cp.returncode != 0:
                return {"reproduced": None, "error": cp.stderr[-300:]}
            res[mode] = json.loads(cp.stdout.strip().splitlines()[-1])
        dev = max(abs(a - b) for a, b in zip(res["fresh"], res["history"]))
        return {"reproduced": bool(dev > 1e-12), "exc_nspin2_alone": res["fresh"][:3], "exc_nspin2_after_an_nspin1_call_with_the_same_functional": res["history"][:3], "max_abs_difference": dev}
    return replay


def units():
    u = []
    for mode in ("SEP", "NPOL", "POL"):
        for nspin in (1, 2):
            for add in (False, True):
                u.append(("wrapper1/%s/nspin%d/%s" % (mode, nspin, "add" if add else "noadd"), unit_wrapper1(mode, nspin, add)))
            for level in ("lda", "gga", "mgga"):
                u.append(("wrapper2/%s/nspin%d/%s" % (mode, nspin, level), unit_wrapper2(mode, nspin, level, level != "mgga")))
    for mode in ("SEP", "NPOL", "POL"):
        for nspin in (1, 2):
            u.append(("wrapper1-rhocut/%s/nspin%d" % (mode, nspin), unit_wrapper1(mode, nspin, True, rhocut=True)))
            u.append(("wrapper2-rhocut/%s/nspin%d" % (mode, nspin), unit_wrapper2(mode, nspin, "gga", True, rhocut=True)))
    u.append(("evaluators", unit_evaluators))
    u.append(("baselines", unit_baselines))
    for fn in LIBXC_ENTRY:
        u.append(("libxc-c/" + fn, unit_libxc_c(fn)))
    from contracts import ckernels
    for fn in ("evaluate_se_kernel", "evaluate_se_kernel_antisym", "evaluate_se_kernel_spin", "evaluate_se_kernel_spin_v2"):
        u.append(("c-kernel/" + fn, ckernels.unit_se_kernel(fn)))
    # same-spin libxc recombination: derivative consistency needs the energy to be built from the density handed in — frame and layout obligations (shared with C07)
    from contracts import c07
    u.append(("libxc-ss", c07.unit_libxc_ss))
    return u


EXPLANATION = (
    "Evaluator wrappers are verified modularly: with the feature list, the function evaluators and the baselines replaced by their "
    "contracts (uninterpreted differentiable functions with their partial derivatives), the derivative array returned by "
    "MappedDFTKernel / MappedDFTKernel2 is proved to be the derivative of the returned energy density with respect to every raw feature "
    "of every spin channel, in the three spin modes, for one and two spin channels, with multiplicative and additive baselines, and the "
    "potential accumulated into vrho_tuple is its derivative with respect to (rho, sigma, tau).  The Python evaluators, the native "
    "baselines, get_sigma/get_dsigma and the libxc same-spin / opposite-spin recombinations are proved against the derivative of their own value.")
TRUSTED = [
    "A1 reals; A3/A4 numpy/Python model; A7 boundaries of piecewise guards excluded",
    "callee contracts: feature list (proved in C12), FuncEvaluator.__call__ adds (E, dE) (proved here for the Python evaluators, C kernels in the C part), libxc returns (B/rho, dB) (external)",
    "numba spline evaluator and torch are external",
    "engine C (cvc): int is mathematical in index arithmetic, double is real, parameters do not alias, loop summaries by generic iteration with inferred induction/reduction forms re-checked by re-execution; libm exp/sqrt are the mathematical functions",
]

if __name__ == "__main__":
    sys.exit(run_property("C04", "proof", units(), EXPLANATION, TRUSTED, min_obligations=300))
