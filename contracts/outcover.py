"""Output coverage of a C routine from its generic-iteration summary (engine C).

Obligation:  for every target tuple t in the box  lo_d <= t_d < hi_d  some overwriting store event of the routine writes the element  tgt_idx(t).
An event  w arr[idx(q)]  under loop variables q (ranges, guards) covers the target when q := t satisfies ranges and guards and idx(t) = tgt_idx(t)
(the loop variables are instantiated positionally with the target tuple: a sufficient condition, so a failure to find the instance is `undecided`,
never a violation, unless the solver exhibits a target no event reaches for some explicit team size).

OpenMP regions whose code runs on every thread (manual chunking by omp_get_thread_num) carry the thread id as an extra existential:  the obligation
is then decided separately for each team size T of TEAMS with the thread id expanded (bounded in T and labelled so); a counterexample names T,
the sizes and the target element and is replayed natively under OMP_NUM_THREADS = T.
"""
import re
import time

from fractions import Fraction as Q

from pyvc import terms as tm
from pyvc import vc
from pyvc.nf import NF, NFError

TEAMS = (1, 2, 3, 4, 5, 6, 7, 8, 16)


def _is_tid(v):
    return v.op == "v" and str(v.args[0]).startswith("tid#")


def _is_team_size(v):
    return v.op == "v" and (str(v.args[0]).startswith("nthreads#") or str(v.args[0]).startswith("maxthreads#"))


class _Ev(object):
    """an event with a substitution applied (team size fixed, small concrete loops and thread ids expanded)"""
    def __init__(self, qvars, guards, idx):
        self.qvars, self.guards, self.idx = qvars, guards, idx


def _expand(e, T):
    """Instances of event e for team size T: every team-size variable := T, thread ids and loops whose range is then concrete and short are enumerated;
    returns a list of _Ev whose remaining qvars are the symbolic-range loops."""
    sub0 = {}
    allt = [tm.lift(e.idx)] + [tm.lift(g) for g in e.guards] + [tm.lift(x) for q in e.qvars for x in q[1:3]]
    for t in allt:
        for u in tm.subterms(t).values():
            if _is_team_size(u) and T is not None:
                sub0[u] = tm.lift(T)
    nfc = NF()

    def conc(t):
        try:
            r = nfc.rf_to_term(nfc.nf(t))
        except NFError:
            return None
        return int(r.args[0]) if r.op == "c" and r.args[0].denominator == 1 else None
    out = [(dict(sub0), [])]
    for (v, lo, hi, step) in e.qvars:
        nxt = []
        for sub, rest in out:
            lo_, hi_ = tm.substitute(tm.lift(lo), sub), tm.substitute(tm.lift(hi), sub)
            # idiv with concrete arguments folds in the normal form only if exact; evaluate small concrete ranges numerically
            lc, hc = conc(lo_), conc(hi_)
            if lc is not None and hc is not None and hc - lc <= 32 and tm.lift(step) is tm.ONE and (T is not None or _is_tid(v)):
                for k in range(lc, hc):
                    s2 = dict(sub)
                    s2[v] = tm.lift(k)
                    nxt.append((s2, rest))
            else:
                nxt.append((sub, rest + [(v, lo_, hi_, step)]))
        out = nxt
    res = []
    for sub, rest in out:
        res.append(_Ev([(v, tm.substitute(lo, sub), tm.substitute(hi, sub), st) for v, lo, hi, st in rest], [tm.substitute(tm.lift(g), sub) for g in e.guards], tm.substitute(tm.lift(e.idx), sub)))
    return res


def _event_condition(e, targets, tgt_idx):
    """condition term or None when no instantiation scheme applies.  Two sufficient schemes, OR-ed when both apply:
       positional   loop variable i of the event := target variable i (same number of loops as target dimensions, unit steps);
       solved       one target dimension, one loop whose variable enters the index with coefficient one: v := target index - (index - v)."""
    loops = [q for q in e.qvars if not _is_tid(q[0])]
    if any(_is_tid(q[0]) for q in e.qvars):
        return None
    if any(tm.lift(q[3]) is not tm.ONE for q in loops):
        return None
    subs = []
    if len(loops) == len(targets):
        subs.append({v: t for (v, lo, hi, step), (t, tlo, thi) in zip(loops, targets)})
    if len(loops) == 1:
        v = loops[0][0]
        rest = tm.substitute(tm.lift(e.idx), {v: tm.ZERO})
        try:
            nfc = NF()
            if nfc.equal(tm.lift(e.idx), rest + v):
                subs.append({v: tm.lift(tgt_idx) - rest})
        except NFError:
            pass
    if len(loops) == 0:
        subs.append({})
    alts = []
    for sub in subs:
        conds = []
        for (v, lo, hi, step) in loops:
            conds.append(tm.mk_le(tm.substitute(tm.lift(lo), sub), sub[v]))
            conds.append(tm.mk_lt(sub[v], tm.substitute(tm.lift(hi), sub)))
        for g in e.guards:
            conds.append(tm.substitute(tm.lift(g), sub))
        conds.append(tm.mk_eq(tm.substitute(tm.lift(e.idx), sub), tgt_idx))
        alts.append(tm.mk_and(*conds))
    if not alts:
        return None
    return tm.mk_or(*alts)


_INT_FNS = {("fn", "idiv"): lambda a, b: int(a) // int(b) if (int(a) >= 0) == (int(b) > 0) or int(a) % int(b) == 0 else -((-int(a)) // int(b)),
            ("fn", "imod"): lambda a, b: int(__import__("math").fmod(int(a), int(b))), ("fn", "trunc"): lambda a: int(a)}


class _LazyEnv(dict):
    """A concrete environment in which integer-square-root variables (csym.isqrt_defs: name -> radicand) are computed on demand from the values the
    enclosing loop variables have at that point — they are functions of those, not free inputs."""
    defs = {}

    def __contains__(self, k):
        return dict.__contains__(self, k) or k in self.defs

    def __getitem__(self, k):
        if dict.__contains__(self, k):
            return dict.__getitem__(self, k)
        if k in self.defs:
            import math
            u = int(tm.evaluate(tm.lift(self.defs[k]), self))
            if u < 0:
                raise ValueError(k)
            return math.isqrt(u)
        raise KeyError(k)

    def extended(self, name, x):
        e2 = _LazyEnv(self)
        e2.defs = self.defs
        e2[name] = x
        return e2


def confirm_uncovered(events, env, tgt_value, limit=400000, defs=None):
    """Exact check on ONE concrete input (every size, the team size and the target element fixed by `env`): enumerate every instance of every store event and
    see whether any writes the target element.  True = no instance does (a genuine counterexample), False = some instance does (the solver's model only defeated
    the instantiation schemes), None = not computable (tables / data-dependent terms without a value)."""
    import re
    ev_env = _LazyEnv(_INT_FNS)
    ev_env.defs = dict(defs or {})
    tables = {}
    for k, v in env.items():
        m_ = re.match(r"^(.+)\[(-?\d+(?:, -?\d+)*)\]$", str(k))
        if m_:
            tables.setdefault(m_.group(1), {})[tuple(int(x) for x in m_.group(2).split(", "))] = v
        else:
            ev_env[str(k)] = v
    for name, tab in tables.items():
        def look(*a, tab=tab):
            if tuple(a) not in tab:
                raise KeyError(a)
            return tab[tuple(a)]
        ev_env[("fn", name)] = look
    count = [0]

    def computable(t):
        for u in tm.subterms(tm.lift(t)).values():
            if (u.op == "fi" and u.args[0] not in tables) or (u.op == "f" and ("fn", u.args[0]) not in _INT_FNS) or u.op == "sum":
                return False
        return True

    def rec(e, k, env_):
        if k == len(e.qvars):
            count[0] += 1
            try:
                if all(tm.evaluate(tm.lift(g), env_) for g in e.guards) and int(tm.evaluate(tm.lift(e.idx), env_)) == tgt_value:
                    return True
            except (KeyError, ValueError, ZeroDivisionError):
                raise LookupError
            return False
        v, lo, hi, step = e.qvars[k]
        try:
            lo_, hi_, st_ = int(tm.evaluate(tm.lift(lo), env_)), int(tm.evaluate(tm.lift(hi), env_)), int(tm.evaluate(tm.lift(step), env_))
        except (KeyError, ValueError, ZeroDivisionError):
            raise LookupError
        for x in range(lo_, hi_, max(st_, 1)):
            if count[0] > limit:
                raise LookupError
            if rec(e, k + 1, env_.extended(v.args[0], x)):
                return True
        return False
    try:
        for e in events:
            if not all(computable(t) for t in [e.idx] + list(e.guards) + [x for q in e.qvars for x in q[1:]]):
                return None
            if rec(e, 0, ev_env):
                return False
    except LookupError:
        return None
    return True


def _concrete_env(inp, defs):
    base = _LazyEnv(_INT_FNS)
    base.defs = dict(defs or {})
    tabs = {}
    for k, v in inp.items():
        m_ = re.match(r"^(.+)\[(-?\d+)\]$", str(k))
        if m_:
            tabs.setdefault(m_.group(1), {})[int(m_.group(2))] = v
        else:
            base[str(k)] = v
    for name, tab in tabs.items():
        base[("fn", name)] = lambda *a, tab=tab: tab[int(a[0])]
    return base


def written_set(events, env, limit=2000000):
    """Every element index some instance of `events` writes on the concrete input `env` (a _LazyEnv): exact enumeration of the loop nests."""
    out = set()
    count = [0]

    def rec(e, k, env_):
        if k == len(e.qvars):
            count[0] += 1
            if count[0] > limit:
                raise OverflowError
            if all(tm.evaluate(tm.lift(g), env_) for g in e.guards):
                out.add(int(tm.evaluate(tm.lift(e.idx), env_)))
            return
        v, lo, hi, step = e.qvars[k]
        lo_, hi_, st_ = int(tm.evaluate(tm.lift(lo), env_)), int(tm.evaluate(tm.lift(hi), env_)), int(tm.evaluate(tm.lift(step), env_))
        for x in range(lo_, hi_, max(st_, 1)):
            rec(e, k + 1, env_.extended(v.args[0], x))
    for e in events:
        rec(e, 0, env)
    return out


def probe(events, targets, tgt_idx, inputs, defs=None, limit=200000):
    """Concrete-input stand-in for events the instantiation schemes do not reach (loops over a data-dependent shell index, integer square roots): on each
    input of `inputs` (every scalar and every table entry given) enumerate every store instance exactly, then every element of the required set.
    Returns ("refuted", detail, witness) for the first element no instance writes, ("bounded", detail, None) when every element of every input is written,
    ("undecided", detail, None) when something is not computable.  Never a proof: labelled bounded."""
    n_el = 0
    for inp in inputs:
        base = _concrete_env(inp, defs)

        def elems(k, env_):
            if k == len(targets):
                yield env_
                return
            t, lo, hi = targets[k]
            for x in range(int(tm.evaluate(tm.lift(lo), env_)), int(tm.evaluate(tm.lift(hi), env_))):
                for r in elems(k + 1, env_.extended(t.args[0], x)):
                    yield r
        try:
            written = written_set(events, base)
            for env_ in elems(0, base):
                n_el += 1
                if n_el > limit:
                    return "undecided", "more than %d elements" % limit, None
                tv = int(tm.evaluate(tm.lift(tgt_idx), env_))
                if tv not in written:
                    w = dict((str(k), v) for k, v in inp.items())
                    w.update({t.args[0]: int(env_[t.args[0]]) for t, _, _ in targets})
                    w["target_element"] = tv
                    return "refuted", "no store instance writes element %s on this input (every instance enumerated)" % tv, w
        except (KeyError, ValueError, ZeroDivisionError, OverflowError) as e:
            return "undecided", "probe input not computable: %r" % (e,), None
    return "bounded", "%d required elements on %d concrete inputs, each written by some store instance" % (n_el, len(inputs)), None


def coverage(events, targets, tgt_idx, hyps, timeout=10.0, teams=TEAMS):
    """events: overwriting store events on the output array; targets: [(var, lo, hi)]; returns (status, backend, detail, witness) with status in
    discharged | bounded (discharged for every team size of `teams` only) | refuted | undecided.  `refuted` is returned only when the solver's input is
    confirmed by exact enumeration of every store instance on that input (confirm_uncovered)."""
    H = list(hyps)
    for t, lo, hi in targets:
        H += [tm.mk_le(tm.lift(lo), t), tm.mk_lt(t, tm.lift(hi))]
    teamed = any(_is_tid(q[0]) for e in events for q in e.qvars) or any(_is_team_size(u) for e in events for t in [tm.lift(e.idx)] + [tm.lift(g) for g in e.guards] + [tm.lift(x) for q in e.qvars for x in q[1:3]]
                                                                      for u in tm.subterms(t).values())

    def team_vars():
        vs = set()
        for e in events:
            for t in [tm.lift(e.idx)] + [tm.lift(g) for g in e.guards] + [tm.lift(x) for q in e.qvars for x in q[1:3]]:
                for u in tm.subterms(t).values():
                    if _is_team_size(u):
                        vs.add(u)
        return vs

    def refutation(v, T):
        w = dict(v.witness or {})
        env = {}
        for k, val in w.items():
            try:
                env[str(k)] = int(Q(str(val)))
            except (ValueError, ZeroDivisionError, TypeError):
                pass
        if T is not None:
            for u in team_vars():
                env[u.args[0]] = T
            w["omp_team_size"] = T
        try:
            tv = int(tm.evaluate(tm.lift(tgt_idx), dict(_INT_FNS, **{k: v_ for k, v_ in env.items()})))
        except (KeyError, ValueError, ZeroDivisionError):
            tv = None
        conf = confirm_uncovered(events, env, tv) if tv is not None else None
        w["target_element"] = tv
        if conf is True:
            return "refuted", v.backend, ("team size %d: " % T if T is not None else "") + "no store instance writes element %s on this input (every instance enumerated)" % tv, w
        if conf is False:
            return "undecided", v.backend, "the instantiation schemes fail on an input where the element is in fact written (incomplete, not a counterexample)", None
        return "undecided", v.backend, "solver model not confirmable by enumeration (tables or data-dependent terms)", None
    for T in (teams if teamed else (None,)):
        disj = []
        for e in events:
            for inst in _expand(e, T):
                c = _event_condition(inst, targets, tgt_idx)
                if c is not None:
                    disj.append(c)
        if not disj:
            return "undecided", "engine", "no store event has a loop structure the instantiation schemes apply to", None
        HT = [tm.substitute(tm.lift(h), {u: tm.lift(T) for u in team_vars()}) for h in H] if T is not None else H
        v = vc.decide_valid(HT, tm.mk_or(*disj), timeout)
        if v.status == "refuted":
            return refutation(v, T)
        if v.status != "discharged":
            return "undecided", v.backend, ("team size %d: " % T if T is not None else "") + str(v.detail), None
    if teamed:
        return "bounded", "smt", "every team size in %s" % (list(teams),), None
    return "discharged", v.backend, v.detail, None


def record(ctx, name, events, targets, tgt_idx, hyps, fq, replay=None, teams=TEAMS):
    st, be, detail, wit = coverage(events, targets, tgt_idx, hyps, ctx.timeout, teams)
    if st == "bounded":
        return ctx.bounded(name, True, "OpenMP team size in %s; all array sizes" % (list(teams),), detail)
    v = vc.Verdict(st, be, detail, witness=wit)
    return ctx._rec("obligation", name, v, fq, replay)


# ------------------------------------------------------------------ code that chunks its work by thread id: bounds and write/write disjointness per team size
def _team_instances(e, T):
    """[(substitution for (tid, nthreads), tid value)] of a thread-level event for team size T."""
    team = [(q[0], q[2]) for q in e.qvars if _is_tid(q[0])]
    outs = [{}]
    for tid, nth in team:
        outs = [dict(list(a.items()) + [(tid, tm.lift(k))] + ([(tm.lift(nth), tm.lift(T))] if tm.lift(nth).op == "v" else [])) for a in outs for k in range(T)]
    return outs


def _ranges(e, sub):
    cs = []
    for v, lo, hi, step in e.qvars:
        if _is_tid(v):
            continue
        cs += [tm.mk_le(tm.substitute(tm.lift(lo), sub), v), tm.mk_lt(v, tm.substitute(tm.lift(hi), sub))]
    return cs + [tm.substitute(tm.lift(g), sub) for g in e.guards if not any(_is_tid(u) and u not in sub for u in tm.free_vars(tm.lift(g)))]


def team_bounds(ctx, name, events, extent, hyps, fq, teams=TEAMS):
    """every store instance of every thread stays inside [0, extent), for each team size (bounded in the team size)"""
    from pyvc import intarith
    for T in teams:
        for e in events:
            for sub in _team_instances(e, T):
                # team-size variables that are not attached to a thread id (omp_get_max_threads() read outside the region) take the same value
                for t_ in [tm.lift(e.idx)] + [tm.lift(g_) for g_ in e.guards] + [tm.lift(x_) for q in e.qvars for x_ in q[1:3]]:
                    for u in tm.subterms(t_).values():
                        if _is_team_size(u) and u not in sub:
                            sub[u] = tm.lift(T)
                idx = tm.substitute(tm.lift(e.idx), sub)
                HT = [tm.substitute(tm.lift(h), sub) for h in hyps] + _ranges(e, sub)
                r_, env, be = intarith.check_sat_int(HT + [tm.mk_not(tm.mk_and(tm.mk_le(tm.ZERO, idx), tm.mk_lt(idx, tm.substitute(tm.lift(extent), sub))))], ctx.timeout)
                if r_ == "sat":
                    w = dict(env or {})
                    w["omp_team_size"] = T
                    return ctx._rec("obligation", name, vc.Verdict("refuted", be, "team size %d: a thread stores outside the array" % T, witness=w), fq)
                if r_ != "unsat":
                    return ctx.undecided(name, "team size %d: solver unknown" % T, fq)
    return ctx.bounded(name, True, "OpenMP team size in %s; all array sizes" % (list(teams),), "")


def team_disjoint(ctx, name, events, hyps, fq, teams=TEAMS):
    """two different threads never store to the same element, for each team size (bounded in the team size)"""
    from pyvc import intarith
    from cvc.csym import fresh
    for T in teams:
        insts = [(e, sub) for e in events for sub in _team_instances(e, T)]
        for a in range(len(insts)):
            for b in range(a + 1, len(insts)):
                (e1, s1), (e2, s2) = insts[a], insts[b]
                t1 = [s1[q[0]].args[0] for q in e1.qvars if _is_tid(q[0])]
                t2 = [s2[q[0]].args[0] for q in e2.qvars if _is_tid(q[0])]
                if t1 == t2:
                    continue            # the same thread: sequential
                ren = {q[0]: fresh(str(q[0].args[0]).split("#")[0] + "'") for q in e2.qvars if not _is_tid(q[0])}
                r2 = [tm.substitute(c, ren) for c in _ranges(e2, s2)]
                i1 = tm.substitute(tm.lift(e1.idx), s1)
                i2 = tm.substitute(tm.substitute(tm.lift(e2.idx), s2), ren)
                HT = [tm.substitute(tm.lift(h), s1) for h in hyps] + _ranges(e1, s1) + r2
                r_, env, be = intarith.check_sat_int(HT + [tm.mk_eq(i1, i2)], ctx.timeout)
                if r_ == "sat":
                    w = dict(env or {})
                    w["omp_team_size"] = T
                    return ctx._rec("obligation", name, vc.Verdict("refuted", be, "team size %d: threads %s and %s store to the same element" % (T, t1, t2), witness=w), fq)
                if r_ != "unsat":
                    return ctx.undecided(name, "team size %d: solver unknown" % T, fq)
    return ctx.bounded(name, True, "OpenMP team size in %s; all array sizes" % (list(teams),), "")
