"""Output coverage of a C routine from its generic-iteration summary (engine C).

Obligation:  for every target tuple t in the box  lo_d <= t_d < hi_d  some overwriting store event of the routine writes the element  tgt_idx(t).
An event  w arr[idx(q)]  under loop variables q (ranges, guards) covers the target when q := t satisfies ranges and guards and idx(t) = tgt_idx(t)
(the loop variables are instantiated positionally with the target tuple: a sufficient condition, so a failure to find the instance is `undecided`,
never a violation, unless the solver exhibits a target no event reaches for some explicit team size).

OpenMP regions whose code runs on every thread (manual chunking by omp_get_thread_num) carry the thread id as an extra existential:  the obligation
is then decided separately for each team size T of TEAMS with the thread id expanded (bounded in T and labelled so); a counterexample names T,
the sizes and the target element and is replayed natively under OMP_NUM_THREADS = T.
"""
import time

from pyvc import terms as tm
from pyvc import vc

TEAMS = (1, 2, 3, 4, 5, 6, 7, 8, 16)


def _is_tid(v):
    return v.op == "v" and str(v.args[0]).startswith("tid#")


def _event_condition(e, targets, tgt_idx):
    """(condition term, [(tid var, nthreads term)]) or None when the event cannot be instantiated positionally."""
    team = [(q[0], q[2]) for q in e.qvars if _is_tid(q[0])]
    loops = [q for q in e.qvars if not _is_tid(q[0])]
    if len(loops) != len(targets):
        return None
    sub = {}
    conds = []
    for (v, lo, hi, step), (t, tlo, thi) in zip(loops, targets):
        if tm.lift(step) is not tm.ONE:
            return None
        sub[v] = t
    for (v, lo, hi, step) in loops:
        conds.append(tm.mk_le(tm.substitute(tm.lift(lo), sub), sub[v]))
        conds.append(tm.mk_lt(sub[v], tm.substitute(tm.lift(hi), sub)))
    for g in e.guards:
        conds.append(tm.substitute(tm.lift(g), sub))
    conds.append(tm.mk_eq(tm.substitute(tm.lift(e.idx), sub), tgt_idx))
    return tm.mk_and(*conds), team


def coverage(events, targets, tgt_idx, hyps, timeout=10.0, teams=TEAMS):
    """events: overwriting store events on the output array; targets: [(var, lo, hi)]; returns (status, backend, detail, witness) with status in
    discharged | bounded (discharged for every team size of `teams` only) | refuted | undecided."""
    t0 = time.time()
    H = list(hyps)
    for t, lo, hi in targets:
        H += [tm.mk_le(tm.lift(lo), t), tm.mk_lt(t, tm.lift(hi))]
    plain, teamed = [], []
    for e in events:
        c = _event_condition(e, targets, tgt_idx)
        if c is None:
            continue
        (teamed if c[1] else plain).append(c)
    if not plain and not teamed:
        return "undecided", "engine", "no store event has the loop structure of the target box", None
    if not teamed:
        v = vc.decide_valid(H, tm.mk_or(*[c for c, _ in plain]), timeout)
        return v.status, v.backend, v.detail, v.witness
    for T in teams:
        disj = [c for c, _ in plain]
        for c, team in teamed:
            assigns = [{}]
            for tid, nth in team:
                assigns = [dict(list(a.items()) + [(tid, tm.lift(k))]) for a in assigns for k in range(T)]
            for a in assigns:
                m = dict(a)
                for tid, nth in team:
                    if tm.lift(nth).op == "v":
                        m[tm.lift(nth)] = tm.lift(T)
                disj.append(tm.substitute(c, m))
        HT = [tm.substitute(h, {tm.lift(nth): tm.lift(T) for _, team in teamed for _, nth in team if tm.lift(nth).op == "v"}) for h in H]
        v = vc.decide_valid(HT, tm.mk_or(*disj), timeout)
        if v.status == "refuted":
            w = dict(v.witness or {})
            w["omp_team_size"] = T
            return "refuted", v.backend, "team size %d: %s" % (T, v.detail), w
        if v.status != "discharged":
            return "undecided", v.backend, "team size %d: %s" % (T, v.detail), None
    return "bounded", "smt", "every team size in %s" % (list(teams),), None


def record(ctx, name, events, targets, tgt_idx, hyps, fq, replay=None, teams=TEAMS):
    st, be, detail, wit = coverage(events, targets, tgt_idx, hyps, ctx.timeout, teams)
    if st == "bounded":
        return ctx.bounded(name, True, "OpenMP team size in %s; all array sizes" % (list(teams),), detail)
    v = vc.Verdict(st, be, detail, witness=wit)
    return ctx._rec("obligation", name, v, fq, replay)
