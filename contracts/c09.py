"""C09 — results are independent of batching, blocking, call history and input aliasing.

Contracts (Python sources re-parsed from /repo on every run; heavy callees replaced by their contracts):

  (a) frames (assigns): each listed entry point leaves every element of every caller-owned array argument unchanged, except the arguments its
      documentation declares as buffers / accumulators (`_` suffix, out / buf / vrho_data):
         settings.get_cider_exponent(_gga), get_s2, get_alpha; NLDFAuxiliaryPlan.eval_rho_full (f, rho_data), eval_vxc_full (vfeat, dfeat, rho_data;
         vrho_data is the documented accumulator), get_function_to_convolve; FeatNormalizerList.get_normalized_feature_vector /
         get_derivative_*; FeatureList.__call__; MappedXC.__call__; KernelEvaluator / GlobalLinearEvaluator / SplineSetEvaluator.__call__ (X1)
      and repeating the call on the same arguments returns the same values (no hidden state in the arguments)
  (b) batch contracts: nr_rks / nr_uks / nr_rks_nldf / nr_uks_nldf with the integrator object replaced by its contract (uninterpreted block evaluation,
      feature generators with *ghost state* recording which density their cache belongs to): for two density matrices in one call, slot k of
      (nelec, excsum, vmat) is exactly the term a separate call with dms[k] produces; feature-generator caches are only consumed for the density
      they were filled from
  (c) call history: NLDFAuxiliaryPlan's per-spin caches are distinct objects; interleaving eval_rho_full(spin 0), eval_rho_full(spin 1),
      eval_vxc_full(spin 0) gives the potential of a fresh plan; repeating eval_vxc_full on fresh copies of the same arguments gives the same result
  (d) chunking / blocking: KernelEvaluator over N samples around its internal chunk size (N = 1999, 2000, 2001, 4001: bounded stand-in) returns the
      per-sample kernel sum for every sample; results of the evaluators are pointwise in the sample index (C04), hence chunk independent
"""
import os
import sys

sys.path.insert(0, os.path.dirname(os.path.dirname(os.path.abspath(__file__))))

import itertools
import warnings
import numpy as np
from fractions import Fraction as Q

warnings.filterwarnings("ignore")

from pyvc import terms as tm
from pyvc import vc
from pyvc.framework import run_property
from pyvc.interp import Interp, Obj, ClassV, Builtin, PyRaise, Unsupported, ExcV, FuncV
from contracts.common import *
from cvc import oblig
from contracts.evalharness import ufn, abstract_feature_list, abstract_evaluator
from contracts.planharness import make_settings, make_plan

SMOD = "ciderpress.dft.settings"
PMOD = "ciderpress.dft.plans"
XMOD = "ciderpress.dft.xc_evaluator"
NMOD = "ciderpress.pyscf.numint"
FMOD = "ciderpress.dft.feat_normalizer"


def unchanged(ctx, name, before, after, fq, replay=None):
    ok = before.shape == after.shape and all(tm.lift(a) is tm.lift(b) for a, b in zip(before.reshape(-1), after.reshape(-1)))
    bad = [] if ok else [i for i, (a, b) in enumerate(zip(before.reshape(-1), after.reshape(-1))) if tm.lift(a) is not tm.lift(b)][:4]
    ctx.holds(name, ok, "elements %s of the caller's array were overwritten" % bad, fq, replay=replay)


# ------------------------------------------------------------------ (a) frames of the pointwise routines
def unit_frames_settings(ctx):
    it = ctx.interp
    m = it.load_module(SMOD)
    RC = tm.var("rhocut")
    for fn, nargs in (("get_cider_exponent", 3), ("get_cider_exponent_gga", 2)):
        fq = ["%s:%s" % (SMOD, fn)]
        for nspin in (1, 2):
            rho, sigma, tau = sym_array("rho", (NS,)), sym_array("sigma", (NS,)), sym_array("tau", (NS,))
            args = [rho.copy(), sigma.copy(), tau.copy()][:nargs]
            kw = {"a0": tm.var("a0"), "grad_mul": tm.var("gm"), "rhocut": RC, "nspin": nspin}
            if nargs == 3:
                kw["tau_mul"] = tm.var("tm")
            it.hyps = [tm.mk_lt(tm.ZERO, RC)]
            paths = all_paths(it, lambda: it.call(m.ns[fn], [a for a in args], dict(kw)))
            # the same argument objects are reused by every path: compare after all paths ran (any path that writes shows up)
            for nm, b, a in zip(("rho", "sigma", "tau"), (rho, sigma, tau), args):
                unchanged(ctx, "%s[nspin=%d] does not modify the caller's %s" % (fn, nspin, nm), b, a, fq, replay=replay_exponent(fn))
            ctx.holds("%s[nspin=%d] returns on every path" % (fn, nspin), all(p[0] == "return" for p in paths) and len(paths) > 0, "", fq)
    for fn in ("get_s2", "get_alpha"):
        f = m.ns.get(fn)
        if not isinstance(f, FuncV):
            continue
        fq = ["%s:%s" % (SMOD, fn)]
        rho, sigma, tau = sym_array("rho", (NS,)), sym_array("sigma", (NS,)), sym_array("tau", (NS,))
        args = [rho.copy(), sigma.copy()] if fn == "get_s2" else [rho.copy(), sigma.copy(), tau.copy()]
        try:
            all_paths(it, lambda: it.call(f, list(args), {}))
        except (Unsupported, PyRaise) as e:
            ctx.assume("%s frame not checked: %s" % (fn, e))
            continue
        for nm, b, a in zip(("rho", "sigma", "tau"), (rho, sigma, tau), args):
            unchanged(ctx, "%s does not modify the caller's %s" % (fn, nm), b, a, fq)


def replay_exponent(fn):
    def replay(wit):
        from pyvc import native
        native.install_shim()
        import ciderpress.dft.settings as S
        rho, sigma, tau = np.array([1e-12, 0.3, 0.5]), np.array([0.2, 0.1, 0.4]), np.array([0.3, 0.2, 0.1])
        s0, t0 = sigma.copy(), tau.copy()
        if fn == "get_cider_exponent":
            S.get_cider_exponent(rho, sigma, tau, a0=1.0, grad_mul=0.1, tau_mul=0.03, rhocut=1e-10, nspin=1)
        else:
            S.get_cider_exponent_gga(rho, sigma, a0=1.0, grad_mul=0.1, rhocut=1e-10, nspin=1)
        return {"reproduced": bool(not np.array_equal(sigma, s0) or not np.array_equal(tau, t0)), "sigma_before": s0.tolist(), "sigma_after": sigma.tolist(), "tau_after": tau.tolist()}
    return replay


def unit_frames_plan(version, level):
    def run(ctx):
        it = ctx.interp
        hyps = []
        st = make_settings(it, version, level, "one", hyps)
        RC = tm.var("rhocut")
        hyps.append(tm.mk_lt(tm.ZERO, RC))
        nalpha = 3                         # more control points than grid points in the block (NS = 2): block size must not matter
        nrho = 5 if level == "MGGA" else 4
        fq = [PMOD + ":NLDFAuxiliaryPlan." + n for n in ("eval_rho_full", "eval_vxc_full", "eval_vxc_vj_", "get_function_to_convolve", "_cache_l1_vectors", "_cache_p_tensor", "__init__")]
        tag = "plan[%s,%s]" % (version, level)

        def setup(nspin):
            p = make_plan(it, st, nspin, nalpha=nalpha, hyps=list(hyps), rhocut=RC)
            nvi = it.getattr(p, "num_vi_ints")
            nrow = (0 if version == "i" else nalpha) + nvi
            return p, nrow
        p2, nrow = setup(2)
        # (c) per-spin caches are distinct objects
        for cname in ("_cached_l1_data", "_cached_p_i_qg"):
            c = p2.fields.get(cname)
            ok = isinstance(c, dict) and len(c) == 2 and c[0] is not c[1]
            ctx.holds("%s %s holds one separate container per spin" % (tag, cname), ok, "%r" % (type(c),), fq, replay=replay_spin_cache())
        nfeat = it.getattr(st, "nfeat")
        nvj = it.getattr(st, "num_feat_param_sets")

        def data(pre):
            f = sym_array(pre + "f", (NS, nrow))
            r = sym_array(pre + "r", (nrho, NS))
            return f, r
        fa, ra = data("a")
        fb, rb = data("b")
        H = list(hyps)
        for r in (ra, rb):
            H += [tm.mk_lt(RC, x) for x in r[0]]
            if level == "MGGA":
                H += [tm.mk_le(tm.ZERO, x) for x in r[4]]
        it.hyps = list(H)
        vfeat = sym_array("vfeat", (nfeat, NS))
        vrho = sym_array("vrho", (nrho, NS))

        def first_return(thunk):
            ps = [p for p in all_paths(it, thunk) if p[0] == "return"]
            return ps[0][1] if ps else None

        # --- frames of eval_rho_full
        fa_in, ra_in = fa.copy(), ra.copy()
        out = first_return(lambda: it.call_method(p2, "eval_rho_full", [fa_in, ra_in], {"spin": 0}))
        ctx.holds("%s eval_rho_full returns" % tag, out is not None, "", fq)
        if out is None:
            return
        feat_a, dfeat_a = out
        unchanged(ctx, "%s eval_rho_full does not modify the caller's interpolation coefficients f" % tag, fa, fa_in, fq)
        unchanged(ctx, "%s eval_rho_full does not modify the caller's rho_data" % tag, ra, ra_in, fq, replay=replay_rho_data())
        # --- interleave the other spin, then the potential of spin 0
        fb_in, rb_in = fb.copy(), rb.copy()
        first_return(lambda: it.call_method(p2, "eval_rho_full", [fb_in, rb_in], {"spin": 1}))
        vfeat_in, vrho_in, dfeat_in, ra_in2 = vfeat.copy(), vrho.copy(), np.array(dfeat_a, dtype=object).copy(), ra.copy()
        dfeat_keep = dfeat_in.copy()
        vf = first_return(lambda: it.call_method(p2, "eval_vxc_full", [vfeat_in, vrho_in, dfeat_in, ra_in2], {"spin": 0}))
        ctx.holds("%s eval_vxc_full returns (also for a block with fewer grid points than control points)" % tag, vf is not None, "", fq, replay=replay_small_block())
        if vf is None:
            return
        unchanged(ctx, "%s eval_vxc_full does not modify the caller's vfeat" % tag, vfeat, vfeat_in, fq, replay=replay_vfeat())
        unchanged(ctx, "%s eval_vxc_full does not modify the caller's dfeat" % tag, dfeat_keep, dfeat_in, fq)
        unchanged(ctx, "%s eval_vxc_full does not modify the caller's rho_data" % tag, ra, ra_in2, fq)
        # --- the same sequence on a fresh plan without the interleaved spin-1 call
        p3, _ = setup(2)
        first_return(lambda: it.call_method(p3, "eval_rho_full", [fa.copy(), ra.copy()], {"spin": 0}))
        vrho_ref = vrho.copy()
        vf_ref = first_return(lambda: it.call_method(p3, "eval_vxc_full", [vfeat.copy(), vrho_ref, np.array(dfeat_a, dtype=object).copy(), ra.copy()], {"spin": 0}))
        vf, vf_ref = np.asarray(vf, dtype=object), np.asarray(vf_ref, dtype=object)
        ctx.holds("%s potential shapes" % tag, vf.shape == vf_ref.shape, "", fq)
        for idx in itertools.product(*[range(k) for k in vf.shape]):
            ctx.equal("%s interleaving the other spin's feature evaluation does not change the spin-0 potential vf%s" % (tag, list(idx)), H, vf[idx], vf_ref[idx], fq, replay=replay_spin_cache())
        for idx in itertools.product(*[range(k) for k in vrho.shape]):
            ctx.equal("%s ... nor the accumulated vrho_data%s" % (tag, list(idx)), H, vrho_in[idx], vrho_ref[idx], fq, replay=replay_spin_cache())
        # --- repeated potential evaluation with the SAME argument objects gives the same answer (no state left in the arguments)
        vrho_again = vrho.copy()
        vf2 = first_return(lambda: it.call_method(p2, "eval_vxc_full", [vfeat_in, vrho_again, dfeat_in, ra_in2], {"spin": 0}))
        vf2 = np.asarray(vf2, dtype=object)
        for idx in itertools.product(*[range(k) for k in vf.shape]):
            ctx.equal("%s repeating eval_vxc_full with the same vfeat object gives the same vf%s" % (tag, list(idx)), H, vf2[idx], vf[idx], fq, replay=replay_vfeat())
        ctx.canary("%s canary" % tag, H, vf[(0,) * vf.ndim], 2 * tm.lift(vf[(0,) * vf.ndim]) + 1)
    return run


def _native_plan(nspin=2):
    from pyvc import native
    native.install_shim()
    from ciderpress.dft.settings import NLDFSettingsVIJ
    from ciderpress.dft.plans import NLDFGaussianPlan
    st = NLDFSettingsVIJ("MGGA", [1.0, 0.0, 0.03125], "one", ["se_ap", "se"], ["se_grad"], [(0, 0), (-1, 0)], ["se"], [[2.0, 0.0, 0.04]])
    return st, NLDFGaussianPlan(st, nspin, 0.01, 1.8, 12, coef_order="qg")


def replay_rho_data():
    def replay(wit):
        st, plan = _native_plan(1)
        rng = np.random.RandomState(1)
        ng = 16
        rho_data = rng.rand(5, ng) + 0.1
        rho_data[0, :2] = 1e-14           # below the density cutoff
        keep = rho_data.copy()
        f = rng.rand(plan.nalpha + plan.num_vi_ints, ng)
        plan.eval_rho_full(f, rho_data, spin=0)
        return {"reproduced": bool(not np.array_equal(keep, rho_data)), "tau_before": keep[4].tolist(), "tau_after": rho_data[4].tolist()}
    return replay


def replay_vfeat():
    def replay(wit):
        st, plan = _native_plan(2)
        rng = np.random.RandomState(1)
        ng = 16
        rho_data = rng.rand(5, ng) + 0.1
        f = rng.rand(plan.nalpha + plan.num_vi_ints, ng)
        feat, dfeat = plan.eval_rho_full(f, rho_data.copy(), spin=0)
        vfeat = rng.rand(st.nfeat, ng)
        keep = vfeat.copy()
        a = plan.eval_vxc_full(vfeat, np.zeros_like(rho_data), dfeat, rho_data.copy(), spin=0).copy()
        b = plan.eval_vxc_full(vfeat, np.zeros_like(rho_data), dfeat, rho_data.copy(), spin=0).copy()
        return {"reproduced": bool(not np.array_equal(keep, vfeat) or not np.allclose(a, b)), "vfeat_changed": bool(not np.array_equal(keep, vfeat)), "max_diff_between_repeated_calls": float(np.max(np.abs(a - b)))}
    return replay


def replay_small_block():
    def replay(wit):
        st, plan = _native_plan(1)
        rng = np.random.RandomState(1)
        ng = 4                      # fewer grid points than control points (12)
        rho_data = rng.rand(5, ng) + 0.1
        f = rng.rand(plan.nalpha + plan.num_vi_ints, ng)
        feat, dfeat = plan.eval_rho_full(f, rho_data.copy(), spin=0)
        try:
            plan.eval_vxc_full(rng.rand(st.nfeat, ng), np.zeros_like(rho_data), dfeat, rho_data.copy(), spin=0)
        except Exception as e:
            return {"reproduced": True, "ngrids": ng, "nalpha": int(plan.nalpha), "raised": "%s: %s" % (type(e).__name__, e)}
        return {"reproduced": False}
    return replay


def replay_spin_cache():
    def replay(wit):
        st, plan = _native_plan(2)
        rng = np.random.RandomState(1)
        ng = 16
        ra, rb = rng.rand(5, ng) + 0.1, rng.rand(5, ng) + 0.1
        fa, fb = rng.rand(plan.nalpha + plan.num_vi_ints, ng), rng.rand(plan.nalpha + plan.num_vi_ints, ng)
        vfeat = rng.rand(st.nfeat, ng)
        feat, dfeat = plan.eval_rho_full(fa, ra.copy(), spin=0)
        plan.eval_rho_full(fb, rb.copy(), spin=1)
        v1 = plan.eval_vxc_full(vfeat.copy(), np.zeros_like(ra), dfeat, ra.copy(), spin=0).copy()
        st2, fresh = _native_plan(2)
        feat2, dfeat2 = fresh.eval_rho_full(fa, ra.copy(), spin=0)
        v2 = fresh.eval_vxc_full(vfeat.copy(), np.zeros_like(ra), dfeat2, ra.copy(), spin=0).copy()
        return {"reproduced": bool(not np.allclose(v1, v2)), "max_abs_diff": float(np.max(np.abs(v1 - v2)))}
    return replay


def unit_frames_eval(ctx):
    """Evaluators and normaliser list: the sample matrix / raw feature array handed in is not modified."""
    it = ctx.interp
    x = it.load_module(XMOD)
    n = 3
    X1 = sym_array("x", (NS, n))
    fq = [XMOD + ":GlobalLinearEvaluator.__call__", XMOD + ":KernelEvaluator.__call__", XMOD + ":SplineSetEvaluator.__call__"]
    ev = it.call(x.ns["GlobalLinearEvaluator"], [sym_array("c", (n,))], {})
    X1_in = X1.copy()
    it.call(ev, [X1_in], {})
    unchanged(ctx, "GlobalLinearEvaluator.__call__ does not modify X1", X1, X1_in, fq)
    from contracts.c04 import unit_evaluators   # noqa: F401  (the evaluators' value contracts live in C04)
    nm = it.load_module(FMOD)
    # normaliser list on a raw feature array
    from contracts import c12
    try:
        lst, X0T = c12.make_normalizer_list(it, "nst") if hasattr(c12, "make_normalizer_list") else (None, None)
    except Exception:
        lst = None
    if lst is None:
        ctx.assume("FeatNormalizerList frame: covered by C12's frame obligations (value.frame-x / overwrites-y units)")


# ------------------------------------------------------------------ (d) evaluator chunking around the internal chunk size (bounded)
def unit_chunking(N):
    def run(ctx):
        it = ctx.interp
        x = it.load_module(XMOD)
        fq = [XMOD + ":KernelEvaluator.__call__"]
        X1 = np.empty((N, 1), dtype=object)
        for g in range(N):
            X1[g, 0] = tm.var("x%d" % g)
        kern = Obj(ClassV("_AbstractKernel", [], x))
        calls = []

        def k_and_deriv(X, Xc):
            calls.append(X.shape[0])
            k = np.empty((X.shape[0], 1), dtype=object)
            dk = np.empty((X.shape[0], 1, 1), dtype=object)
            for g in range(X.shape[0]):
                k[g, 0] = ufn("K", [X[g, 0]])
                dk[g, 0, 0] = ufn("DK", [X[g, 0]])
            return k, dk
        kern.fields["k_and_deriv"] = Builtin("abs.k_and_deriv", k_and_deriv)
        al = tm.var("alpha0")
        ke = it.call(x.ns["KernelEvaluator"], [kern, None, np.array([al], dtype=object)], {})
        res, dres = it.call(ke, [X1], {})
        bad = [g for g in range(N) if tm.lift(res[g]) is not tm.lift(al * ufn("K", [X1[g, 0]]) if False else tm.mk_mul(ufn("K", [X1[g, 0]]), al))]
        if bad:
            # fall back to exact comparison for the listed samples
            bad = [g for g in bad if vc.decide_equal([], res[g], ufn("K", [X1[g, 0]]) * al, 5.0, ctx.rng).status != "discharged"]
        badd = [g for g in range(N) if vc.decide_equal([], dres[g, 0], ufn("DK", [X1[g, 0]]) * al, 5.0, ctx.rng).status != "discharged"] if N <= 2001 else \
            [g for g in (0, 1999, 2000, 2001, N - 2, N - 1) if vc.decide_equal([], dres[g, 0], ufn("DK", [X1[g, 0]]) * al, 5.0, ctx.rng).status != "discharged"]
        ctx.bounded("KernelEvaluator over N=%d samples: every sample gets its kernel sum (no sample lost or duplicated at chunk boundaries)" % N, not bad and not badd and sum(calls) == N,
                    "N=%d" % N, "samples with a wrong value: %s, gradient: %s; chunk sizes %s" % (bad[:6], badd[:6], calls), witness={"N": N, "bad_samples": bad[:6], "chunks": calls}, replay=replay_chunk(N))
    return run


def replay_chunk(N):
    def replay(wit):
        from pyvc import native
        native.install_shim()
        import ciderpress.models.kernels as K
        from ciderpress.dft.xc_evaluator import KernelEvaluator
        rng = np.random.RandomState(0)
        Xc, al = rng.rand(3, 2), rng.rand(3)
        kern = K.DiffRBF(length_scale=np.array([0.7, 1.1]))
        X = rng.rand(N, 2)
        res, dres = KernelEvaluator(kern, Xc, al)(X)
        ref = kern(X, Xc).dot(al)
        bad = np.nonzero(np.abs(res - ref) > 1e-10)[0]
        return {"reproduced": bool(bad.size), "N": N, "first_bad_samples": bad[:6].tolist()}
    return replay


# ------------------------------------------------------------------ (b) batch contracts of the integrators
class Ghost(object):
    """Ghost state of the abstract feature generators: which density the cached data belongs to, and every use of a cache for another one."""

    def __init__(self):
        self.cache = {}
        self.misuse = []
        self.uses = 0
        self.contrib = []      # (kind, matrix slot inside the integrator's accumulator, element index, term added) for every abstract contraction into vmat / v1


def _slot_of(vm):
    """Which (nao, nao) matrix of the integrator's accumulator a view handed to a contraction routine is: (id of the root buffer, index among its matrices)."""
    root = vm
    while getattr(root, "base", None) is not None:
        root = root.base
    off = vm.__array_interface__["data"][0] - root.__array_interface__["data"][0]
    return id(root), off // (vm.itemsize * max(vm.size, 1))


def dm_owners(arr):
    """The density matrices (by symbol prefix) a symbolic array was computed from."""
    out = set()
    for v in np.asarray(arr, dtype=object).reshape(-1):
        for u in tm.free_vars(tm.lift(v)):
            nm = u.args[0]
            if nm.startswith("dm") and "_" in nm:
                out.add(nm.split("_")[0])
    return out


def abstract_ni(it, mod, nblocks=2, has_sdmx=True, nldf=False):
    ni = Obj(ClassV("_AbstractNumInt", [], mod))
    ghost = Ghost()
    timer = Obj(ClassV("_Timer", [], mod))
    timer.fields["start"] = Builtin("t.start", lambda *a: None)
    timer.fields["stop"] = Builtin("t.stop", lambda *a: None)
    settings = Obj(ClassV("_S", [], mod))
    sl = Obj(ClassV("_SL", [], mod))
    sl.fields["level"] = "MGGA"
    settings.fields["sl_settings"] = sl
    ni.fields.update({"timer": timer, "settings": settings, "has_sdmx": has_sdmx, "cutoff": Q(1, 10 ** 13)})
    ni.fields["initialize_feature_generators"] = Builtin("abs.init", lambda *a: None)

    def gen_rho(mol, dms, hermi, with_lapl, grids):
        dms_ = dms if getattr(dms, "ndim", 3) == 3 else dms[None]
        nset = dms_.shape[0]

        def make_rho(i, ao, mask, xctype):
            rho = np.empty((5, NS), dtype=object)
            for c in range(5):
                for g in range(NS):
                    rho[c, g] = ufn("RHO%d" % c, [dms_[i][0, 0], ao[0, g]])
            return rho
        return Builtin("abs.make_rho", make_rho), nset, dms_.shape[-1]
    ni.fields["_gen_rho_evaluator"] = Builtin("abs.gen_rho", gen_rho)

    def block_loop(mol, grids, nao, ao_deriv, max_memory=None, extra_ao=None, **kw):
        out = []
        for b in range(nblocks):
            ao = np.empty((4, NS), dtype=object)
            for c in range(4):
                for g in range(NS):
                    ao[c, g] = tm.var("ao_b%d_%d_%d" % (b, c, g))
            w = np.array([tm.var("w_b%d_%d" % (b, g)) for g in range(NS)], dtype=object)
            out.append((ao, "mask%d" % b, w, "coords%d" % b))
        return out
    ni.fields["block_loop"] = Builtin("abs.block_loop", block_loop)

    def eval_xc_cider(xc_code, rho, nldf_feat, sdmx_feat, deriv=1, xctype=None, **kw):
        def key(a):
            return [] if a is None else [tm.lift(v) for v in np.asarray(a, dtype=object).reshape(-1)]
        multi = isinstance(rho, (tuple, list)) or (isinstance(rho, np.ndarray) and rho.ndim == 3)
        rhos = list(rho) if multi else [rho]
        args = [v for r in rhos for v in key(r)] + [v for f in (nldf_feat if isinstance(nldf_feat, (list, tuple)) else [nldf_feat]) for v in key(f)] + \
               [v for f in (sdmx_feat if isinstance(sdmx_feat, (list, tuple)) else [sdmx_feat]) for v in key(f)]
        exc = np.array([ufn("EXC%d" % g, args) for g in range(NS)], dtype=object)
        nsp = len(rhos)
        vxc = np.empty((nsp, 5, NS) if multi else (5, NS), dtype=object)
        for idx in itertools.product(*[range(k) for k in vxc.shape]):
            vxc[idx] = ufn("VXC_%s" % "_".join(map(str, idx)), args)
        vn = None
        if nldf_feat is not None:
            vn = np.empty((nsp, 2, NS), dtype=object)
            for idx in itertools.product(range(nsp), range(2), range(NS)):
                vn[idx] = ufn("VNLDF_%d_%d_%d" % idx, args)
        vs = None
        if sdmx_feat is not None:
            vs = np.empty((nsp, 2, NS), dtype=object)
            for idx in itertools.product(range(nsp), range(2), range(NS)):
                vs[idx] = ufn("VSDMX_%d_%d_%d" % idx, args)
        return exc, (vxc, vn, vs), None, None
    ni.fields["eval_xc_cider"] = Builtin("abs.eval_xc_cider", eval_xc_cider)

    def contract_wv(ao, wv, nbins, mask, pair_mask, ao_loc, vmats=None, buffers=None, **kw):
        args = [tm.lift(v) for v in np.asarray(ao, dtype=object).reshape(-1)] + [tm.lift(v) for v in np.asarray(wv, dtype=object).reshape(-1)]
        for t, vm in enumerate(vmats):
            for idx in itertools.product(*[range(k) for k in vm.shape]):
                term = ufn("CWV%d_%s" % (t, "_".join(map(str, idx))), args)
                ghost.contrib.append(("cwv%d" % t, _slot_of(vm), idx, term))
                vm[idx] = tm.lift(vm[idx]) + term
        return vmats, buffers
    ni.fields["contract_wv"] = Builtin("abs.contract_wv", contract_wv)
    # SDMX generator with ghost cache
    sd = Obj(ClassV("_SDMXGen", [], mod))
    sd.fields["get_extra_ao"] = Builtin("abs.extra_ao", lambda mol: 0)

    def sd_features(dm, mol, coords, ao=None, cao=None, **kw):
        dm = np.asarray(dm, dtype=object)
        ids = [tm.lift(dm[0, 0])] if dm.ndim == 2 else [tm.lift(d[0, 0]) for d in dm]
        # the cached contraction coefficients belong to the density passed; a 3-d argument is a stack (one coefficient set per entry)
        ghost.cache["sdmx"] = [dm_owners(dm)] if dm.ndim == 2 else [dm_owners(d) for d in dm]
        out = np.empty((len(ids), 2, NS) if dm.ndim == 3 else (1, 2, NS), dtype=object)
        for s, d in enumerate(ids):
            for c in range(2):
                for g in range(NS):
                    out[s, c, g] = ufn("SDMXFEAT%d" % c, [d, tm.lift(coords) if not isinstance(coords, str) else tm.var(coords), tm.const(g)])
        return out
    sd.fields["get_features"] = Builtin("abs.sdmx.get_features", sd_features)

    def sd_vxc(vmat, v, **kw):
        # contract: requires the cached coefficients to belong to the density this potential was computed from
        ghost.uses += 1
        own, slots = dm_owners(v), ghost.cache.get("sdmx")
        # a 2-d vmat is contracted with the first cached coefficient set; a stacked vmat with all of them
        have = None if slots is None else (slots[0] if np.asarray(vmat, dtype=object).ndim == 2 else set().union(*slots))
        if have is None or not own <= have:
            ghost.misuse.append(("sdmxgen.get_vxc_", sorted(own), sorted(have or [])))
        args = [tm.lift(u) for u in np.asarray(v, dtype=object).reshape(-1)]
        for idx in itertools.product(*[range(k) for k in vmat.shape]):
            term = ufn("SDMXV_%s" % "_".join(map(str, idx)), args)
            ghost.contrib.append(("sdmx", _slot_of(vmat[idx[:-2]]) if len(idx) > 2 else _slot_of(vmat), tuple(idx[-2:]), term))
            vmat[idx] = tm.lift(vmat[idx]) + term
    sd.fields["get_vxc_"] = Builtin("abs.sdmx.get_vxc_", sd_vxc)
    sd.fields["_cached_ao_data"] = None
    ni.fields["sdmxgen"] = sd
    ng_ = Obj(ClassV("_NLDFGen", [], mod))
    ng_.fields["get_extra_ao"] = Builtin("abs.nldf.extra_ao", lambda: 0)

    def nl_features(rho, spin=0, **kw):
        ghost.cache[("nldf", spin)] = dm_owners(rho)
        rho = np.asarray(rho, dtype=object)
        ngr = rho.shape[-1]
        out = np.empty((2, ngr), dtype=object)
        for c in range(2):
            for g in range(ngr):
                out[c, g] = ufn("NLDFFEAT%d_%d" % (c, g), [tm.lift(v) for v in rho.reshape(-1)])
        return out
    ng_.fields["get_features"] = Builtin("abs.nldf.get_features", nl_features)

    def nl_potential(v, spin=0, **kw):
        ghost.uses += 1
        own, have = dm_owners(v), ghost.cache.get(("nldf", spin))
        if have is None or not own <= have:
            ghost.misuse.append(("nldfgen.get_potential(spin=%d)" % spin, sorted(own), sorted(have or [])))
        v = np.asarray(v, dtype=object)
        ngr = v.shape[-1]
        out = np.empty((5, ngr), dtype=object)
        for c in range(5):
            for g in range(ngr):
                out[c, g] = ufn("NLDFPOT%d_%d" % (c, g), [tm.lift(u) for u in v.reshape(-1)])
        return out
    ng_.fields["get_potential"] = Builtin("abs.nldf.get_potential", nl_potential)
    ni.fields["nldfgen"] = ng_
    ni.fields["has_nldf"] = True
    nlof = Obj(ClassV("_NLOF", [], mod))
    nlof.fields["is_empty"] = True
    settings.fields["nlof_settings"] = nlof
    nlds = Obj(ClassV("_NLDFS", [], mod))
    nlds.fields["nfeat"] = 2
    settings.fields["nldf_settings"] = nlds

    def extra_block_loop(mol, grids, max_memory=None, extra_ao=None, **kw):
        return [("mask%d" % b, np.array([tm.var("w_b%d_%d" % (b, g)) for g in range(NS)], dtype=object), "coords%d" % b) for b in range(nblocks)]
    ni.fields["extra_block_loop"] = Builtin("abs.extra_block_loop", extra_block_loop)
    it.overrides[NMOD + ":_get_sdmx_orbs"] = lambda interp, f, args, kwargs: (tm.var("sdmx_ao"), tm.var("sdmx_cao"))
    return ni, ghost


def mol_grids(it, mod, nao):
    mol = Obj(ClassV("_Mol", [], mod))
    mol.fields["ao_loc_nr"] = Builtin("abs.ao_loc", lambda: np.arange(nao + 1))
    mol.fields["get_overlap_cond"] = Builtin("abs.ovlp", lambda: np.zeros((1, 1), dtype=object))
    grids = Obj(ClassV("_Grids", [], mod))
    grids.fields["cutoff"] = Q(1, 10 ** 12)
    grids.fields["grids_indexer"] = "indexer"
    grids.fields["weights"] = np.array([tm.var("w_b%d_%d" % (b, g)) for b in range(2) for g in range(NS)], dtype=object)
    return mol, grids


def run_integrator(it, mod, fname, dms, **kw):
    ni, ghost = abstract_ni(it, mod, **kw)
    nao = dms.shape[-1]
    mol, grids = mol_grids(it, mod, nao)
    it.externals["pyscf.lib.hermi_sum"] = lambda interp, a, axes=None, **k: a + np.transpose(a, axes) if axes is not None else a + a.T
    out = it.call(mod.ns[fname], [ni, mol, grids, "CIDER", dms], {})
    return tuple(out) + (ghost,)


def unit_batch(fname):
    def run(ctx):
        it = ctx.interp
        it.externals["pyscf.lib.hermi_sum"] = lambda interp, a, axes=None, **k: a + np.transpose(a, axes)
        it.externals["pyscf.dft.gen_grid.NBINS"] = 100
        it.externals["pyscf.dft.numint._format_uks_dm"] = lambda interp, dms: dms
        mod = it.load_module(NMOD)
        fq = ["%s:%s" % (NMOD, fname)]
        nao = 2
        uks = "uks" in fname
        d0, d1 = sym_array("dmA", (nao, nao)), sym_array("dmB", (nao, nao))
        if uks:
            e0, e1 = sym_array("dmC", (nao, nao)), sym_array("dmD", (nao, nao))
            batch = np.stack([np.stack([d0, d1]), np.stack([e0, e1])])        # (2 spins, nset=2, nao, nao)
            singles = [np.stack([d0, e0]), np.stack([d1, e1])]
        else:
            batch = np.stack([d0, d1])
            singles = [d0.copy(), d1.copy()]
        try:
            nb, eb, vb, gh = run_integrator(it, mod, fname, batch.copy())
            sing = [run_integrator(it, mod, fname, s.copy())[:3] for s in singles]
        except Unsupported as e:
            ctx.undecided("%s batch contract" % fname, "left the supported subset: %s" % e, fq)
            return
        nb, eb = np.asarray(nb, dtype=object), np.asarray(eb, dtype=object)
        for k in range(2):
            ns_, es_, vs_ = sing[k]
            ctx.equal("%s batch slot %d: nelec equals the separate call" % (fname, k), [], (nb[..., k] if nb.ndim else nb).reshape(-1)[0] if not uks else nb[0, k], np.asarray(ns_, dtype=object).reshape(-1)[0], fq)
            if uks:
                ctx.equal("%s batch slot %d: nelec (beta) equals the separate call" % (fname, k), [], nb[1, k], np.asarray(ns_, dtype=object).reshape(-1)[1], fq)
            ctx.equal("%s batch slot %d: excsum equals the separate call" % (fname, k), [], eb[k], es_ if not isinstance(es_, np.ndarray) else es_.reshape(-1)[0], fq, replay=replay_batch(fname))
            vbk = np.asarray(vb, dtype=object)[:, k] if uks else np.asarray(vb, dtype=object)[k]
            vsk = np.asarray(vs_, dtype=object)
            ctx.holds("%s batch slot %d: vmat shape" % (fname, k), vbk.shape == vsk.shape, "%s vs %s" % (vbk.shape, vsk.shape), fq)
            if vbk.shape == vsk.shape:
                for idx in itertools.product(*[range(q) for q in vbk.shape]):
                    ctx.equal("%s batch slot %d: vmat%s equals the separate call" % (fname, k, list(idx)), [], vbk[idx], vsk[idx], fq, replay=replay_batch(fname))
        ctx.holds("%s cache protocol: every generator cache is consumed only for the density it was filled from (ghost state)" % fname, not gh.misuse,
                  "cache filled from one density and used for another: %s" % gh.misuse[:3], fq, witness={"misuse": [list(map(str, m)) for m in gh.misuse[:4]]}, replay=replay_batch(fname))
        ctx.holds("%s the generator caches are used at all (vacuity guard of the protocol)" % fname, gh.uses > 0, "", fq)
        ctx.canary("%s canary" % fname, [], eb[0], eb[1])
        unchanged(ctx, "%s does not modify the caller's density matrices" % fname, np.stack([d0, d1]), batch[0] if uks else batch, fq)
    return run


def replay_batch(fname):
    def replay(wit):
        return {"reproduced": None, "note": "a native replay needs a trained functional and PySCF molecule set-up; the violated obligation and the terms that differ are in the witness / detail"}
    return replay


def unit_frames_sdmx_plan(ctx):
    """SDMXBasePlan.get_features / get_vxc (the SDMX plan between EXXSphGenerator's caches and the C contractions): get_vxc must leave its arguments — the
    potential vxc_ig and the l=0 / l=1 intermediates that the generator CACHES between the feature pass and the potential pass — unchanged, so that a second
    potential evaluation after one feature pass gives the same result; get_features must leave p_vag unchanged.  Fit matrices symbolic; pyscf.lib.dot / einsum
    by their numpy meaning."""
    it = ctx.interp
    pm = it.load_module(PMOD)
    it.externals["pyscf.lib.dot"] = lambda interp, a, b, *r, **k: np.asarray(a, dtype=object).dot(np.asarray(b, dtype=object))
    it.externals["pyscf.lib.einsum"] = lambda interp, spec, *ops, **k: np.einsum(spec, *[np.asarray(o, dtype=object) for o in ops])
    fq = [PMOD + ":SDMXBasePlan.get_vxc", PMOD + ":SDMXBasePlan.get_features"]
    na, ng = 2, NS
    for n0, n1 in ((2, 0), (1, 1), (2, 2)):
        plan = Obj(pm.ns["SDMXPlan"])
        st = Obj(ClassV("_SDMXSettings", [], pm))
        st.fields.update({"nfeat": n0 + n1, "n1terms": n1, "pows": list(range(n0)), "ndterms": 0})
        plan.fields.update({"settings": st, "nspin": 1, "nalpha": na, "fit_matrices": [sym_array("F%d" % k, (na, na)) for k in range(n0 + n1)]})
        tag = "sdmx-plan[n0=%d,n1=%d]" % (n0, n1)
        p_vag = sym_array("p", (4 if n1 else 1, na, ng))
        p0 = p_vag.copy()
        l0tmp = np.full((n0, na, ng), tm.ZERO, dtype=object)
        l1tmp = np.full((n1, 3, na, ng), tm.ZERO, dtype=object) if n1 else None
        try:
            feat = it.call_method(plan, "get_features", [p_vag], {"l0tmp": l0tmp, "l1tmp": l1tmp})
        except (Unsupported, PyRaise) as e:
            ctx.undecided("%s get_features runs" % tag, str(e)[:200], fq)
            continue
        ctx.holds("%s get_features leaves p_vag unchanged" % tag, same_elements(p_vag, p0), "", fq)
        vxc = sym_array("v", (n0 + n1, ng))
        v0, l0c, l1c = vxc.copy(), l0tmp.copy(), (l1tmp.copy() if l1tmp is not None else None)
        try:
            out1 = np.asarray(it.call_method(plan, "get_vxc", [vxc, l0tmp], {"l1tmp": l1tmp}), dtype=object).copy()
            ok_frame = same_elements(vxc, v0) and same_elements(l0tmp, l0c) and (l1tmp is None or same_elements(l1tmp, l1c))
            out2 = np.asarray(it.call_method(plan, "get_vxc", [vxc, l0tmp], {"l1tmp": l1tmp}), dtype=object)
        except (Unsupported, PyRaise) as e:
            ctx.undecided("%s get_vxc runs" % tag, str(e)[:200], fq)
            continue
        ctx.holds("%s get_vxc leaves the potential and the cached l=0 / l=1 intermediates unchanged" % tag, ok_frame, "", fq, replay=replay_sdmx_plan_frames())
        for idx in itertools.product(*[range(k) for k in out1.shape]):
            ctx.equal("%s a second get_vxc after the same feature pass gives the same result %s" % (tag, list(idx)), [], out2[idx], out1[idx], fq, replay=replay_sdmx_plan_frames())
        ctx.canary("%s canary" % tag, [], out1[(0, 0, 0)], 2 * tm.lift(out1[(0, 0, 0)]) + 1)


def replay_sdmx_plan_frames():
    def replay(wit):
        from pyvc import native
        native.install_shim()
        import ciderpress.dft.plans as P
        plan = P.SDMXPlan.__new__(P.SDMXPlan)
        rng = np.random.RandomState(1)
        na, ng, n0, n1 = 3, 4, 1, 1
        plan.settings = type("S", (), {"nfeat": n0 + n1, "n1terms": n1, "pows": [0], "ndterms": 0})()
        plan.nspin, plan.nalpha = 1, na
        plan.fit_matrices = [rng.rand(na, na) for _ in range(n0 + n1)]
        p = rng.rand(4, na, ng)
        l0, l1 = np.empty((n0, na, ng)), np.empty((n1, 3, na, ng))
        plan.get_features(p, l0tmp=l0, l1tmp=l1)
        l1c = l1.copy()
        v = rng.rand(n0 + n1, ng)
        a = plan.get_vxc(v, l0, l1tmp=l1).copy()
        b = plan.get_vxc(v, l0, l1tmp=l1)
        return {"reproduced": bool(np.max(np.abs(a - b)) > 0 or np.max(np.abs(l1 - l1c)) > 0), "max_diff_second_call": float(np.max(np.abs(a - b))), "l1tmp_changed_by": float(np.max(np.abs(l1 - l1c)))}
    return replay


def unit_frames_maps(ctx):
    """Feature maps of transform_data (the objects a model's FeatureList is made of): fill_feat_ / fill_deriv_ never write the caller's raw feature
    array x (nor dfdy), for every registered class, every coincidence pattern of its index fields and every input (no domain restriction: in
    particular below the 1e-10 density floor of the semilocal maps); evaluating twice gives the same result."""
    from contracts import c12
    it = ctx.interp
    mod = it.load_module(c12.MOD)
    for clsname in c12.class_names():
        cls = mod.ns[clsname]
        names, defaults = init_params(cls)
        idx_names = [n for n in names if n in c12.INDEX_NAMES]
        real_names = [n for n in names if n not in c12.INDEX_NAMES and n != "bounds"]
        pvars = {n: tm.var("p_" + n) for n in real_names}
        fq = ["%s:%s.fill_feat_" % (c12.MOD, clsname), "%s:%s.fill_deriv_" % (c12.MOD, clsname)]
        for part in set_partitions(idx_names):
            nblocks = max(part.values()) + 1 if part else 0
            nraw = nblocks + 2
            tag = "%s[%s]" % (clsname, ",".join("%s=%d" % (n, part[n]) for n in idx_names))
            args = [part[n] if n in part else pvars[n] for n in names if n != "bounds"]
            try:
                obj = it.call(cls, args, {})
            except (Unsupported, PyRaise) as e:
                ctx.undecided("maps/%s constructed" % tag, str(e)[:160], fq)
                continue
            x0 = sym_array("x", (nraw, NS))
            g0 = sym_array("g", (NS,))
            it.hyps = []

            def run_value():
                y, x = sym_array("yold", (NS,)), x0.copy()
                it.call_method(obj, "fill_feat_", [y, x])
                y2 = sym_array("yold", (NS,))
                it.call_method(obj, "fill_feat_", [y2, x])          # second evaluation on the same (possibly modified) array
                return y, y2, x

            def run_deriv():
                d, g, x = sym_array("dold", (nraw, NS)), g0.copy(), x0.copy()
                it.call_method(obj, "fill_deriv_", [d, g, x])
                return g, x
            try:
                vps = [p for p in all_paths(it, run_value) if p[0] == "return"]
                dps = [p for p in all_paths(it, run_deriv) if p[0] == "return"]
            except Unsupported as e:
                ctx.undecided("maps/%s executed" % tag, str(e)[:160], fq)
                continue
            ctx.holds("maps/%s: fill_feat_ leaves the caller's raw features unchanged" % tag, all(same_elements(p[1][2], x0) for p in vps) and len(vps) >= 1, "", fq[:1])
            ctx.holds("maps/%s: fill_feat_ evaluated twice on the same array gives the same values" % tag,
                      all(same_elements(np.asarray(p[1][0], dtype=object), np.asarray(p[1][1], dtype=object)) for p in vps), "", fq[:1])
            ctx.holds("maps/%s: fill_deriv_ leaves the caller's raw features and dfdy unchanged" % tag, all(same_elements(p[1][1], x0) and same_elements(p[1][0], g0) for p in dps) and len(dps) >= 1, "", fq[1:])


def unit_generator_cache_frames(version, level):
    """Per-spin caches of LCAONLDFGenerator hold their own data: nothing stored for one spin is changed by a later feature evaluation for the other
    spin (in particular the convolution result kept for the nuclear-gradient path, grad_mode=True, must be a copy of the shared work buffer)."""
    def run(ctx):
        from contracts import genharness as GH
        GMOD = "ciderpress.dft.lcao_nldf_generator"
        it = ctx.interp
        hyps = []
        RC = tm.var("rhocut")
        hyps.append(tm.mk_lt(tm.ZERO, RC))
        h = GH.build(it, version, level, 2, hyps, RC)
        ctx.assume(GH.ASSUMPTION)
        nrho = 5 if level == "MGGA" else 4
        fq = [GMOD + ":LCAONLDFGenerator." + n for n in ("get_features", "_perform_fwd_convolution")]
        ra, rb = sym_array("ra", (nrho, NS)), sym_array("rb", (nrho, NS))
        H = list(hyps) + [tm.mk_lt(RC, x) for x in list(ra[0]) + list(rb[0])] + ([tm.mk_le(tm.ZERO, x) for x in list(ra[4]) + list(rb[4])] if level == "MGGA" else [])
        it.hyps = list(H)
        for grad_mode in (False, True):
            tag = "generator-cache[%s,%s,grad_mode=%s]" % (version, level, grad_mode)
            gen = h["fresh_gen"]()
            try:
                it.call_method(gen, "get_features", [ra.copy()], {"spin": 0, "grad_mode": grad_mode})
            except (Unsupported, PyRaise) as e:
                ctx.undecided("%s first evaluation" % tag, str(e)[:200], fq)
                continue
            cache0 = gen.fields["_cache"][0]
            snap = {k: (np.array(v, dtype=object).copy() if isinstance(v, np.ndarray) else ([np.array(x, dtype=object).copy() for x in v] if isinstance(v, (list, tuple)) else v)) for k, v in cache0.items()}
            it.call_method(gen, "get_features", [rb.copy()], {"spin": 1, "grad_mode": grad_mode})
            ctx.holds("%s the cache of spin 0 is still the same object" % tag, gen.fields["_cache"][0] is cache0, "", fq)
            for k, v in cache0.items():
                if isinstance(v, np.ndarray):
                    ok = same_elements(np.asarray(v, dtype=object), snap[k])
                elif isinstance(v, (list, tuple)):
                    ok = all(same_elements(np.asarray(a, dtype=object), b) for a, b in zip(v, snap[k]))
                else:
                    ok = True
                ctx.holds("%s cache[0][%r] is unchanged by get_features(spin=1)" % (tag, k), ok, "entry was modified through a shared buffer", fq, replay=None)
            if grad_mode:
                ctx.holds("%s the convolution result is kept for the gradient" % tag, "conv_vq" in cache0, "%s" % sorted(cache0), fq)
    return run


def unit_generator_history(version, level):
    """LCAONLDFGenerator.get_features is a function of its input and the plan alone: the features of a density evaluated on a generator that has already been
    used (another spin channel, a potential evaluation in between — the work buffers _uq_buf / _vq_buf / _rlmq_buf then hold what those calls left, and the
    convolution ACCUMULATES into its output) equal the features a fresh generator returns for that density."""
    def run(ctx):
        from contracts import genharness as GH
        GMOD = "ciderpress.dft.lcao_nldf_generator"
        it = ctx.interp
        hyps = []
        RC = tm.var("rhocut")
        hyps.append(tm.mk_lt(tm.ZERO, RC))
        h = GH.build(it, version, level, 2, hyps, RC)
        ctx.assume(GH.ASSUMPTION)
        nrho = 5 if level == "MGGA" else 4
        fq = [GMOD + ":LCAONLDFGenerator." + n for n in ("get_features", "_perform_fwd_convolution", "_perform_bwd_convolution", "get_potential", "__init__")]
        ra, rb = sym_array("ra", (nrho, NS)), sym_array("rb", (nrho, NS))
        H = list(hyps) + [tm.mk_lt(RC, x) for x in list(ra[0]) + list(rb[0])] + ([tm.mk_le(tm.ZERO, x) for x in list(ra[4]) + list(rb[4])] if level == "MGGA" else [])
        it.hyps = list(H)
        tag = "generator-history[%s,%s]" % (version, level)
        try:
            fresh = np.asarray(it.call_method(h["fresh_gen"](), "get_features", [ra.copy()], {"spin": 0}), dtype=object).copy()
            gen = h["fresh_gen"]()
            it.call_method(gen, "get_features", [rb.copy()], {"spin": 1})
            second = np.asarray(it.call_method(gen, "get_features", [ra.copy()], {"spin": 0}), dtype=object).copy()
            vfeat = sym_array("vf", fresh.shape)
            it.call_method(gen, "get_potential", [vfeat.copy()], {"spin": 0})
            third = np.asarray(it.call_method(gen, "get_features", [ra.copy()], {"spin": 0}), dtype=object).copy()
        except (Unsupported, PyRaise) as e:
            ctx.undecided("%s runs" % tag, str(e)[:200], fq)
            return
        for idx in itertools.product(*[range(k) for k in fresh.shape]):
            ctx.equal("%s feature%s after an evaluation for the other spin = fresh generator" % (tag, list(idx)), H, second[idx], fresh[idx], fq, replay=replay_generator_history())
            ctx.equal("%s feature%s after a potential evaluation = fresh generator" % (tag, list(idx)), H, third[idx], fresh[idx], fq, replay=replay_generator_history())
        ctx.canary("%s canary" % tag, H, second[(0,) * fresh.ndim], 2 * tm.lift(fresh[(0,) * fresh.ndim]) + 1)
    return run


def replay_generator_history():
    def replay(wit):
        return {"reproduced": None, "note": "native replay needs a PySCF molecule and the full LCAO stack; the seeded-change demo shows it natively (second forward convolution on one generator)"}
    return replay


def unit_c_defines_output(rel, fn, out):
    """Scratch / output arrays that the Python callers allocate with np.empty and reuse across the density matrices of a batch (EXXSphGenerator.get_features:
    tmp, b0) must be DEFINED by the C routine: every accumulating store is preceded, in the same worksharing iteration, by an overwriting store of the same
    element over the same range — otherwise the result for one density matrix depends on what the previous one left behind."""
    def run(ctx):
        from cvc import cparse
        from cvc.csym import CSym, CUnsupported
        from contracts import c10
        from pyvc.nf import NF, NFError
        fq = ["lib/%s:%s" % (rel, fn)]
        tu = cparse.load(rel)
        sy = CSym([tu] + [cparse.load(h) for h in c10.HELPER_TUS if h != rel], footprint=True)
        args = {p_: c10.mk_value(tu, ty, p_) for p_, ty in tu.params(fn)}
        sy.hyps = c10.nonneg_hyps(args)
        try:
            sy.run(fn, args)
        except CUnsupported as e:
            ctx.undecided("%s summarised" % fn, str(e)[:200], fq)
            return
        nfc = NF()
        ws = [e for e in sy.events if e.kind == "w" and e.arr.name == out]
        acc = [e for e in ws if e.op != "="]
        sets = [e for e in ws if e.op == "="]
        ctx.holds("%s writes %s" % (fn, out), len(ws) > 0, "", fq)
        for k, a in enumerate(oblig._dedupe_l(acc)):
            ok = False
            for s_ in sets:
                if s_.seq > a.seq or s_.par is not a.par or not s_.qvars or not a.qvars:
                    continue
                (gs, los, his, _), (ga, loa, hia, _) = s_.qvars[-1], a.qvars[-1]
                def eq_(x, y):
                    x, y = tm.lift(x), tm.lift(y)
                    if x is y:
                        return True
                    try:
                        return nfc.equal(x, y)
                    except NFError:
                        return False
                same_rng = eq_(los, loa) and eq_(tm.substitute(tm.lift(his), {gs: ga}), hia)
                same_idx = eq_(tm.substitute(tm.lift(s_.idx), {gs: ga}), a.idx)
                # the overwriting store must not sit under a condition the accumulation is free of
                if same_rng and same_idx and len(s_.guards) <= len(a.guards):
                    ok = True
                    break
            ctx.holds("%s: accumulation #%d into %s[%s] starts from an element the routine itself has just overwritten (stale contents cannot survive)" % (fn, k, out, tm.show(a.idx, 50)),
                      ok, "no preceding overwriting store of the same element in the same iteration", fq)
    return run


YLM_PROBE_INPUTS = [
    # (natm, ngrids, per-atom lmax): ylm_atom_loc is the cumulative sum of (lmax+1)^2 (sdmx.py:_get_ylm_atom_loc); ngrids around the 56-point block
    (1, 3, (0,)), (1, 3, (1,)), (2, 5, (1, 0)), (2, 57, (2, 1)), (3, 56, (0, 3, 1)), (1, 113, (2,)),
]


def replay_ylm_grad_defined(wit):
    """Native: fill the three gradient components with NaN, run SDMXylm_grad on the witness sizes, report whether the element is still NaN."""
    import ctypes
    from pyvc import native
    w = wit or {}
    natm, ng = int(w.get("natm", 1)), int(w.get("ngrids", 3))
    loc = [int(w.get("ylm_atom_loc[%d]" % i, 0)) for i in range(natm + 1)]
    if natm < 1 or ng < 1 or ng > 10 ** 5 or any(b < a for a, b in zip(loc, loc[1:])) or loc[-1] > 10 ** 4:
        return {"reproduced": None, "note": "witness sizes outside the replayable range"}
    lib = ctypes.CDLL(native.build_libs() + "/libmcider.so")
    nlm = loc[-1]
    L = int(max(b - a for a, b in zip(loc, loc[1:])) ** 0.5 + 1e-6) - 1
    buf = np.full((4, nlm, ng), np.nan)
    buf[0] = np.random.RandomState(5).randn(nlm, ng)
    gaunt_nlm = max(L, 1) ** 2 + 2 * max(L, 1) + 4
    gaunt = np.ascontiguousarray(np.random.RandomState(6).randn(5, gaunt_nlm))
    aloc = np.asarray(loc, dtype=np.int32)
    lib.SDMXylm_grad(ctypes.c_int(ng), buf.ctypes.data_as(ctypes.c_void_p), gaunt.ctypes.data_as(ctypes.c_void_p), ctypes.c_int(gaunt_nlm),
                     aloc.ctypes.data_as(ctypes.c_void_p), ctypes.c_int(natm))
    flat = buf.ravel()
    t = int(w.get("target_element", -1))
    stale = [int(i) for i in np.nonzero(np.isnan(flat[nlm * ng:]))[0][:10] + nlm * ng]
    return {"reproduced": bool(0 <= t < flat.size and np.isnan(flat[t])), "natm": natm, "ngrids": ng, "ylm_atom_loc": loc, "target_element": t,
            "gradient_elements_still_holding_the_previous_contents": stale}


def unit_ylm_grad_defined(ctx):
    """EXXSphGenerator._get_ylm hands SDMXylm_grad a work array that comes from np.empty the first time and is re-used afterwards (sdmx.py: self._ylm_buf);
    the l1 contractions read every gradient row of every atom.  So the routine must DEFINE every gradient element  (v, ylm_atom_loc[ia] + lm, g),
    v = 1..3, ia < natm, lm < nlm(ia), g < ngrids  — by an overwriting store, since an accumulating one keeps what the previous call left behind."""
    from cvc.csym import CUnsupported
    from contracts import c10, outcover
    rel, fn = "mod_cider/fast_sdmx.c", "SDMXylm_grad"
    fq = ["lib/%s:%s" % (rel, fn)]
    try:
        sy, args = c10.summarise(rel, fn)
    except CUnsupported as e:
        ctx.undecided("%s summarised" % fn, str(e)[:200], fq)
        return
    sets = [e for e in sy.events if e.kind == "w" and e.arr.name == "ylm_vlg" and e.op == "="]
    ctx.holds("%s has overwriting stores into ylm_vlg" % fn, len(sets) > 0, "", fq)
    ng, natm = args["ngrids"], args["natm"]
    loc = lambda i: tm.mk_fi("ylm_atom_loc", tm.lift(i))
    nblk = tm.mk_fn("idiv", ng + 55, tm.lift(56))
    hyps = list(c10.nonneg_hyps(args)) + [tm.mk_le(tm.ONE, ng), tm.mk_le(tm.ONE, natm)]
    ctx.assume("requires ylm_atom_loc non-decreasing from 0 (cumulative (lmax+1)^2, sdmx.py:_get_ylm_atom_loc); ngrids >= 1, natm >= 1")
    # (1) symbolic, all sizes: the element set written block by block.  Element (v, ia, lm, ip + g) with (ia, ip) the routine's own (atom, 56-point block)
    #     decomposition of the worksharing index; that the decomposition reaches every (atom, grid point) is the partition obligation of C10 for this routine.
    blk, lm, g = tm.var("t_blk", "I"), tm.var("t_lm", "I"), tm.var("t_g", "I")
    ia, ib = tm.mk_fn("idiv", blk, nblk), tm.mk_fn("imod", blk, nblk)
    bg = tm.mk_ite(tm.mk_lt(ng - 56 * ib, tm.lift(56)), ng - 56 * ib, tm.lift(56))
    targets = [(blk, tm.ZERO, natm * nblk), (lm, tm.ZERO, loc(ia + 1) - loc(ia)), (g, tm.ZERO, bg)]
    sym_ok = True
    for v in (1, 2, 3):
        tgt = v * loc(natm) * ng + (loc(ia) + lm) * ng + 56 * ib + g
        st, be, detail, wit = outcover.coverage(sets, targets, tgt, hyps, ctx.timeout)
        if st == "discharged":
            ctx._rec("obligation", "%s: every element of gradient component %d of every (atom, block) is overwritten before it is accumulated into or left (all sizes)" % (fn, v),
                     vc.Verdict("discharged", be, detail), fq)
        else:
            sym_ok = False
    # (2) exact enumeration on concrete inputs (bounded): decides what the symbolic scheme cannot express (loops over the degree l, integer square roots)
    inputs = []
    for (n_at, n_g, lmaxs) in YLM_PROBE_INPUTS:
        inp = {"natm": n_at, "ngrids": n_g, "gaunt_nlm": 64}
        acc = 0
        for i, L in enumerate(lmaxs):
            inp["ylm_atom_loc[%d]" % i] = acc
            acc += (L + 1) ** 2
        inp["ylm_atom_loc[%d]" % n_at] = acc
        for q in [q for e in sets for q in e.qvars]:
            for u in tm.subterms(tm.lift(q[2])).values():
                if outcover._is_team_size(u):
                    inp[u.args[0]] = 1
        inputs.append(inp)
    ia_, lm_, g_ = tm.var("t_ia", "I"), tm.var("t_lm", "I"), tm.var("t_gg", "I")
    tg2 = [(ia_, tm.ZERO, natm), (lm_, tm.ZERO, loc(ia_ + 1) - loc(ia_)), (g_, tm.ZERO, ng)]
    worst = ("bounded", "", None)
    n_tot = 0
    for v in (1, 2, 3):
        tgt = v * loc(natm) * ng + (loc(ia_) + lm_) * ng + g_
        st, detail, wit = outcover.probe(sets, tg2, tgt, inputs, defs=getattr(sy, "isqrt_defs", {}))
        if st != "bounded":
            worst = (st, "component %d: %s" % (v, detail), wit)
            break
        worst = ("bounded", detail, None)
    bound = "natm, ngrids, lmax per atom in %s" % (YLM_PROBE_INPUTS,)
    name = "%s: every gradient element (v, atom row, grid point) is overwritten by the routine itself (exact enumeration of the store instances)" % fn
    if worst[0] == "refuted":
        ctx._rec("obligation", name, vc.Verdict("refuted", "enumeration", worst[1], witness=worst[2]), fq, replay_ylm_grad_defined)
    elif worst[0] == "undecided":
        ctx.undecided(name, worst[1], fq)
    elif sym_ok:
        ctx._rec("bounded", name, vc.Verdict("discharged", "bounded[%s]" % bound, worst[1]), fq)
    else:
        ctx._rec("bounded", name, vc.Verdict("discharged", "bounded[%s]" % bound, worst[1] + "; the all-sizes obligation was not decided"), fq)
        ctx.assume("bounded only: %s output definedness is decided by enumeration on the probe inputs; the symbolic scheme did not decide it" % fn)


def unit_c_accumulators_cleared(rel, fn, out, requires=None):
    """Work buffers that outlive a call (the thread-local `ectr` blocks of the SDMX shell evaluators are allocated once per thread and handed to the contraction kernel
    for every shell and every grid block): each element the routine ACCUMULATES into must have been overwritten by the same call before — for all sizes.  The element
    set of every `+=` store (its own loop ranges) is covered by the routine's overwriting stores (outcover.coverage: instantiation schemes, refutations confirmed by exact
    enumeration on the solver's input)."""
    def run(ctx):
        from cvc.csym import CUnsupported
        from contracts import c10, outcover
        fq = ["lib/%s:%s" % (rel, fn)]
        try:
            sy, args = c10.summarise(rel, fn)
        except CUnsupported as e:
            ctx.undecided("%s summarised" % fn, str(e)[:200], fq)
            return
        ws = [e for e in sy.events if e.kind == "w" and e.arr.name == out]
        sets = [e for e in ws if e.op == "="]
        accs = oblig._dedupe_l([e for e in ws if e.op != "="])
        ctx.holds("%s accumulates into %s and has overwriting stores into it" % (fn, out), len(sets) > 0 and len(accs) > 0, "%d / %d" % (len(sets), len(accs)), fq)
        hyps = list(c10.nonneg_hyps(args)) + (requires(args) if requires else [])
        for k, a in enumerate(accs):
            prior = [s_ for s_ in sets if s_.seq < a.seq]
            targets = [(q[0], q[1], q[2]) for q in a.qvars]
            H = hyps + [tm.lift(g) for g in a.guards]
            outcover.record(ctx, "%s: every element of %s[%s] that is accumulated into was overwritten by this call first (all sizes)" % (fn, out, tm.show(a.idx, 50)),
                            prior, targets, tm.lift(a.idx), H, fq, replay=replay_accumulators(rel, fn))
    return run


def replay_accumulators(rel, fn):
    def replay(wit):
        """Native: call the kernel on a NaN-filled work buffer with the witness sizes; an output element that is still NaN afterwards was accumulated into without being cleared."""
        import ctypes
        from pyvc import native
        w = wit or {}
        nctr, ngrids, nprim = int(w.get("nctr", 2)), int(w.get("ngrids", 3)), max(1, int(w.get("nprim", 2)))
        if not (0 < nctr <= 40 and 0 < ngrids <= 56 and nprim <= 40):
            return {"reproduced": None, "note": "witness sizes outside the replayable range"}
        lib = ctypes.CDLL(native.build_libs() + "/libmcider.so")
        f = getattr(lib, fn)
        BLK, NPRIMAX = 56, 40
        buf = np.full(2 * NPRIMAX * BLK + 4 * BLK, np.nan)
        coord = np.ascontiguousarray(np.random.RandomState(1).rand(3 * BLK))
        alpha = np.ascontiguousarray(0.5 + np.random.RandomState(2).rand(nprim))
        coeff = np.ascontiguousarray(np.random.RandomState(3).rand(nctr * nprim))
        f.restype = ctypes.c_int
        f(buf.ctypes.data_as(ctypes.c_void_p), coord.ctypes.data_as(ctypes.c_void_p), alpha.ctypes.data_as(ctypes.c_void_p), coeff.ctypes.data_as(ctypes.c_void_p),
          ctypes.c_int(0), ctypes.c_int(nprim), ctypes.c_int(nctr), ctypes.c_size_t(ngrids), ctypes.c_double(1.0), ctypes.c_double(0.7), ctypes.c_double(1.1))
        bad = [int(k * BLK + i) for k in range(nctr) for i in range(ngrids) if np.isnan(buf[k * BLK + i])]
        return {"reproduced": bool(bad), "nctr": nctr, "ngrids": ngrids, "elements read downstream that still hold the previous contents": bad[:8]}
    return replay


def units():
    u = [("frames/settings", unit_frames_settings), ("frames/maps", unit_frames_maps), ("frames/sdmx-plan", unit_frames_sdmx_plan)]
    for version, level in (("ij", "MGGA"), ("i", "GGA"), ("j", "MGGA"), ("k", "MGGA")):
        u.append(("plan/%s/%s" % (version, level), unit_frames_plan(version, level)))
    for version in ("j", "ij"):
        u.append(("generator-cache/%s" % version, unit_generator_cache_frames(version, "MGGA")))
        u.append(("generator-history/%s" % version, unit_generator_history(version, "MGGA")))
    for rel, fn, out in (("mod_cider/fast_sdmx.c", "contract_shl_to_alpha_l1", "p"), ("mod_cider/fast_sdmx.c", "SDMXcontract_ao_to_bas", "vbas"),
                         ("mod_cider/fast_sdmx.c", "SDMXcontract_ao_to_bas_grid", "vbas")):
        u.append(("c-defines-output/" + fn, unit_c_defines_output(rel, fn, out)))
    u.append(("c-defines-output/SDMXylm_grad", unit_ylm_grad_defined))
    for fn in ("SDMXcontract_smooth0", "SDMXcontract_rsq0", "SDMXcontract_smooth1", "SDMXcontract_rsq1"):
        # the callers hand over blocks of at most BLKSIZE = 56 grid points (bgrids = MIN(ngrids - ip, BLKSIZE)) and at most NPRIMAX = 40 contractions / primitives
        u.append(("c-accumulators-cleared/" + fn, unit_c_accumulators_cleared("mod_cider/fast_sdmx.c", fn, "ectr", lambda a: [tm.mk_le(a["ngrids"], tm.lift(56)), tm.mk_le(a["nctr"], tm.lift(40)), tm.mk_le(a["nprim"], tm.lift(40))])))
    # EXXSphGenerator: a stacked call equals the separate calls, slot by slot, on a generator that has been used before (contract shared with C01)
    from contracts import c01
    for n0, n1 in ((2, 0), (1, 1)):
        u.append(("sdmx-generator-batch/n0_%d_n1_%d" % (n0, n1), c01.unit_sdmx_generator(n0, n1, batch=True)))
    # history of one integrator object: the molecule, the grids object or the spin count changes between calls (contract shared with C06 / C07)
    from contracts import c06
    for cn in ("NLDFNumInt", "NLDFNLOFNumInt", "NLOFNumInt", "CiderNumInt"):
        u.append(("gen-cache/" + cn, c06.unit_gen_cache(cn)))
    for N in (1999, 2000, 2001, 4001):
        u.append(("chunk/N%d" % N, unit_chunking(N)))
    # the C-backed evaluators: value and gradient of a call do not depend on the contents of freshly allocated (uninitialised) work memory, on a fresh object and
    # on one that has been called before (contract shared with C11)
    from contracts import c11
    for kind in ("rbf", "antisym", "spin"):
        u.append(("evaluator/" + kind, c11.unit_rbf_evaluator(kind)))
    # FracLaplPlan: frames, and the cached l=1 data between the feature pass and the potential pass (contract shared with C01)
    for nspin in (1, 2):
        u.append(("fraclapl-plan/nspin%d" % nspin, c01.unit_fraclapl_plan(nspin, history=True)))
    for fn in ("nr_rks", "nr_uks", "nr_rks_nldf", "nr_uks_nldf"):
        u.append(("batch/" + fn, unit_batch(fn)))
    return u


EXPLANATION = (
    "Frame conditions are decided on the real source by executing each entry point on symbolic arrays (numpy aliasing is numpy's own: views, "
    "in-place operators and masked writes act on the caller's buffers exactly as at run time) and comparing every element of every caller-owned "
    "argument before and after; history and spin-interleaving contracts compare the result of a call sequence on one plan object with the result on a "
    "fresh one; batch contracts compare slot k of a two-matrix call with a separate call, with the feature generators' caches modelled as ghost "
    "state.  Chunk coverage of the kernel evaluator is a bounded stand-in (N around the chunk size).")
TRUSTED = [
    "A1 reals; A3/A4 numpy/Python model (views / copies / in-place semantics are numpy's own object-array semantics)",
    "integrator callees (block evaluation, eval_xc_cider, contract_wv, SDMX / NLDF generators) are replaced by uninterpreted contracts; their own history behaviour is in units plan/* (NLDF plan) — EXXSphGenerator's batch behaviour is under contract around linear contracts of its C contractions (sdmx-generator-batch/*); LCAONLDFGenerator internals: generator-cache/*, generator-history/*",
    "bounded: evaluator chunking checked for N in {1999, 2000, 2001, 4001}",
    "nr_rks_nldf / nr_uks_nldf batch contracts: see known findings / not covered (shared NLDF cache per spin across the batch)",
]

if __name__ == "__main__":
    sys.exit(run_property("C09", "other", units(), EXPLANATION, TRUSTED, min_obligations=60))
