"""Helpers shared by the sidecar contracts."""
import ast
import itertools
import math
import os
from fractions import Fraction as Q

import numpy as np

from pyvc import terms as tm
from pyvc import smt
from pyvc.nf import NF, NFError
from pyvc.interp import Interp, Obj, ClassV, FuncV, PyRaise, Unsupported, ExcV
from pyvc.terms import T

NS = int(os.environ.get("VERIF_NS", "2"))  # generic extent of the sample axis (every other axis gets a different extent), see DESIGN 2.3; the thorough tier re-runs with 3


def sym_array(name, shape, sort="R"):
    a = np.empty(shape, dtype=object)
    for idx in itertools.product(*[range(n) for n in shape]):
        a[idx] = tm.var("%s_%s" % (name, "_".join(str(i) for i in idx)) if idx else name, sort)
    return a


def same_elements(a, b):
    """Frame check: two object arrays hold the identical terms (hash-consing makes `is` structural)."""
    if a.shape != b.shape:
        return False
    return all(tm.lift(x) is tm.lift(y) for x, y in zip(a.reshape(-1), b.reshape(-1)))


def set_partitions(items):
    """All partitions of a list, each as a list mapping item -> block number (restricted growth strings)."""
    items = list(items)
    out = []

    def rec(i, assign, nblocks):
        if i == len(items):
            out.append(dict(zip(items, assign)))
            return
        for b in range(nblocks + 1):
            rec(i + 1, assign + [b], max(nblocks, b + 1))
    rec(0, [], 0)
    return out


def init_params(cls):
    """Parameter names (after self) and defaults of a repository class's __init__ (from the AST)."""
    f, owner = cls.lookup("__init__")
    a = f.node.args
    names = [p.arg for p in a.args][1:]
    nd = len(a.defaults)
    defaults = {}
    for p, d in zip(names[len(names) - nd:], f.defaults):
        defaults[p] = d
    return names, defaults


def all_paths(interp, thunk):
    return list(interp.explore(thunk))


def env_floats(env):
    out = {}
    for k, v in env.items():
        if k.startswith("__"):
            continue
        if isinstance(v, str):
            try:
                v = Q(v)
            except (ValueError, ZeroDivisionError):
                continue
        out[k] = float(v) if not isinstance(v, bool) else v
    return out


def eval_array(a, env):
    out = np.empty(a.shape, dtype=float)
    fl = out.reshape(-1)
    for i, x in enumerate(a.reshape(-1)):
        fl[i] = float(tm.evaluate(tm.lift(x), env))
    return out


def close(a, b, tol=1e-9):
    a, b = np.asarray(a, dtype=float), np.asarray(b, dtype=float)
    if a.shape != b.shape:
        return False
    return bool(np.all(np.abs(a - b) <= tol * (1 + np.maximum(np.abs(a), np.abs(b)))))


def central_diff(f, x0, h=1e-4):
    """Richardson-extrapolated central difference of a scalar function of a scalar."""
    d1 = (f(x0 + h) - f(x0 - h)) / (2 * h)
    d2 = (f(x0 + h / 2) - f(x0 - h / 2)) / h
    return (4 * d2 - d1) / 3


def minimal_domain(hyps, side_terms, candidates, timeout=5.0):
    """Add `0 <= v` for candidate variables only as far as needed to prove the definedness side conditions.
    Returns (extra hypotheses, unproved side conditions)."""
    extra = []
    unproved = []
    for sc in side_terms:
        v, env, be = smt.prove(hyps + extra, sc, timeout)
        if v == "valid":
            continue
        fv = [u for u in tm.free_vars(sc) if u in candidates]
        added = False
        for u in fv:
            h = tm.mk_le(tm.ZERO, u)
            if h not in extra:
                extra.append(h)
                added = True
        if added:
            v, env, be = smt.prove(hyps + extra, sc, timeout)
        if v != "valid":
            unproved.append(sc)
    return extra, unproved
