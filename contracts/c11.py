"""C11 — mapped (fast) evaluators reproduce the Gaussian-process predictive function.

Contracts (sidecar; sources re-parsed from /repo on every run):

  C kernels evaluate_se_kernel / _antisym / _spin (model_utils.c, engine C):
        ensures  out[i] += sum_t actrl[t] * k_spec(xin row i, xctrl row t; exps);  outd += its gradient        (proved from the C AST)
  RBFEvaluator / AntisymRBFEvaluator / SpinRBFEvaluator (xc_evaluator.py), verified *against that C contract* (modular):
        __init__ ensures  exps = 1/(2 l^2), alpha scaled by the constant kernel, identity index list for slices covering all features
        __call__ ensures  res[g] = old + sum_a k(X1[g], X1ctrl[a]) alpha_a   with k the kernel object's own __call__ (Python source),
                          dres[g, n] = old + d/dX1[g, n] of that sum;  arrays handed to C are C-contiguous and sized as the C requires
  DiffAdditiveMixin subclasses:  get_k0_for_mapping(x, y, l) = the per-dimension factor the kernel itself uses
  get_mapped_gp_evaluator_additive / _simple / _linear + SplineSetEvaluator / GlobalLinearEvaluator:
        ensures  at every node of the tabulation grid (all nodes are checked) the mapped evaluator equals sum_a k(x, x_a) alpha_a
                 computed by the kernel's own __call__, for symbolic control points and weights; scale / index-set / const ordering
                 included; grid bounds are those of the feature each index refers to.
        assumed  interpolation.splines.filter_cubic + eval: the spline interpolates its nodal values (external numba code)
  arbf_args: scale list aligned with the combinations enumeration (count identities in symbolic ndim).

Not decidable here (stated, not claimed): 'spline error decreases with grid density' is an approximation-theoretic statement.
"""
import os
import sys

sys.path.insert(0, os.path.dirname(os.path.dirname(os.path.abspath(__file__))))

import itertools
import warnings
import numpy as np
from fractions import Fraction as Q

warnings.filterwarnings("ignore")

from pyvc import terms as tm
from pyvc import vc
from pyvc.framework import run_property
from pyvc.npmodel import CPtr
from contracts.common import *
from contracts.kernelcommon import *
from contracts import ckernels
from contracts.c15 import unit_k0, ADDITIVE

XMOD = "ciderpress.dft.xc_evaluator"
MMOD = "ciderpress.models.kernel_plans.map_tools"


# ------------------------------------------------------------------ C contract as callee
class CPrecondition(Exception):
    pass


def c_se_contract(fname, log):
    """The proved contract of a C squared-exponential kernel, applied to the actual arguments of the ctypes call."""
    def call(interp, out, outd, xin, xctrl, actrl, exps, n, nctrl, nfeat):
        ptrs = dict(out=out, outd=outd, xin=xin, xctrl=xctrl, actrl=actrl, exps=exps)
        for k, p in ptrs.items():
            if not isinstance(p, CPtr):
                raise PyRaise(mk_exc_("TypeError", "argument %s of %s is not a pointer" % (k, fname)))
        ext = ckernels.se_extents(fname, n, nctrl, nfeat)
        flat = {}
        for k, p in ptrs.items():
            a = p.arr
            log.append(("contig", k, bool(a.flags.c_contiguous)))
            log.append(("extent", k, int(a.size), int(ext[k])))
            flat[k] = a.reshape(-1) if a.flags.c_contiguous else None
        if any(v is None for v in flat.values()) or any(flat[k].size < ext[k] for k in flat):
            raise CPrecondition("C precondition violated at the call of %s: %s" % (fname, [e for e in log if (e[0] == "contig" and not e[2]) or (e[0] == "extent" and e[2] < e[3])]))
        I = lambda name: tm.var(name, "I")
        i, N, NC, NF_ = I("i"), I("n"), I("nctrl"), I("nfeat")
        spec = ckernels.se_value_spec(fname, i, N, NC, NF_)
        xin_syms = [tm.var("xin$%d" % k) for k in range(flat["xin"].size)]
        arrays = {"xin": xin_syms, "xctrl": list(flat["xctrl"]), "actrl": list(flat["actrl"]), "exps": list(flat["exps"])}
        back = {xin_syms[k]: tm.lift(flat["xin"][k]) for k in range(len(xin_syms))}
        for r in range(n):
            contrib = ckernels.instantiate(spec, {i: r, N: n, NC: nctrl, NF_: nfeat}, arrays)
            flat["out"][r] = tm.lift(flat["out"][r]) + tm.substitute(contrib, back)
            for k, xs in enumerate(xin_syms):
                d = tm.diff(contrib, xs)
                if d is not tm.ZERO:
                    flat["outd"][k] = tm.lift(flat["outd"][k]) + tm.substitute(d, back)
        log.append(("called", fname, n, nctrl, nfeat))
    return call


def mk_exc_(name, msg):
    from pyvc.interp import mk_exc
    return mk_exc(name, msg)


def unit_rbf_evaluator(kind):
    def run(ctx):
        it = ctx.interp
        mod = setup_interp(it)
        ctx.assume(SK_ASSUMPTION)
        x = it.load_module(XMOD)
        cname = {"rbf": "RBFEvaluator", "antisym": "AntisymRBFEvaluator", "spin": "SpinRBFEvaluator"}[kind]
        fname = {"rbf": "evaluate_se_kernel", "antisym": "evaluate_se_kernel_antisym", "spin": "evaluate_se_kernel_spin"}[kind]
        E = x.ns[cname]
        fn_opaque, _ = E.lookup("_fn")
        log = []
        it.externals[fn_opaque.name] = c_se_contract(fname, log)
        ctx.assume("callee contract of lib/mod_cider/model_utils.c:%s as proved by engine C (unit c-kernel/%s of this check)" % (fname, fname))
        fq = ["%s:%s.__init__" % (XMOD, cname), "%s:%s.__call__" % (XMOD, cname), "%s:RBFEvaluator.__init__" % XMOD, "%s:RBFEvaluator.__call__" % XMOD]
        nctrl, ng = 2, 2
        nl = 3                                   # number of length scales
        nfeat = nl + 1 if kind == "antisym" else nl
        lv = [tm.var("l%d" % f) for f in range(nl)]
        c = tm.var("c0")
        H = [pos(v) for v in lv] + [pos(c)]
        configs = []
        ck = lambda k2: it.call_method(it.call(mod.ns["DiffConstantKernel"], [c], {}), "__mul__", [k2])
        if kind == "rbf":
            configs.append(("DiffRBF", lambda: it.call(mod.ns["DiffRBF"], [], {"length_scale": obj_list(lv)}), nl))
            configs.append(("c*DiffRBF", lambda: ck(it.call(mod.ns["DiffRBF"], [], {"length_scale": obj_list(lv)})), nl))
            for lab, idx, nfull, nsel in (("slice(0,3)", slice(0, 3, None), 3, 3), ("slice(0,None)", slice(0, None, None), 3, 3), ("list[2,0]", [2, 0], 3, 2), ("slice(1,3)", slice(1, 3, None), 4, 2),
                                          ("slice(1,None)", slice(1, None, None), 3, 2), ("slice(0,4,2)", slice(0, 4, 2), 4, 2), ("slice(None,2)", slice(None, 2, None), 3, 2)):
                configs.append(("c*SubsetRBF[%s]" % lab, (lambda idx=idx, nsel=nsel: ck(it.call(mod.ns["SubsetRBF"], [idx], {"length_scale": obj_list(lv[:nsel])}))), nfull))
        elif kind == "antisym":
            configs.append(("c*DiffAntisymRBF", lambda: ck(it.call(mod.ns["DiffAntisymRBF"], [], {"length_scale": obj_list(lv)})), nl + 1))
            configs.append(("DiffAntisymRBF", lambda: it.call(mod.ns["DiffAntisymRBF"], [], {"length_scale": obj_list(lv)}), nl + 1))
        else:
            ng = 3
            configs.append(("DiffRBF(spin)", lambda: it.call(mod.ns["DiffRBF"], [], {"length_scale": obj_list(lv)}), nl))
            configs.append(("c*DiffRBF(spin)", lambda: ck(it.call(mod.ns["DiffRBF"], [], {"length_scale": obj_list(lv)})), nl))
        for label, mk, nfeat in configs:
            kern = mk()
            if kind == "spin":
                Xc = sym_array("c", (2, nctrl, nfeat))
                X1 = sym_array("x", (2, ng, nfeat))
            else:
                Xc = sym_array("c", (nctrl, nfeat))
                X1 = sym_array("x", (ng, nfeat))
            alpha = sym_array("a", (nctrl,))
            del log[:]
            ip = all_paths(it, lambda: it.call(E, [kern, Xc.copy(), alpha.copy()], {}))
            ret, exc = returned(ip)
            ctx.holds("%s[%s] constructor accepts the kernel" % (cname, label), len(ret) == 1, "%s" % [str(p[1])[:200] for p in exc], fq,
                      replay=replay_rbf_subset(label) if "Subset" in label else None)
            if len(ret) != 1:
                continue
            ev = ret[0][0]
            r0 = sym_array("r", (ng,))
            d0 = sym_array("d", X1.shape)
            for mode_ in ("fresh", "accumulate"):
                del log[:]
                kw = {} if mode_ == "fresh" else {"res": r0.copy(), "dres": d0.copy()}
                try:
                    cp = all_paths(it, lambda: it.call(ev, [X1.copy()], dict(kw)))
                except CPrecondition as e:
                    ctx.holds("%s[%s,%s] arrays handed to C are C-contiguous and as large as the C routine requires" % (cname, label, mode_), False, str(e), fq, replay=replay_rbf_subset(label) if "Subset" in label else replay_extent(kind))
                    continue
                ret2, exc2 = returned(cp)
                ctx.holds("%s[%s,%s] __call__ returns" % (cname, label, mode_), len(ret2) == 1, "%s" % [str(p[1])[:200] for p in exc2], fq,
                          replay=replay_rbf_subset(label) if "Subset" in label else None)
                if len(ret2) != 1:
                    continue
                res, dres = ret2[0][0]
                ctx.holds("%s[%s,%s] arrays handed to C are C-contiguous" % (cname, label, mode_), all(e[2] for e in log if e[0] == "contig") and any(e[0] == "contig" for e in log), str([e for e in log if e[0] == "contig" and not e[2]]), fq)
                ctx.holds("%s[%s,%s] array sizes satisfy the C extents" % (cname, label, mode_), all(e[2] >= e[3] for e in log if e[0] == "extent"), str([e for e in log if e[0] == "extent" and e[2] < e[3]]), fq)
                called = [e for e in log if e[0] == "called"]
                ctx.holds("%s[%s,%s] the C routine is called once with n = %d, nctrl = %d" % (cname, label, mode_, ng, nctrl),
                          len(called) == 1 and called[0][1:4] == (fname, ng, nctrl), str(called), fq)
                # the Python kernel sum, from the kernel object's own __call__
                for g in range(ng):
                    if kind == "spin":
                        # spin-symmetrised product kernel k(xa,ca)k(xb,cb) + k(xa,cb)k(xb,ca) with the RBF kernel object
                        ka = lambda P, Rr: it.call(kern, [P.copy(), Rr.copy()], {})
                        xa, xb = X1[0, g:g + 1], X1[1, g:g + 1]
                        val = tm.mk_add(*[alpha[a] * (ka(xa, Xc[0, a:a + 1])[0, 0] * ka(xb, Xc[1, a:a + 1])[0, 0] + ka(xa, Xc[1, a:a + 1])[0, 0] * ka(xb, Xc[0, a:a + 1])[0, 0]) for a in range(nctrl)])
                    else:
                        kv = it.call(kern, [X1[g:g + 1].copy(), Xc.copy()], {})
                        val = tm.mk_add(*[alpha[a] * kv[0, a] for a in range(nctrl)])
                    base = r0[g] if mode_ == "accumulate" else tm.ZERO
                    ctx.equal("%s[%s,%s] res[%d] = old + sum_a k(x, x_a) alpha_a" % (cname, label, mode_, g), H, res[g], base + val, fq,
                              replay=replay_rbf_subset(label) if "Subset" in label else replay_rbf(kind))
                    for idx in (itertools.product(range(2), range(nfeat)) if kind == "spin" else [(n_,) for n_ in range(nfeat)]):
                        xe = X1[(idx[0], g, idx[1])] if kind == "spin" else X1[g, idx[0]]
                        de = dres[(idx[0], g, idx[1])] if kind == "spin" else dres[g, idx[0]]
                        b = (d0[(idx[0], g, idx[1])] if kind == "spin" else d0[g, idx[0]]) if mode_ == "accumulate" else tm.ZERO
                        ctx.equal("%s[%s,%s] dres[%d,%s] = old + d/dx of the kernel sum" % (cname, label, mode_, g, list(idx)), H, de, b + tm.diff(val, xe), fq, replay=replay_rbf(kind))
                if mode_ == "fresh":
                    ctx.canary("%s[%s] canary" % (cname, label), H, res[0], 2 * tm.lift(res[0]) + 1)
    return run


def replay_rbf(kind):
    def replay(wit):
        from pyvc import native
        native.install_shim()
        import ciderpress.models.kernels as K
        import ciderpress.dft.xc_evaluator as X
        rng = np.random.RandomState(4)
        nl, nctrl, ng = 3, 4, 5
        ls = rng.rand(nl) + 0.5
        if kind == "rbf":
            kern = K.DiffConstantKernel(1.7) * K.DiffRBF(length_scale=ls)
            ev = X.RBFEvaluator(kern, rng.rand(nctrl, nl), rng.rand(nctrl))
            Xs = rng.rand(ng, nl)
            ref = kern(Xs, ev._X1ctrl).dot(ev._alpha / 1.7)
        elif kind == "antisym":
            kern = K.DiffConstantKernel(1.7) * K.DiffAntisymRBF(length_scale=ls)
            ev = X.AntisymRBFEvaluator(kern, rng.rand(nctrl, nl + 1), rng.rand(nctrl))
            Xs = rng.rand(ng, nl + 1)
            ref = kern(Xs, ev._X1ctrl).dot(ev._alpha / 1.7)
        else:
            kern = K.DiffConstantKernel(1.7) * K.DiffRBF(length_scale=ls)      # each factor of the spin kernel carries the constant: c^2 in the product
            Xc = rng.rand(2, nctrl, nl)
            al = rng.rand(nctrl)
            ev = X.SpinRBFEvaluator(kern, Xc, al)
            Xs = rng.rand(2, ng, nl)
            ref = (kern(Xs[0], Xc[0]) * kern(Xs[1], Xc[1]) + kern(Xs[0], Xc[1]) * kern(Xs[1], Xc[0])).dot(al)
        r0 = rng.rand(ng)
        res, dres = ev(Xs, res=r0.copy(), dres=np.zeros(Xs.shape))
        err = float(np.max(np.abs(res - r0 - ref)))
        # the gradient too, and on a SECOND call of the same evaluator object with the same block shape (state that outlives a call), against central differences
        d0 = rng.rand(*Xs.shape)
        res2, dres2 = ev(Xs, res=np.zeros(ng), dres=d0.copy())
        gerr = 0.0
        h = 1e-6
        flat = Xs.reshape(-1)
        for k in range(0, flat.size, max(1, flat.size // 7)):
            vals = []
            for sgn in (1, -1):
                Y = flat.copy()
                Y[k] += sgn * h
                fresh = type(ev)(kern, ev._X1ctrl.copy() if kind != "spin" else Xc.copy(), (ev._alpha / 1.7).copy() if kind != "spin" else al.copy())
                vals.append(float(fresh(Y.reshape(Xs.shape), res=np.zeros(ng), dres=np.zeros(Xs.shape))[0].sum()))
            gerr = max(gerr, abs((dres2 - d0).reshape(-1)[k] - (vals[0] - vals[1]) / (2 * h)))
        return {"reproduced": bool(err > 1e-10 or gerr > 1e-5), "kind": kind, "max_abs_err_value": err, "max_abs_err_gradient_on_second_call": gerr}
    return replay


def replay_extent(kind):
    def replay(wit):
        from pyvc import native
        native.install_shim()
        import ciderpress.models.kernels as K
        import ciderpress.dft.xc_evaluator as X
        rng = np.random.RandomState(4)
        nl, nctrl, ng = 3, 4, 7
        kern = K.DiffRBF(length_scale=rng.rand(nl) + 0.5)
        calls = []

        class Spy(object):
            def __call__(self, *a):
                calls.append(a)
        if kind == "spin":
            ev = X.SpinRBFEvaluator(kern, rng.rand(2, nctrl, nl), rng.rand(nctrl))
            Xs = rng.rand(2, ng, nl)
        else:
            ev = X.RBFEvaluator(kern, rng.rand(nctrl, nl), rng.rand(nctrl))
            Xs = rng.rand(ng, nl)
        ev._fn = Spy()          # do not run the C code on an undersized buffer: only look at what would be handed over
        res, dres = ev(Xs)
        n = calls[0][6].value
        return {"reproduced": bool(res.size < n), "res_size": int(res.size), "n_passed_to_C": int(n)}
    return replay


def replay_rbf_subset(label):
    def replay(wit):
        from pyvc import native
        native.install_shim()
        import ciderpress.models.kernels as K
        import ciderpress.dft.xc_evaluator as X
        rng = np.random.RandomState(4)
        idx = eval(label[label.index("[") + 1:-1].replace("list", ""), {"slice": slice})
        nfull = 4
        nsel = len(np.arange(nfull)[idx])
        kern = K.DiffConstantKernel(1.7) * K.SubsetRBF(idx, length_scale=0.6 + rng.rand(nsel))
        Xc, al, Xs = rng.rand(4, nfull), rng.rand(4), rng.rand(5, nfull)
        try:
            ev = X.RBFEvaluator(kern, Xc, al)
            res, dres = ev(Xs)
        except Exception as e:
            return {"reproduced": True, "raised": "%s: %s" % (type(e).__name__, e)}
        ref = kern(Xs, Xc).dot(al)
        err = float(np.max(np.abs(res - ref)))
        return {"reproduced": bool(err > 1e-10 or dres.shape != Xs.shape), "max_abs_err_value": err, "dres_shape": list(dres.shape)}
    return replay


# ------------------------------------------------------------------ spline / linear mapping: exact at the tabulation nodes
class Coeffs(object):
    def __init__(self, grid, vals):
        self.grid, self.vals = grid, vals


def setup_mapping(it, ctx):
    it.externals["pyscf.lib.prange"] = lambda interp, a, b, step: [(p, min(p + step, b)) for p in range(a, b, step)]
    it.externals["interpolation.splines.UCGrid"] = lambda interp, *dims: tuple(tuple(d) for d in dims)
    it.externals["interpolation.splines.filter_cubic"] = lambda interp, grid, vals: Coeffs(grid, vals)

    def get_vec_eval(interp, grid, coeffs, X, N):
        """Assumed contract of the numba cubic-spline evaluator: the spline built by filter_cubic interpolates its nodal values."""
        if not isinstance(coeffs, Coeffs) or tuple(coeffs.grid) != tuple(grid) or len(grid) != N or X.shape[1] != N:
            raise Unsupported("spline evaluated with a grid / dimension different from the one its coefficients were built for")
        y = np.empty((X.shape[0],), dtype=object)
        dy = np.empty((X.shape[0], N), dtype=object)
        for g in range(X.shape[0]):
            node = []
            for d in range(N):
                lo, hi, n = grid[d]
                pts = [Q(lo) + (Q(hi) - Q(lo)) * k / (n - 1) for k in range(n)]
                xv = X[g, d]
                if isinstance(xv, tm.T) and xv.op == "c":
                    xv = xv.args[0]
                if xv not in pts:
                    raise Unsupported("spline evaluated off its nodes: only nodal exactness is part of the contract")
                node.append(pts.index(xv))
            y[g] = coeffs.vals[tuple(node)] if N > 0 else coeffs.vals
            for d in range(N):
                dy[g, d] = tm.mk_fn("Dspline%d" % d, *[tm.lift(X[g, q]) for q in range(N)])
        return y, dy
    it.overrides[XMOD + ":get_vec_eval"] = lambda interp, f, args, kwargs: get_vec_eval(interp, *args, **kwargs)
    ctx.assume("interpolation.splines (filter_cubic, vec_eval_cubic_splines_G_*: external numba code): the cubic spline reproduces the tabulated values at its nodes; "
               "its error between nodes and the decrease of that error with grid density are approximation statements outside this technique (not claimed)")


def feature_list_stub(it, bounds):
    fl = []
    cls = ClassV("_Feat", [], it.load_module(MMOD))
    for b in bounds:
        o = Obj(cls)
        o.fields["bounds"] = b
        fl.append(o)
    return fl


BOUNDS = [(Q(0), Q(1)), (Q(-1), Q(2)), (Q(1, 2), Q(3)), (Q(-2), Q(-1)), (Q(3), Q(5))]


def unit_mapping(label):
    def run(ctx):
        it = ctx.interp
        mod = setup_interp(it)
        ctx.assume(SK_ASSUMPTION)
        setup_mapping(it, ctx)
        mm = it.load_module(MMOD)
        x = it.load_module(XMOD)
        nfull, nctrl = 4, 2
        Xc = sym_array("c", (nctrl, nfull))
        alpha = sym_array("a", (nctrl,))
        fl = feature_list_stub(it, BOUNDS[:nfull])
        LS = [Q(1, 2), Q(3, 4), Q(5, 4), Q(2)]                 # concrete length scales: grid sizing (get_dim) runs concretely
        fq = [MMOD + ":get_mapped_gp_evaluator_additive", MMOD + ":project_kernel_onto_grid", MMOD + ":get_dim", XMOD + ":SplineSetEvaluator.__call__",
              KMOD + ":arbf_args"]
        kw = dict(srbf_density=1, arbf_density=1, max_ngrid=3)
        sv = [tm.var("s%d" % i) for i in range(4)]
        H = [pos(v) for v in sv]
        a_ = tm.var("alpha")
        if label.startswith("arbf"):
            order = int(label[-1])
            idx = [1, 3, 0] if order < 3 else [2, 0, 3]
            kern = it.call(mod.ns["SubsetARBF"], [idx], {"order": order, "length_scale": obj_list([LS[i] for i in idx]), "scale": sv[:order + 1]})
            sel = idx
        elif label.startswith("rq") or label.startswith("llrbf"):
            order = int(label[-1])
            idx = slice(1, 4, None)
            cls = "SubsetAddRQ" if label.startswith("rq") else "SubsetAddLLRBF"
            kern = it.call(mod.ns[cls], [idx], {"order": order, "alpha": a_, "length_scale": obj_list(LS[1:4]), "scale": sv[:order + 1]})
            H.append(pos(a_))
            sel = [1, 2, 3]
        elif label.startswith("prod"):
            order = int(label[-1])
            k1 = it.call(mod.ns["SubsetRBF"], [slice(0, 1, None)], {"length_scale": obj_list(LS[0:1])})
            k2 = it.call(mod.ns["SubsetARBF"], [slice(1, None, None)], {"order": order, "length_scale": obj_list(LS[1:4]), "scale": sv[:order + 1]})
            kern = it.call_method(k1, "__mul__", [k2])
            sel = [0, 1, 2, 3]
        else:
            raise KeyError(label)
        paths = all_paths(it, lambda: it.call(mm.ns["get_mapped_gp_evaluator_additive"], [kern, Xc.copy(), alpha.copy(), fl], dict(kw)))
        ret, exc = returned(paths)
        ctx.holds("%s: mapping returns" % label, len(ret) == 1, "%s" % [str(p[1])[:300] for p in exc], fq, replay=replay_mapping(label))
        if len(ret) != 1:
            return
        out = ret[0][0]
        if len(out) == 5:
            scale, ind_sets, grids, coeffs, const = out
        else:
            scale, ind_sets, grids, coeffs = out
            const = 0
        ctx.holds("%s: one scale / index set / grid / coefficient set per term" % label, len(scale) == len(ind_sets) == len(grids) == len(coeffs), "%d %d %d %d" % (len(scale), len(ind_sets), len(grids), len(coeffs)), fq)
        # grid of term t spans the bounds of the features its index set refers to
        okb = all(tuple((Q(g[0]), Q(g[1])) for g in grids[t]) == tuple(BOUNDS[int(i)] for i in ind_sets[t]) for t in range(len(grids)))
        ctx.holds("%s: every term is tabulated over the bounds of its own features" % label, okb, str([(list(map(int, ind_sets[t])), grids[t]) for t in range(len(grids))][:4]), fq, replay=replay_mapping(label))
        ev = it.call(x.ns["SplineSetEvaluator"], [scale, ind_sets, grids, coeffs], {"const": const})
        # every node of the full tensor grid over the selected features (unselected features: arbitrary symbols)
        npts = 3
        axes = {f: [BOUNDS[f][0] + (BOUNDS[f][1] - BOUNDS[f][0]) * k / (npts - 1) for k in range(npts)] for f in sel}
        nodes = list(itertools.product(*[axes[f] for f in sorted(sel)]))
        rng = ctx.rng
        if ctx.tier == "quick" and len(nodes) > 12:
            nodes = [nodes[0], nodes[-1]] + rng.sample(nodes[1:-1], 10)
        Xn = np.empty((len(nodes), nfull), dtype=object)
        for g, nd in enumerate(nodes):
            for f in range(nfull):
                Xn[g, f] = nd[sorted(sel).index(f)] if f in sel else tm.var("free_%d_%d" % (g, f))
        res, dres = it.call(ev, [Xn.copy()], {})
        kv = it.call(kern, [Xn.copy(), Xc.copy()], {})
        for g in range(len(nodes)):
            val = tm.mk_add(*[alpha[a] * kv[g, a] for a in range(nctrl)])
            ctx.equal("%s: mapped evaluator = sum_a k(x, x_a) alpha_a at grid node %d" % (label, g), H, res[g], val, fq, replay=replay_mapping(label))
        ctx.canary("%s canary" % label, H, res[0], 2 * tm.lift(res[0]) + 1)
        ctx.holds("%s: gradient has the shape of X1" % label, dres.shape == Xn.shape, "", fq)
    return run


def replay_mapping(label):
    def replay(wit):
        from pyvc import native
        native.install_shim()
        import ciderpress.models.kernels as K
        from ciderpress.models.kernel_plans.map_tools import get_mapped_gp_evaluator_additive
        from ciderpress.dft.xc_evaluator import SplineSetEvaluator
        rng = np.random.RandomState(8)
        nfull, nctrl = 4, 6

        class F(object):
            def __init__(self, b):
                self.bounds = b
        fl = [F((float(a), float(b))) for a, b in BOUNDS[:nfull]]
        LS = np.array([0.5, 0.75, 1.25, 2.0])
        order = int(label[-1])
        sc = [0.3, 1.1, 0.7, 0.4][:order + 1]
        if label.startswith("arbf"):
            idx = [1, 3, 0] if order < 3 else [2, 0, 3]
            kern = K.SubsetARBF(idx, order=order, length_scale=LS[idx], scale=sc)
        elif label.startswith("rq"):
            kern = K.SubsetAddRQ(slice(1, 4), order=order, alpha=1.7, length_scale=LS[1:4], scale=sc)
        elif label.startswith("llrbf"):
            kern = K.SubsetAddLLRBF(slice(1, 4), order=order, alpha=1.7, length_scale=LS[1:4], scale=sc)
        else:
            kern = K.SubsetRBF(slice(0, 1), length_scale=LS[0:1]) * K.SubsetARBF(slice(1, None), order=order, length_scale=LS[1:4], scale=sc)
        lo = np.array([float(b[0]) for b in BOUNDS[:nfull]])
        hi = np.array([float(b[1]) for b in BOUNDS[:nfull]])
        Xc = lo + (hi - lo) * rng.rand(nctrl, nfull)
        al = rng.rand(nctrl)
        errs = []
        for dens in (8, 16):
            try:
                out = get_mapped_gp_evaluator_additive(kern, Xc, al, fl, srbf_density=dens, arbf_density=dens, max_ngrid=400)
            except Exception as e:
                return {"reproduced": True, "raised": "%s: %s" % (type(e).__name__, e), "label": label}
            ev = SplineSetEvaluator(*out[:4], **({"const": out[4]} if len(out) == 5 else {}))
            Xs = lo + (hi - lo) * (0.1 + 0.8 * rng.rand(40, nfull))
            res, _ = ev(Xs)
            errs.append(float(np.max(np.abs(res - kern(Xs, Xc).dot(al)))))
        return {"reproduced": bool(errs[1] > 1e-3), "max_abs_err_density8_16": errs, "label": label}
    return replay


def unit_simple(ctx):
    """get_mapped_gp_evaluator_simple (c * SubsetRBF) and get_mapped_gp_evaluator_linear."""
    it = ctx.interp
    mod = setup_interp(it)
    ctx.assume(SK_ASSUMPTION)
    setup_mapping(it, ctx)
    mm = it.load_module(MMOD)
    x = it.load_module(XMOD)
    nfull, nctrl = 4, 2
    Xc = sym_array("c", (nctrl, nfull))
    alpha = sym_array("a", (nctrl,))
    fl = feature_list_stub(it, BOUNDS[:nfull])
    LS = [Q(1, 2), Q(3, 4), Q(5, 4), Q(2)]
    c = tm.var("c0")
    fq = [MMOD + ":get_mapped_gp_evaluator_simple", MMOD + ":project_kernel_onto_grid"]
    for label, idx, sel in (("slice(1,3)", slice(1, 3, None), [1, 2]), ("list[3,0]", [3, 0], [3, 0])):
        srbf = it.call(mod.ns["SubsetRBF"], [idx], {"length_scale": obj_list([LS[i] for i in sel])})
        kern = it.call_method(it.call(mod.ns["DiffConstantKernel"], [c], {}), "__mul__", [srbf])
        paths = all_paths(it, lambda: it.call(mm.ns["get_mapped_gp_evaluator_simple"], [kern, Xc.copy(), alpha.copy(), fl], {"rbf_density": 1, "max_ngrid": 3}))
        ret, exc = returned(paths)
        ctx.holds("simple[%s]: mapping returns" % label, len(ret) == 1, "%s" % [str(p[1])[:300] for p in exc], fq)
        if len(ret) != 1:
            continue
        scale, ind_sets, grids, coeffs = ret[0][0]
        ev = it.call(x.ns["SplineSetEvaluator"], [scale, ind_sets, grids, coeffs], {})
        npts = 3
        axes = [[BOUNDS[f][0] + (BOUNDS[f][1] - BOUNDS[f][0]) * k / (npts - 1) for k in range(npts)] for f in sel]
        nodes = list(itertools.product(*axes))
        Xn = np.empty((len(nodes), nfull), dtype=object)
        for g, nd in enumerate(nodes):
            for f in range(nfull):
                Xn[g, f] = nd[sel.index(f)] if f in sel else tm.var("free_%d_%d" % (g, f))
        res, dres = it.call(ev, [Xn.copy()], {})
        kv = it.call(kern, [Xn.copy(), Xc.copy()], {})
        for g in range(len(nodes)):
            ctx.equal("simple[%s]: mapped evaluator = kernel sum at node %d" % (label, g), [pos(c)], res[g], tm.mk_add(*[alpha[a] * kv[g, a] for a in range(nctrl)]), fq)
    # linear: coefs = kernel(I, X) . alpha with the linear kernel; evaluator res = X1 . coefs
    fql = [MMOD + ":get_mapped_gp_evaluator_linear", XMOD + ":GlobalLinearEvaluator.__call__"]
    nf = 3
    Xl = sym_array("c", (nctrl, nf))
    lin = it.call(mod.ns["DiffLinearKernel"], [], {})
    paths = all_paths(it, lambda: it.call(mm.ns["get_mapped_gp_evaluator_linear"], [lin, Xl.copy(), alpha.copy()], {}))
    ret, exc = returned(paths)
    names = sorted(set(exc_name(p) for p in exc))
    # get_mapped_gp_evaluator_linear asserts X.shape[1] == alpha.size: it is only callable with as many control points as features
    ctx.holds("linear: mapping with nctrl != nfeat is rejected (assert N == alpha.size)", not ret and names == ["AssertionError"], "%s %s" % (len(ret), names), fql)
    Xl = sym_array("c", (nf, nf))
    al3 = sym_array("a", (nf,))
    ev = it.call(mm.ns["get_mapped_gp_evaluator_linear"], [lin, Xl.copy(), al3.copy()], {})
    X1 = sym_array("x", (NS, nf))
    res, dres = it.call(ev, [X1.copy()], {})
    kv = it.call(lin, [X1.copy(), Xl.copy()], {})
    for g in range(NS):
        val = tm.mk_add(*[al3[a] * kv[g, a] for a in range(nf)])
        ctx.equal("linear: evaluator = sum_a k(x, x_a) alpha_a [%d]" % g, [], res[g], val, fql)
        for n_ in range(nf):
            ctx.equal("linear: dres[%d,%d] = gradient" % (g, n_), [], dres[g, n_], tm.diff(val, X1[g, n_]), fql)


def unit_project_grid(N, nctrl):
    """project_kernel_onto_grid: the table of spline values is  fps[i1..iN] = sum_n alpha_n * prod_d k0s[d][n, i_d]  over ALL control points — in particular across
    the chunks the N = 3 and N = 4 branches process the control points in (200 and 20 at a time).  Real function on symbolic arrays; control-point counts on both
    sides of the chunk size (bounded in the counts, every entry symbolic)."""
    def run(ctx):
        it = ctx.interp
        setup_interp(it)
        setup_mapping(it, ctx)
        mm = it.load_module(MMOD)
        fq = [MMOD + ":project_kernel_onto_grid"]
        m = 2
        alpha = sym_array("a", (nctrl,))
        k0s = [sym_array("k%d" % d, (nctrl, m)) for d in range(N)]
        dims = [(0, 1, m)] * N
        tag = "project_kernel_onto_grid[N=%d, %d control points]" % (N, nctrl)
        try:
            paths = all_paths(it, lambda: it.call(mm.ns["project_kernel_onto_grid"], [alpha.copy(), [k.copy() for k in k0s], dims], {}))
        except (Unsupported, PyRaise) as e:
            ctx.undecided("%s runs" % tag, str(e)[:200], fq)
            return
        ret, exc = returned(paths)
        ctx.holds("%s returns" % tag, len(ret) == 1, "%s" % [str(p[1])[:200] for p in exc], fq)
        if len(ret) != 1:
            return
        fps = np.asarray(ret[0][0][0], dtype=object)
        ctx.holds("%s: table has one axis per dimension" % tag, fps.shape == (m,) * N, str(fps.shape), fq)
        if fps.shape != (m,) * N:
            return
        for idx in np.ndindex(*fps.shape):
            want = tm.mk_add(*[alpha[n] * tm.mk_mul(*[k0s[d][n, idx[d]] for d in range(N)]) for n in range(nctrl)])
            ctx.equal("%s: table entry %s = sum over all control points" % (tag, list(idx)), [], fps[idx], want, fq, replay=replay_project_grid(N, nctrl))
    return run


def replay_project_grid(N, nctrl):
    def replay(wit):
        from pyvc import native
        native.install_shim()
        from ciderpress.models.kernel_plans.map_tools import project_kernel_onto_grid
        rng = np.random.RandomState(3)
        m = 3
        alpha = rng.randn(nctrl)
        k0s = [rng.randn(nctrl, m) for _ in range(N)]
        fps, _ = project_kernel_onto_grid(alpha, k0s, [(0.0, 1.0, m)] * N)
        sub = "abcd"[:N]
        ref = np.einsum("n," + ",".join("n" + c for c in sub) + "->" + sub, alpha, *k0s)
        err = float(np.max(np.abs(np.asarray(fps) - ref)))
        return {"reproduced": bool(err > 1e-10), "max |table - sum over all control points|": err, "N": N, "control points": nctrl}
    return replay


def unit_arbf_args(ctx):
    """arbf_args: scale list has one entry per index combination, grouped by order, for symbolic ndim (count identities)."""
    it = ctx.interp
    mod = setup_interp(it)
    fq = [KMOD + ":arbf_args"]
    for ndim in range(1, 7):
        for order in range(0, 4):
            o = Obj(ClassV("_A", [], mod))
            sv = [tm.var("s%d" % i) for i in range(order + 1)]
            o.fields.update({"length_scale": obj_list([Q(1)] * ndim), "order": order, "scale": sv})
            nd, ls, scale, od = it.call(mod.ns["arbf_args"], [o], {})
            want = []
            for q in range(order + 1):
                want += [sv[q]] * len(list(itertools.combinations(range(ndim), q)))
            ctx.holds("arbf_args[ndim=%d,order=%d] scale list = one entry per combination, by order" % (ndim, order), [tm.lift(a) for a in scale] == [tm.lift(b) for b in want] and nd == ndim and od == order,
                      "%d vs %d" % (len(scale), len(want)), fq)
    # the closed forms C(n,2) = n(n-1)/2 and C(n,3) = n(n-1)(n-2)/6 for every n (symbolic), via the Pascal recurrence
    n = tm.var("n", "I")
    c2 = lambda m: m * (m - 1) / 2
    c3 = lambda m: m * (m - 1) * (m - 2) / 6
    ctx.equal("C(n+1,2) = C(n,2) + n (Pascal) — the order-2 count for every ndim", [], c2(n + 1), c2(n) + n, fq)
    ctx.equal("C(n+1,3) = C(n,3) + C(n,2) (Pascal) — the order-3 count for every ndim", [], c3(n + 1), c3(n) + c2(n), fq)
    o = Obj(ClassV("_A", [], mod))
    o.fields.update({"length_scale": obj_list([Q(1)] * 3), "order": 4, "scale": [tm.var("s%d" % i) for i in range(5)]})
    rp = all_paths(it, lambda: it.call(mod.ns["arbf_args"], [o], {}))
    ctx.holds("arbf_args rejects order > 3", all(p[0] == "raise" and exc_name(p) == "ValueError" for p in rp), "", fq)


def unit_get_dim(ctx):
    """get_dim: the tabulation interval of one feature.  ensures (bound given) the interval IS the feature's bounds, whatever the control points are — the
    mapped model is used on the whole bounded domain, not on the hull of the training data; (no bound) the hull of the data widened by buff;
    3 <= ngrid, ngrid <= max_ngrid when given."""
    it = ctx.interp
    setup_interp(it)
    mm = it.load_module(MMOD)
    fq = [MMOD + ":get_dim"]
    xs = sym_array("xc", (NS + 1,))
    b0, b1, buff = tm.var("b0"), tm.var("b1"), tm.var("buff")
    H = [tm.mk_lt(b0, b1), tm.mk_le(tm.ZERO, buff)]
    for mx in (None, 5):
        paths = all_paths(it, lambda: it.call(mm.ns["get_dim"], [xs.copy(), Q(3, 4)], {"density": 2, "buff": buff, "bound": (b0, b1), "max_ngrid": mx}))
        ret, exc = returned(paths)
        ctx.holds("get_dim[bound, max_ngrid=%s] returns" % mx, len(ret) >= 1 and not exc, "%s" % [str(p[1])[:200] for p in exc], fq)
        for k, (out, pc) in enumerate(ret):
            mini, maxi, ngrid = out
            ctx.equal("get_dim[bound, max_ngrid=%s] path %d: the interval starts at the feature's lower bound" % (mx, k), H + list(pc), mini, b0, fq, replay=replay_get_dim())
            ctx.equal("get_dim[bound, max_ngrid=%s] path %d: the interval ends at the feature's upper bound" % (mx, k), H + list(pc), maxi, b1, fq, replay=replay_get_dim())
            ng = tm.lift(ngrid)
            trunc_ax = []
            for t in tm.subterms(ng).values():
                if t.op == "f" and t.args[0] == "trunc":
                    a = t.args[1]
                    trunc_ax += [tm.mk_implies(tm.mk_le(tm.ZERO, a), tm.mk_and(tm.mk_le(t, a), tm.mk_lt(a, t + 1)))]
            ctx.valid("get_dim[bound, max_ngrid=%s] path %d: at least 3 nodes%s" % (mx, k, "" if mx is None else ", at most max_ngrid"), H + list(pc) + trunc_ax,
                      tm.mk_and(tm.mk_le(tm.lift(3), ng), tm.TRUE if mx is None else tm.mk_le(ng, tm.lift(mx))), fq)
    paths = all_paths(it, lambda: it.call(mm.ns["get_dim"], [xs.copy(), Q(3, 4)], {"density": 2, "buff": buff, "max_ngrid": 4}))
    ret, exc = returned(paths)
    ctx.holds("get_dim[no bound] returns", len(ret) >= 1 and not exc, "%s" % [str(p[1])[:200] for p in exc], fq)
    for k, (out, pc) in enumerate(ret):
        mini, maxi, ngrid = out
        for j in range(NS + 1):
            ctx.valid("get_dim[no bound] path %d: control point %d lies in [mini + buff, maxi - buff]" % (k, j), H + list(pc),
                      tm.mk_and(tm.mk_le(tm.lift(mini) + buff, xs[j]), tm.mk_le(xs[j], tm.lift(maxi) - buff)), fq)
    if ret:
        ctx.canary("get_dim canary", H + list(ret[0][1]), ret[0][0][0], b1)


def replay_get_dim():
    def replay(wit):
        from pyvc import native
        native.install_shim()
        import contextlib
        import io
        from ciderpress.models.kernel_plans.map_tools import get_dim
        with contextlib.redirect_stdout(io.StringIO()):
            got = get_dim(np.array([0.4, 0.5, 0.6]), 0.75, density=2, buff=0.0, bound=(0.0, 1.0))
        return {"reproduced": bool(got[0] != 0.0 or got[1] != 1.0), "get_dim": [float(got[0]), float(got[1]), int(got[2])], "bounds": [0.0, 1.0]}
    return replay


def units():
    u = []
    for fn in ("evaluate_se_kernel", "evaluate_se_kernel_antisym", "evaluate_se_kernel_spin"):
        u.append(("c-kernel/" + fn, ckernels.unit_se_kernel(fn)))
    for kind in ("rbf", "antisym", "spin"):
        u.append(("evaluator/" + kind, unit_rbf_evaluator(kind)))
    for c in ADDITIVE:
        u.append(("k0/" + c, unit_k0(c, mapping=True)))
    for label in ("arbf1", "arbf2", "arbf3", "rq2", "llrbf2", "prod2", "prod1"):
        u.append(("mapping/" + label, unit_mapping(label)))
    u.append(("mapping/simple+linear", unit_simple))
    u.append(("arbf_args", unit_arbf_args))
    for N, nctrl in ((1, 3), (2, 3), (3, 2), (3, 201), (4, 2), (4, 21), (4, 41)):
        u.append(("project-grid/N%d_n%d" % (N, nctrl), unit_project_grid(N, nctrl)))
    u.append(("get_dim", unit_get_dim))
    return u


EXPLANATION = (
    "Modular proof: (1) the C squared-exponential kernels are summarised from the C AST and proved equal to the documented kernel sum and its "
    "gradient for all n, nctrl, nfeat; (2) the Python evaluators are executed symbolically with that C contract as callee and proved to return "
    "old + sum_a k(x, x_a) alpha_a and its gradient, k being the kernel object's own __call__, including the hand-over conditions (contiguity, sizes); "
    "(3) the mapping routines are executed symbolically (symbolic control points and weights) and the resulting SplineSetEvaluator / GlobalLinearEvaluator "
    "is proved equal to the kernel sum at every tabulation node, with the spline's nodal interpolation as the only assumption; the per-dimension "
    "mapping factor is proved equal to the factor the kernel uses.  The statement that the spline error decreases with grid density is not decidable by "
    "contracts and is not claimed.")
TRUSTED = [
    "A1 reals; A3/A4 numpy/Python model; ctypes pointers carry the array they were taken from",
    "engine C (cvc): int mathematical in index arithmetic, double real, parameters do not alias",
    "interpolation.splines (numba): nodal interpolation assumed; spline error between nodes not claimed",
    "bounded: mapping units use 2 control points (symbolic), 3 nodes per dimension, 4 features; additive order <= 3 (arbf_args rejects more)",
]

if __name__ == "__main__":
    sys.exit(run_property("C11", "proof", units(), EXPLANATION, TRUSTED, min_obligations=200))
