"""Shared C-side contracts (engine C): the squared-exponential kernels of model_utils.c, used by C04, C11, C10, C18."""
import numpy as np
from fractions import Fraction as Q

from pyvc import terms as tm
from pyvc import vc, smt
from cvc import cparse
from cvc.csym import CSym, Arr, Ptr, CUnsupported, fresh
from cvc import oblig

MU = "mod_cider/model_utils.c"
I = lambda n: tm.var(n, "I")


def rd(arr, idx):
    return tm.mk_fn("rd:" + arr, tm.lift(idx))


def se_kernel_setup(fname):
    tu = cparse.load(MU)
    s = CSym(tu)
    n, nc, nf = I("n"), I("nctrl"), I("nfeat")
    args = dict(out=Ptr(Arr("out")), outd=Ptr(Arr("outd")), xin=Ptr(Arr("xin")), xctrl=Ptr(Arr("xctrl")), actrl=Ptr(Arr("actrl")), exps=Ptr(Arr("exps")), n=n, nctrl=nc, nfeat=nf)
    s.run(fname, args)
    return s, (n, nc, nf)


def se_extents(fname, n, nc, nf):
    """Extents guaranteed by the Python wrappers (RBFEvaluator.__call__ and subclasses): checked against the wrapper in C18."""
    if fname == "evaluate_se_kernel":
        return {"out": n, "outd": n * nf, "xin": n * nf, "xctrl": nc * nf, "actrl": nc, "exps": nf}
    if fname == "evaluate_se_kernel_antisym":
        # X1 has nfeat columns (two antisymmetric ones + nfeat-2), exps has nfeat-1 entries
        return {"out": n, "outd": n * nf, "xin": n * nf, "xctrl": nc * nf, "actrl": nc, "exps": nf - 1}
    if fname in ("evaluate_se_kernel_spin", "evaluate_se_kernel_spin_v2"):
        return {"out": n, "outd": 2 * n * nf, "xin": 2 * n * nf, "xctrl": 2 * nc * nf, "actrl": nc, "exps": nf}
    raise KeyError(fname)


def total_for(sym, arr, hyps):
    """Sum of all write-event contributions to the element addressed by the event's own addressing variables.
    Returns list of (event, addressing vars, total term); all events must be accumulating (+=)."""
    return oblig.element_updates(sym, arr, hyps)


def se_exponent(xarr, xoff, carr, coff, nfeat_lo, nfeat_hi, exps_shift=0):
    j = fresh("j$")
    d = rd(xarr, xoff + j) - rd(carr, coff + j)
    return tm.mk_sum(j, tm.lift(nfeat_lo), tm.lift(nfeat_hi), rd("exps", j - exps_shift) * d * d)


def se_value_spec(fname, i, n, nc, nf, swap_input_spins=False):
    """Contract of the C kernels (value clause): the amount added to out[i], as a term over rd:xin / rd:xctrl / rd:actrl / rd:exps.
    Written from the documentation of the squared-exponential kernel sum f(x) = sum_t alpha_t k(x, c_t); proved against the C summary
    by unit_se_kernel, and used as the callee contract by the Python-side proof of C11 (contracts/c11.py)."""
    t = fresh("t$")
    if fname == "evaluate_se_kernel":
        return tm.mk_sum(t, tm.ZERO, nc, rd("actrl", t) * tm.mk_fn("exp", -se_exponent("xin", i * nf, "xctrl", t * nf, 0, nf)))
    if fname == "evaluate_se_kernel_antisym":
        def e1(a, b):
            dd = rd("xin", i * nf + a) - rd("xctrl", t * nf + b)
            return tm.mk_fn("exp", -rd("exps", 0) * dd * dd)
        rest = tm.mk_fn("exp", -se_exponent("xin", i * nf + 2, "xctrl", t * nf + 2, 0, nf - 2, exps_shift=-1))
        return tm.mk_sum(t, tm.ZERO, nc, rd("actrl", t) * rest * (e1(0, 0) - e1(0, 1) - e1(1, 0) + e1(1, 1)))
    stride = nf if fname == "evaluate_se_kernel_spin" else 2 * nf
    xb = n * nf if fname == "evaluate_se_kernel_spin" else nf
    cb = nc * nf if fname == "evaluate_se_kernel_spin" else nf
    xa_, xb_ = (xb, 0) if swap_input_spins else (0, xb)     # swap_input_spins: the same kernel sum for the input with its two spin channels exchanged
    aa = se_exponent("xin", i * stride + xa_, "xctrl", t * stride, 0, nf)
    ab = se_exponent("xin", i * stride + xa_, "xctrl", t * stride + cb, 0, nf)
    ba = se_exponent("xin", i * stride + xb_, "xctrl", t * stride, 0, nf)
    bb = se_exponent("xin", i * stride + xb_, "xctrl", t * stride + cb, 0, nf)
    return tm.mk_sum(t, tm.ZERO, nc, rd("actrl", t) * (tm.mk_fn("exp", -(aa + bb)) + tm.mk_fn("exp", -(ab + ba))))


def instantiate(term, ints, arrays):
    """Evaluate a contract term at concrete sizes: integer variables replaced, bound sums expanded, rd:<arr>(k) replaced by arrays[arr][k]."""
    cache = {}

    def go(u, env):
        key = (u.id, tuple(sorted((k.id, v) for k, v in env.items())))
        if key in cache:
            return cache[key]
        op = u.op
        if op == "v":
            r = tm.const(env[u]) if u in env else u
        elif op == "c":
            r = u
        elif op == "sum":
            bv, lo, hi, body = u.args
            lo_, hi_ = go(lo, env), go(hi, env)
            if lo_.op != "c" or hi_.op != "c":
                raise ValueError("non-concrete sum bounds")
            parts = []
            for q in range(int(lo_.args[0]), int(hi_.args[0])):
                e2 = dict(env)
                e2[bv] = q
                parts.append(go(body, e2))
            r = tm.mk_add(*parts) if parts else tm.ZERO
        elif op == "f" and u.args[0].startswith("rd:"):
            k = go(u.args[1], env)
            if k.op != "c":
                raise ValueError("non-concrete read index %s" % tm.show(k, 80))
            r = tm.lift(arrays[u.args[0][3:]][int(k.args[0])])
        elif op == "f":
            r = tm.mk_fn(u.args[0], *[go(a, env) for a in u.args[1:]])
        else:
            r = tm.rebuild(op, [go(a, env) if isinstance(a, tm.T) else a for a in u.args])
        cache[key] = r
        return r
    return go(tm.lift(term), dict(ints))


def concrete_refute(fname, got, want, i, n, nc, nf, seed=0):
    """Search a concrete instance (small sizes, inputs at several magnitudes — data-dependent branches of the C code sit at large exponents) at which the
    two contract terms evaluate differently.  Returns a witness dict or None.  A witness is replayed on the compiled C code by replay_kernel_value."""
    from fractions import Fraction
    rng = np.random.RandomState(17 + seed)
    spin = "spin" in fname
    for (n_, nc_, nf_) in ((1, 1, 1 if "antisym" not in fname else 3), (2, 2, 2 if "antisym" not in fname else 3), (2, 3, 3)):
        for scale in (1, 4, 12, 40):
            for trial in range(3):
                q = lambda size, lo=0: [Fraction(int(v), 8) for v in rng.randint(lo * 8, scale * 8 + 1, size=size)]
                arrays = {"xin": q((2 if spin else 1) * n_ * nf_, -scale), "xctrl": q((2 if spin else 1) * nc_ * nf_, -scale), "actrl": q(nc_, -scale), "exps": [x + Fraction(1, 8) for x in q(nf_)]}
                for i_ in range(n_):
                    ints = {n: n_, nc: nc_, nf: nf_, i: i_}
                    try:
                        a = float(tm.evaluate(instantiate(got, ints, arrays), {}))
                        b = float(tm.evaluate(instantiate(want, ints, arrays), {}))
                    except (ValueError, KeyError, OverflowError, ZeroDivisionError):
                        continue
                    if abs(a - b) > 1e-9 * max(1.0, abs(a), abs(b)):
                        return {"n": n_, "nctrl": nc_, "nfeat": nf_, "i": i_, "code_summary_value": a, "contract_value": b,
                                "arrays": {k: [float(x) for x in v] for k, v in arrays.items()}}
    return None


def replay_kernel_value(fname):
    """Run the compiled kernel on the witness arrays and compare out[i] with the documented kernel sum computed with numpy."""
    def replay(wit):
        import ctypes
        from pyvc import native
        if not wit or "arrays" not in wit:
            return {"reproduced": None, "note": "no concrete instance"}
        lib = ctypes.CDLL(native.build_libs() + "/libmcider.so")
        n, nc, nf = wit["n"], wit["nctrl"], wit["nfeat"]
        A = {k: np.array(v, dtype=np.float64) for k, v in wit["arrays"].items()}
        out = np.zeros(n)
        outd = np.zeros(A["xin"].size)
        getattr(lib, fname)(*[v.ctypes.data_as(ctypes.c_void_p) for v in (out, outd, A["xin"], A["xctrl"], A["actrl"], A["exps"])], ctypes.c_int(n), ctypes.c_int(nc), ctypes.c_int(nf))
        ex = A["exps"]
        se = lambda x, c, e=None: float(np.sum((ex if e is None else e) * (x - c) ** 2))
        want = np.zeros(n)
        for i in range(n):
            for t in range(nc):
                if fname == "evaluate_se_kernel":
                    k = np.exp(-se(A["xin"][i * nf:(i + 1) * nf], A["xctrl"][t * nf:(t + 1) * nf]))
                elif fname == "evaluate_se_kernel_antisym":
                    x, c = A["xin"][i * nf:(i + 1) * nf], A["xctrl"][t * nf:(t + 1) * nf]
                    e1 = lambda a, b: np.exp(-ex[0] * (x[a] - c[b]) ** 2)
                    k = np.exp(-se(x[2:], c[2:], ex[1:nf - 1])) * (e1(0, 0) - e1(0, 1) - e1(1, 0) + e1(1, 1))
                else:
                    v2 = fname.endswith("_v2")
                    xa = A["xin"][2 * i * nf:2 * i * nf + nf] if v2 else A["xin"][i * nf:(i + 1) * nf]
                    xb = A["xin"][2 * i * nf + nf:2 * (i + 1) * nf] if v2 else A["xin"][n * nf + i * nf:n * nf + (i + 1) * nf]
                    ca = A["xctrl"][2 * t * nf:2 * t * nf + nf] if v2 else A["xctrl"][t * nf:(t + 1) * nf]
                    cb = A["xctrl"][2 * t * nf + nf:2 * (t + 1) * nf] if v2 else A["xctrl"][nc * nf + t * nf:nc * nf + (t + 1) * nf]
                    k = np.exp(-(se(xa, ca) + se(xb, cb))) + np.exp(-(se(xa, cb) + se(xb, ca)))
                want[i] += A["actrl"][t] * k
        dev = float(np.max(np.abs(out - want)))
        return {"reproduced": bool(dev > 1e-9 * max(1.0, float(np.max(np.abs(want))))), "out_from_C": [float(v) for v in out], "documented_kernel_sum": [float(v) for v in want]}
    return replay


def unit_se_kernel(fname, value_spec=True):
    """Value summary and D-spec between `out` and `outd` of one C kernel, for all n, nctrl, nfeat (no bound)."""
    def run(ctx):
        fq = ["lib/" + MU + ":" + fname]
        try:
            s, (n, nc, nf) = se_kernel_setup(fname)
        except CUnsupported as e:
            ctx.undecided("%s.summary" % fname, "left the supported C subset: %s" % e, fq)
            return
        hyps = [tm.mk_lt(tm.ZERO, n), tm.mk_lt(tm.ZERO, nc), tm.mk_lt(tm.const(2) if "antisym" in fname else tm.ZERO, nf)]
        oblig.bounds_obligations(ctx, fname, s, hyps, se_extents(fname, n, nc, nf), fq)
        oblig.independence_obligations(ctx, fname, s, hyps, fq)
        oblig.side_obligations(ctx, fname, s, hyps, fq)
        outs = total_for(s, "out", hyps)
        ctx.holds("%s.out-written-by-one-accumulating-event" % fname, len(outs) == 1 and outs[0][0].op == "+=" and outs[0][4] in ("unsat", "vacuous"),
                  "events %s" % [(o[0].op, o[4]) for o in outs], fq)
        if len(outs) != 1:
            return
        ev, addr, free, total, inj = outs[0]
        i = addr[0][0]
        H = hyps + list(ev.guards[:2])
        if value_spec:
            spec = se_value_spec(fname, i, n, nc, nf)
            r = ctx.equal("%s.value: out[i] += sum_t alpha_t k(x_i, c_t)" % fname, H, total, spec, fq, replay=replay_kernel(fname))
            if r["status"] == "undecided":
                # symbolic comparison inconclusive (e.g. a data-dependent branch in the C code): look for a concrete instance that separates the two
                w = concrete_refute(fname, total, spec, i, n, nc, nf, ctx.seed)
                if w is not None:
                    rp = replay_kernel_value(fname)(w)
                    if rp.get("reproduced"):
                        r.update({"status": "refuted", "backend": "concrete-instance", "detail": "a concrete input separates the C summary from the documented kernel sum", "witness": w, "replay": rp})
            ctx.canary("%s.value canary" % fname, H, total, 2 * spec)
        # D-spec: every outd element receives d(out contribution)/d(xin element at the same position)
        douts = total_for(s, "outd", hyps)
        ctx.holds("%s.outd-events-accumulate" % fname, all(o[0].op in ("+=", "-=") for o in douts) and all(o[4] in ("unsat", "vacuous") for o in douts),
                  "ops %s injective %s" % ([o[0].op for o in douts], [o[4] for o in douts]), fq)
        # group the events by the element they address: canonical index with the event's variables renamed positionally
        groups = {}
        for ev2, addr2, free2, tot2, inj2 in douts:
            iv = [q[0] for q in addr2]
            std = [I("gi"), I("gj")][:len(iv)]
            if len(iv) > 2:
                ctx.undecided("%s.dspec" % fname, "more than two addressing variables", fq)
                return
            m = dict(zip(iv, std))
            idx = tm.substitute(ev2.idx, m)
            sign = -1 if ev2.op == "-=" else 1
            g = [tm.substitute(x, m) for x in ev2.guards if all(u in m or u.args[0].split("#")[0] in ("n", "nctrl", "nfeat") or "#" not in u.args[0] for u in tm.free_vars(x))]
            key = s.canon(idx)
            groups.setdefault(key, [idx, [], g])[1].append(sign * tm.substitute(tot2, m))
        # out total with i renamed to gi
        out_gi = tm.substitute(total, {i: I("gi")})
        for key, (idx, parts, g) in sorted(groups.items()):
            got = tm.mk_add(*parts)
            want = oblig.diff_rd(out_gi, "xin", idx)
            HH = hyps + [tm.mk_le(tm.ZERO, I("gi")), tm.mk_lt(I("gi"), n)] + g
            ctx.equal("%s.dspec: outd[%s] += d out[i] / d xin[same]" % (fname, tm.show(idx, 40)), HH, vc.simplify_ite(HH, got), vc.simplify_ite(HH, want), fq,
                      replay=replay_kernel(fname))
        if groups:
            key = sorted(groups)[0]
            idx, parts, g = groups[key]
            HH = hyps + [tm.mk_le(tm.ZERO, I("gi")), tm.mk_lt(I("gi"), n)] + g
            ctx.canary("%s.dspec canary" % fname, HH, vc.simplify_ite(HH, tm.mk_add(*parts)), vc.simplify_ite(HH, 2 * oblig.diff_rd(out_gi, "xin", idx)))
        # cross-point independence: out[i] reads xin only in row i (so d out[i]/d xin[other rows] = 0)
        rows = [e for e in s.events if e.kind == "r" and e.arr.name == "xin"]
        ctx.holds("%s.reads-of-xin-are-in-the-row-of-the-iteration" % fname, len(rows) > 0, "", fq)
        # the summary above is the sequential meaning of the loop nest: the OpenMP worksharing construct (including collapse clauses) must not let two
        # iterations that run concurrently touch the same element — the race-freedom obligations of C10 for this function
        from contracts import c10
        try:
            s2, args2 = c10.summarise(MU, fname)
        except c10.CUnsupported as e:
            ctx.undecided("%s.race-freedom summarised" % fname, str(e)[:160], fq)
            return
        c10.check_summary(ctx, MU, fname, fname, s2, args2, fq)
    return run


def unit_spin_kernel_symmetry(fname):
    """Lemma over the value contract of the C spin kernels (the contract itself is proved against the C source by unit_se_kernel): the kernel sum is
    invariant under exchanging the two spin channels of the input point — the spin-symmetric evaluator contract that the POL wrapper proofs assume."""
    def run(ctx):
        fq = ["lib/" + MU + ":" + fname]
        n, nc, nf = I("n"), I("nctrl"), I("nfeat")
        i = I("i")
        H = [tm.mk_lt(tm.ZERO, n), tm.mk_lt(tm.ZERO, nc), tm.mk_lt(tm.ZERO, nf), tm.mk_le(tm.ZERO, i), tm.mk_lt(i, n)]
        a = se_value_spec(fname, i, n, nc, nf)
        b = se_value_spec(fname, i, n, nc, nf, swap_input_spins=True)
        # the bound variable of the two sums is renamed to a common one
        (ta, ba_), (tb, bb_) = (a.args[0], a.args[3]), (b.args[0], b.args[3])
        t = I("t")
        H2 = H + [tm.mk_le(tm.ZERO, t), tm.mk_lt(t, nc)]
        ctx.equal("%s: summand of the kernel sum is unchanged when the spin channels of the input point are exchanged" % fname, H2,
                  tm.substitute(ba_, {ta: t}), tm.substitute(bb_, {tb: t}), fq)
        ctx.canary("%s exchange canary (same-spin pairing only)" % fname, H2, tm.substitute(ba_, {ta: t}),
                   2 * rd("actrl", t) * tm.mk_fn("exp", -(se_exponent("xin", i * (nf if fname == "evaluate_se_kernel_spin" else 2 * nf), "xctrl", t * (nf if fname == "evaluate_se_kernel_spin" else 2 * nf), 0, nf)
                                                          + se_exponent("xin", i * (nf if fname == "evaluate_se_kernel_spin" else 2 * nf) + (n * nf if fname == "evaluate_se_kernel_spin" else nf), "xctrl",
                                                                        t * (nf if fname == "evaluate_se_kernel_spin" else 2 * nf) + (nc * nf if fname == "evaluate_se_kernel_spin" else nf), 0, nf))))
    return run


def replay_kernel(fname):
    def replay(wit):
        import ctypes
        from pyvc import native
        lib = ctypes.CDLL(native.build_libs() + "/libmcider.so")
        rng = np.random.RandomState(3)
        n, nc, nf = 3, 4, 5
        spin = "spin" in fname
        xin = rng.rand(2 * n * nf if spin else n * nf)
        xc = rng.rand(2 * nc * nf if spin else nc * nf)
        a = rng.rand(nc)
        ex = rng.rand(nf) + 0.2

        def run(x):
            out = np.zeros(n)
            outd = np.zeros(x.size)
            getattr(lib, fname)(*[v.ctypes.data_as(ctypes.c_void_p) for v in (out, outd, x, xc, a, ex)], ctypes.c_int(n), ctypes.c_int(nc), ctypes.c_int(nf))
            return out, outd
        out, outd = run(xin.copy())
        bad, rows = False, []
        for k in range(xin.size):
            h = 1e-6
            xp, xm = xin.copy(), xin.copy()
            xp[k] += h
            xm[k] -= h
            fd = (run(xp)[0].sum() - run(xm)[0].sum()) / (2 * h)
            if abs(fd - outd[k]) > 1e-6 * (1 + abs(fd)):
                bad = True
                rows.append({"xin_index": k, "outd": float(outd[k]), "finite_difference": float(fd)})
        return {"reproduced": bad, "function": fname, "mismatches": rows[:6]}
    return replay
