"""LCAONLDFGenerator with its REAL __init__, get_features, get_potential, _perform_fwd_convolution and _perform_bwd_convolution, around abstract
collaborators that carry the buffer semantics of the real ones (assumed contracts, each derived from the callee's code / docstring):

  grids_indexer.reduce_angc_ylm_(theta_rlmq, theta_gq, a2y)   overwrites its output (theta_rlmq if a2y else theta_gq) with A1 x / A1^T y
  atco_inp.convert_rad2orb_(theta_rlmq, p_uq, ..., rad2orb)   zeroes its output window, then adds A2 x / A2^T y          (zero_output=True default)
  plan.get_transformed_interpolation_terms(p, i, fwd, inplace=True)   in place: p <- S_i p (fwd) / S_i^T p (bwd); identity for version k, i = -1
  ccl.multiply_atc_integrals(inp, output, fwd)                 output += M inp (fwd) / M^T inp (bwd)                     (dgemm with beta = 1)
  interpolator.project_orb2grid(conv_vq)                       returns a fresh array P conv_vq
  interpolator.project_grid2orb(vf_gq, f_uq)                   f_uq += P^T vf_gq, returns f_uq
  interpolator.project_orb2grid_grad(conv_vq, vf_gq)           returns a fresh array depending on both arguments

All operators are symbolic matrices; the backward operator of each collaborator is the transpose of its forward one (their own adjointness is C05's
subject).  Buffers are the generator's own (_rlmq_buf, _uq_buf, _vq_buf), allocated by the real __init__, so stale contents and aliasing are modelled.
"""
import itertools

import numpy as np

from pyvc import terms as tm
from pyvc.interp import Obj, ClassV, Builtin
from contracts.common import sym_array, NS
from contracts.planharness import make_settings, make_plan

GMOD = "ciderpress.dft.lcao_nldf_generator"
PMOD = "ciderpress.dft.plans"
NALPHA = 2


def lin(M, x, transpose=False):
    """y = M x (M: out x in, both flattened) or M^T x"""
    x = [tm.lift(v) for v in np.asarray(x, dtype=object).reshape(-1)]
    no, ni = M.shape
    if transpose:
        return [tm.mk_add(*[M[o, i] * x[o] for o in range(no)]) for i in range(ni)]
    return [tm.mk_add(*[M[o, i] * x[i] for i in range(ni)]) for o in range(no)]


def fill(arr, vals, add=False):
    flat = arr.reshape(-1) if arr.flags.c_contiguous else None
    it_ = list(itertools.product(*[range(k) for k in arr.shape]))
    for idx, v in zip(it_, vals):
        arr[idx] = (tm.lift(arr[idx]) + v) if add else v


def build(it, version, level, nspin, hyps, rhocut):
    st = make_settings(it, version, level, "one", hyps)
    plan = make_plan(it, st, nspin, nalpha=NALPHA, hyps=hyps, rhocut=rhocut)
    gm = it.load_module(GMOD)
    nvi = it.getattr(plan, "num_vi_ints")
    nrow = (0 if version == "i" else NALPHA) + nvi
    mk = lambda name, **f: (lambda o: (o.fields.update(f), o)[1])(Obj(ClassV(name, [], gm)))
    NU, NV, NR = 1, 1, 1                    # orbitals of the input / output basis, radial x harmonics entries (one each: the operators are generic matrices)
    A1 = sym_array("A1", (NR * NALPHA, NS * NALPHA))
    A2 = sym_array("A2", (NU * NALPHA, NR * NALPHA))
    MM = sym_array("MM", (NV * nrow, NU * NALPHA))
    PP = sym_array("PP", (NS * nrow, NV * nrow))
    S = {-1: sym_array("Sm1", (NALPHA, NALPHA)), 0: sym_array("S0", (NALPHA, NALPHA))}
    W = sym_array("w", (NS,))

    def reduce_angc(theta_rlmq, theta_gq, a2y=True, offset=None):
        if a2y:
            fill(theta_rlmq, lin(A1, theta_gq))
        else:
            fill(theta_gq, lin(A1, theta_rlmq, transpose=True))
    gi = mk("_Indexer", ngrids=NS, idx_map=np.array([(g + 1) % NS for g in range(NS)]), all_weights=W, padding=0, rad_arr=sym_array("rads", (NR,)))
    gi.fields["empty_rlmq"] = Builtin("empty_rlmq", lambda nalpha=1, nspin=None: np.full((NR, 1, nalpha), tm.ZERO, dtype=object))
    gi.fields["empty_gq"] = Builtin("empty_gq", lambda nalpha=1, nspin=None: np.full((NS, nalpha) if nspin is None else (nspin, NS, nalpha), tm.ZERO, dtype=object))
    gi.fields["reduce_angc_ylm_"] = Builtin("reduce_angc_ylm_", reduce_angc)

    def convert_rad2orb(theta_rlmq, p_uq, loc, rads, rad2orb=True, offset=None, zero_output=True):
        if rad2orb:
            if zero_output:
                p_uq[...] = tm.ZERO
            fill(p_uq, lin(A2, theta_rlmq), add=True)
        else:
            if zero_output:
                theta_rlmq[...] = tm.ZERO
            fill(theta_rlmq, lin(A2, p_uq, transpose=True), add=True)
    atco_inp = mk("_ATCO", nao=NU)
    atco_inp.fields["convert_rad2orb_"] = Builtin("convert_rad2orb_", convert_rad2orb)

    def multiply(inp, output=None, fwd=True):
        if output is None:
            raise RuntimeError("model: output buffer expected")
        fill(output, lin(MM, inp, transpose=not fwd), add=True)
        return output
    ccl = mk("_CCL", atco_inp=atco_inp, atco_out=mk("_ATCO", nao=NV), num_out=nrow)
    ccl.fields["multiply_atc_integrals"] = Builtin("multiply_atc_integrals", multiply)

    def transform(interp, f, args, kwargs):
        plan_, p = args[0], args[1]
        i = kwargs.get("i", -1)
        fwd = kwargs.get("fwd", True)
        if not kwargs.get("inplace", False):
            raise RuntimeError("model: only the in-place form is used by the generator")
        Sm = S[-1 if i == -1 else 0]
        p = np.asarray(p, dtype=object)
        # acts on the alpha axis (last axis of a (rows, nalpha) block)
        new = np.empty(p.shape, dtype=object)
        for r in range(p.shape[0]):
            row = lin(Sm, p[r], transpose=not fwd)
            for q in range(p.shape[1]):
                new[r, q] = row[q]
        for r in range(p.shape[0]):
            for q in range(p.shape[1]):
                args[1][r, q] = new[r, q]
        return args[1]
    it.overrides[PMOD + ":NLDFGaussianPlan._get_transformed_interpolation_terms"] = transform

    def orb2grid(conv_vq):
        out = np.empty((NS, nrow), dtype=object)
        fill(out, lin(PP, conv_vq))
        return out

    def grid2orb(vf_gq, f_uq=None):
        if f_uq is None:
            f_uq = np.full((NV, nrow), tm.ZERO, dtype=object)
        fill(f_uq, lin(PP, vf_gq, transpose=True), add=True)
        return f_uq

    def orb2grid_grad(conv_vq, vf_gq):
        args = [tm.lift(v) for v in np.asarray(conv_vq, dtype=object).reshape(-1)] + [tm.lift(v) for v in np.asarray(vf_gq, dtype=object).reshape(-1)]
        return np.array([[tm.mk_fn("EXCSUM_%d_%d" % (a, c), *args) for c in range(3)] for a in range(1)], dtype=object)
    interp_ = mk("_Interp", num_out=nrow)
    interp_.fields["project_orb2grid"] = Builtin("project_orb2grid", orb2grid)
    interp_.fields["project_grid2orb"] = Builtin("project_grid2orb", grid2orb)
    interp_.fields["project_orb2grid_grad"] = Builtin("project_orb2grid_grad", orb2grid_grad)

    def fresh_gen():
        return it.call(gm.ns["LCAONLDFGenerator"], [plan, ccl, interp_, gi], {})
    return dict(plan=plan, fresh_gen=fresh_gen, nrow=nrow, W=W)


ASSUMPTION = ("LCAONLDFGenerator runs its real __init__, get_features, get_potential and _perform_fwd/_bwd_convolution; its collaborators (reduce_angc_ylm_, convert_rad2orb_, "
              "get_transformed_interpolation_terms, multiply_atc_integrals, project_orb2grid / grid2orb) are symbolic linear operators with the buffer semantics of the real ones "
              "(overwrite / zero-then-add / add into the caller's buffer / fresh array), backward = transpose of forward (C05)")
