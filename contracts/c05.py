"""C05 — every reverse-mode operator is the exact adjoint of its forward operator.

Contracts (A-spec, DESIGN 2.6).  For a forward routine A (input array x, output array y) and a backward routine B (input ybar, output xbar)
summarised in value mode from the clang AST of the real C source:

   A:  y[J(t)]  (= | +=)  sum  c(t) * x[I(t)]          B:  xbar[I'(s)]  (= | +=)  sum  c'(s) * ybar[J'(s)]

<A x, y> = <x, B y> for all x, y  iff  the triple multisets {(I, J, c)} and {(I', J', c')} coincide: every family of triples of A is matched with
exactly one family of B by a bijection of the iteration variables (guards equivalent, indices swapped-equal, coefficients equal), and vice
versa; neither routine reads its input array in any non-linear way; a routine that overwrites its output ('=') does so for the whole output
range unconditionally (otherwise the result depends on stale buffer contents and is not a linear map of the input).
In-place steps (the l+1 terms) are linear maps of a row of four columns: their 4x4 matrices are computed from the summaries and compared
with each other's transposes.

Pairs under contract:  reduce_angc_to_ylm / reduce_ylm_to_angc (dgemm, reference-BLAS contract);  SDMXcontract_ao_to_bas / _bwd and _l1 / _l1_bwd;
contract_shl_to_alpha_l1 / _bwd;  project_conv_to_spline / project_spline_to_conv;  fill_l1_coeff_fwd / _bwd;
add_lp1_term_fwd/bwd, add_lp1_term_onsite_fwd/bwd, add_lp1_onsite_new_fwd/bwd (in place);
Python: NLDFAuxiliaryPlan.eval_rho_vj_/eval_vxc_vj_ and eval_rho_vi_/eval_vxc_vi_ through eval_rho_full / eval_vxc_full (engine P, reverse D-spec of a
linear map = its transpose).
Not under contract (listed, not claimed): Gaussian convolutions multiply_atc_integrals(_vk), contract_rad_to_orb / orb_to_rad, compute_mol_convs_* /
compute_pot_convs_*, the interpolation-coefficient transform, SDMX *_grid variants.
Python chains of LCAOInterpolator / LCAOInterpolatorDirect (interpolate_fwd/bwd, conv2spline/spline2conv, project_orb2grid/grid2orb): executed on symbolic arrays
around abstract linear contracts of the C collaborators; bounded in the array shapes.
"""
import itertools
import os
import sys

sys.path.insert(0, os.path.dirname(os.path.dirname(os.path.abspath(__file__))))

import warnings
import numpy as np
from fractions import Fraction as Q

warnings.filterwarnings("ignore")

from pyvc import terms as tm
from pyvc import vc, smt, intarith
from pyvc.nf import NF, NFError
from pyvc.framework import run_property
from cvc import cparse, oblig, adjoint
from cvc.csym import CSym, Arr, Ptr, Struct, StructArr, CUnsupported, fresh
from contracts.c10 import mk_value, nonneg_hyps, relevant, HELPER_TUS, mono

I = lambda n: tm.var(n, "I")


def summarise(rel, fn, requires=None, shared=None):
    tus = [cparse.load(rel)] + [cparse.load(h) for h in HELPER_TUS if h != rel]
    tu = tus[0]
    s = CSym(tus, footprint=False)
    args = {p: mk_value(tu, ty, p) for p, ty in tu.params(fn)}
    if shared:
        # the two routines of a pair are run on the SAME symbolic arguments (same arrays, same sizes, same struct objects)
        args = {k: shared.get(k, v) for k, v in args.items()}
    hy = nonneg_hyps(args) + (requires(args) if requires else [])
    s.hyps = list(hy)
    s.run(fn, args)
    return s, args, hy


def dedupe_assumes(*syms):
    seen, out = set(), []
    for s in syms:
        for a in oblig.side_hyps(s):
            if a.id not in seen:
                seen.add(a.id)
                out.append(a)
    return out


def table_instances(tables, terms_):
    out = []
    for tab in tables:
        idxs, seen = [], set()
        for t in terms_:
            for u in tm.subterms(tm.lift(t)).values():
                if u.op == "fi" and u.args[0] == tab and u.args[1].id not in seen:
                    seen.add(u.args[1].id)
                    idxs.append(u.args[1])
        for a in idxs:
            out.append(tm.mk_le(tm.ZERO, tm.mk_fi(tab, a)))
            for b in idxs:
                if a is not b:
                    out.append(mono(tab, a, b))
    return out


PAIRS = [
    dict(name="angular grid <-> spherical harmonics", rel="mod_cider/cider_grids.c", fwd="reduce_angc_to_ylm", bwd="reduce_ylm_to_angc",
         x="theta_gq", y="theta_rlmq", tables=["rad_loc"], overwrite_total=True,
         requires=lambda a: [tm.mk_le(tm.ZERO, a["offset"]), tm.mk_le(a["offset"] + a["nalpha"], a["stride"])]),
    dict(name="SDMX orbital contraction (l=0)", rel="mod_cider/fast_sdmx.c", fwd="SDMXcontract_ao_to_bas", bwd="SDMXcontract_ao_to_bas_bwd",
         x="ao", y="vbas", tables=["rf_loc", "ao_loc"], partition=("thread", "g", "ngrids")),
    dict(name="SDMX orbital contraction with the grid displacement (x component)", rel="mod_cider/fast_sdmx.c", fwd="SDMXcontract_ao_to_bas_grid", bwd="SDMXcontract_ao_to_bas_grid_bwd",
         x="ao", y="vbas", tables=["rf_loc", "ao_loc"], partition=("thread", "g", "ngrids")),
    dict(name="SDMX orbital contraction, l=1 block (values, three displacement components, gradient components)", rel="mod_cider/fast_sdmx.c", fwd="SDMXcontract_ao_to_bas_l1",
         bwd="SDMXcontract_ao_to_bas_l1_bwd", x="ao", y="vbas", tables=["rf_loc", "ao_loc"], partition=("thread", "g", "ngrids"),
         requires=lambda a: [tm.mk_le(tm.ONE, a["nrf"]), tm.mk_le(tm.ONE, a["ngrids"])]),
    dict(name="l=1 coefficient fill", rel="mod_cider/conv_interpolation.c", fwd="fill_l1_coeff_fwd", bwd="fill_l1_coeff_bwd",
         x="f_u", y="d_uv", tables=[]),
]


def unit_pair(P):
    def run(ctx):
        rel = P["rel"]
        fq = ["lib/%s:%s" % (rel, P["fwd"]), "lib/%s:%s" % (rel, P["bwd"])]
        tag = "%s/%s" % (P["fwd"], P["bwd"])
        try:
            sf, af, hf = summarise(rel, P["fwd"], P.get("requires"))
            sb, ab, hb = summarise(rel, P["bwd"], P.get("requires"), shared=af)
        except CUnsupported as e:
            ctx.undecided("%s summarised" % tag, "left the supported C subset: %s" % e, fq)
            return
        hyps = hf
        Ff, badf = adjoint.families(sf, P["y"], P["x"])
        Fb, badb = adjoint.families(sb, P["x"], P["y"])
        ctx.holds("%s forward routine is linear in %s (one read of the input per product)" % (tag, P["x"]), not badf, "%s" % [(repr(e)[:80], w) for e, w in badf][:2], fq)
        ctx.holds("%s backward routine is linear in %s" % (tag, P["y"]), not badb, "%s" % [(repr(e)[:80], w) for e, w in badb][:2], fq)
        zf = [f for f in Ff if f.in_idx is None]
        zb = [f for f in Fb if f.in_idx is None]
        Ff = [f for f in Ff if f.in_idx is not None]
        Fb = [f for f in Fb if f.in_idx is not None]
        ctx.holds("%s both routines have linear terms" % tag, bool(Ff) and bool(Fb), "%d / %d" % (len(Ff), len(Fb)), fq)
        if P.get("partition"):
            # grid points are distributed over blocks / threads: by the partition lemma (each position of [0, total) visited exactly once for every team
            # size — proved for these routines by the partition obligations below, the same as in C10) the families are indexed by the position itself
            from contracts.c10 import partition_cover
            tn, gn, tot = P["partition"]
            for s_, a_, who, arr, kind in ((sf, af, P["fwd"], P["y"], "w"), (sb, af, P["bwd"], P["y"], "r")):
                partition_cover(arr, kind, "loop", tot, "grid points by block")(ctx, who, s_, a_, hyps, fq)
            Ff2 = [adjoint.reparametrise(F, tn, gn, af[tot]) for F in Ff]
            Fb2 = [adjoint.reparametrise(F, tn, gn, af[tot]) for F in Fb]
            ok_rep = all(x is not None for x in Ff2 + Fb2)
            ctx.holds("%s indices and coefficients depend on (block, offset) only through the grid position" % tag, ok_rep, "", fq)
            if ok_rep:
                Ff, Fb = Ff2, Fb2
        # no other array that belongs to the pair's data is written
        for s, who, out in ((sf, P["fwd"], P["y"]), (sb, P["bwd"], P["x"])):
            others = sorted(set(e.arr.name for e in s.events if e.kind == "w" and e.arr.name != out and not e.arr.private and e.arr.origin == "param"))
            ctx.holds("%s writes its output array only" % who, not others, "also writes %s" % others, fq)
        assumes = dedupe_assumes(sf, sb)
        used = set()
        for fi, F in enumerate(Ff):
            found = None
            detail = []
            for bi, B in enumerate(Fb):
                if bi in used:
                    continue
                tf = [F.in_idx, F.out_idx, F.coef] + F.guards
                tb = [B.in_idx, B.out_idx, B.coef] + B.guards
                rel_f = relevant(oblig.side_hyps(sf), tf)
                rel_b = relevant(oblig.side_hyps(sb), tb)
                H = list(hyps) + rel_f + table_instances(P.get("tables", []), tf + tb + rel_f + rel_b)
                st, info = adjoint.match(F, B, H, 5.0 if ctx.tier == "quick" else 30.0, b_assumes=rel_b)
                if st == "matched":
                    found = bi
                    break
                detail.append((bi, st))
            name = "%s forward term #%d  %s[%s] <- c * %s[%s]  has its transposed term in the backward routine" % (tag, fi, P["y"], tm.show(F.out_idx, 40), P["x"], tm.show(F.in_idx, 40))
            if found is not None:
                used.add(found)
                ctx._rec("obligation", name, vc.Verdict("discharged", "nf+z3-lia"), fq)
            else:
                pass
                ctx.undecided(name, "no transposed partner found by variable renaming: %s" % detail[:4], fq)
        left = [b for bi, b in enumerate(Fb) if bi not in used]
        unmatched = [r for r in ctx.records if r["status"] == "undecided" and r["name"].startswith("%s/%s forward term" % (ctx.unit, tag))]
        if left or unmatched:
            # matching is incomplete by nature; a refutation needs a concrete instance on which the two matrices differ
            ints = sorted(set(u for F in Ff + Fb for t_ in [F.in_idx, F.out_idx, F.coef] + F.guards + [q_[i_] for q_ in F.qvars for i_ in (1, 2)]
                              for u in tm.free_vars(tm.lift(t_)) if u.args[1] == "I" and "#" not in u.args[0]) |
                          set(u for F in Ff + Fb for t_ in F.guards for u in tm.free_vars(t_) if u.args[0].startswith("nthreads")), key=lambda u: u.args[0])
            wit = adjoint.concrete_discrepancy(Ff, Fb, ints, getattr(sf, "niter_defs", {}), getattr(sb, "niter_defs", {}))
            if wit is not None:
                ctx._rec("obligation", "%s the backward operator is the transpose of the forward operator (concrete instance of the summaries)" % tag,
                         vc.Verdict("refuted", "triple enumeration on a concrete instance", "matrix entries differ", witness=wit), fq, replay_pair(P))
        else:
            ctx.holds("%s every backward term is the transpose of a forward term (no extra terms)" % tag, True, "", fq)
        # overwriting routines: the store that clears / overwrites the output is unconditional over the whole output range
        for s, who, fams, zs in ((sf, P["fwd"], Ff, zf), (sb, P["bwd"], Fb, zb)):
            eq_events = [e for e in s.events if e.kind == "w" and e.op == "=" and e.arr.name in (P["y"], P["x"])]
            for e in eq_events:
                rng = set()
                for q in e.qvars:
                    rng.add(tm.mk_le(q[1], q[0]).id)
                    rng.add(tm.mk_lt(q[0], q[2]).id)
                extra = [g for g in e.guards if g.id not in rng and not _is_range_guard(g, e.qvars)]
                rest = [g for g in e.guards if g not in extra]
                # a guard that follows from the loop ranges skips nothing (e.g. `nw != 0` when the store is inside a loop of nw iterations)
                extra = [g for g in extra if intarith.check_sat_int(list(hyps) + relevant(oblig.side_hyps(s), e.guards) + rest + [tm.mk_not(g)], 5.0)[0] != "unsat"]
                ctx.holds("%s overwrites %s[%s] unconditionally (no stale buffer content can survive)" % (who, e.arr.name, tm.show(e.idx, 40)), not extra,
                          "the overwriting store is skipped when %s fails" % [tm.show(g, 60) for g in extra], fq, replay=replay_pair(P))
        ctx.canary_valid("%s canary" % tag, list(hyps), tm.mk_eq(Ff[0].out_idx, Ff[0].out_idx + 1) if Ff else tm.FALSE)
    return run


def _is_range_guard(g, qvars):
    vs = set(q[0] for q in qvars)
    if g.op in ("<", "<="):
        a, b = g.args
        return a in vs or b in vs
    if g.op == "==":
        return any(u in vs for u in tm.free_vars(g))     # strided-loop auxiliary
    return False


def replay_pair(P):
    def replay(wit):
        return {"reproduced": None, "note": "adjointness replay needs the full struct set-up of the C routine; the failed obligation names the forward term without a transposed partner"}
    return replay


# ------------------------------------------------------------------ in-place l+1 steps
INPLACE = [
    ("add_lp1_term_fwd", "add_lp1_term_bwd", []),
    ("add_lp1_term_onsite_fwd", "add_lp1_term_onsite_bwd", ["ar_loc"]),
    ("add_lp1_onsite_new_fwd", "add_lp1_onsite_new_bwd", ["rad_loc"]),
]
_cols = lambda a: [c for k in ("ig", "ix", "iy", "iz") for c in (tm.mk_le(tm.ZERO, a[k]), tm.mk_lt(a[k], a["nf"]))] + \
    [tm.mk_not(tm.mk_eq(a[x], a[y])) for x, y in (("ig", "ix"), ("ig", "iy"), ("ig", "iz"), ("ix", "iy"), ("ix", "iz"), ("iy", "iz"))]


def row_matrix(s, args, hyps):
    """4x4 matrix of the in-place update of one row of f (columns ix, iy, iz, ig), read off the summary by replaying its writes in order."""
    cols = ["ix", "iy", "iz", "ig"]
    nfc = NF()
    ws = [e for e in s.events if e.kind == "w" and e.arr.name == "f"]
    if not ws:
        raise CUnsupported("no write to f")
    base = None
    state = {c: None for c in cols}       # None = initial content
    init = {c: tm.var("f0_" + c) for c in cols}
    rowbase = nfc.rf_to_term(nfc.nf(ws[0].idx - _col_of(ws[0].idx, args, cols, nfc)[1]))

    def cur(c):
        return init[c] if state[c] is None else state[c]

    def resolve(val):
        # reads of the row's columns in the value refer to the initial content (store forwarding already applied by the engine)
        m = {}
        for u in tm.subterms(tm.lift(val)).values():
            if u.op == "f" and u.args[0] == "rd:f":
                c, _ = _col_of(u.args[1], args, cols, nfc, rowbase)
                if c is None:
                    raise CUnsupported("read of f outside the row")
                m[u] = init[c]
        return tm.substitute(tm.lift(val), m)
    for e in ws:
        c, _ = _col_of(e.idx, args, cols, nfc, rowbase)
        if c is None:
            raise CUnsupported("write to f outside the four columns of the row: %s" % tm.show(e.idx, 60))
        v = resolve(e.val)
        if e.op == "=":
            state[c] = v
        elif e.op == "+=":
            state[c] = cur(c) + v
        elif e.op == "-=":
            state[c] = cur(c) - v
        else:
            raise CUnsupported("op %s" % e.op)
    M = np.empty((4, 4), dtype=object)
    for i, ci in enumerate(cols):
        for j, cj in enumerate(cols):
            M[i, j] = tm.diff(tm.lift(cur(ci)), init[cj])
    lin = all(not any(u in init.values() for u in tm.free_vars(tm.lift(M[i, j]))) for i in range(4) for j in range(4))
    return M, lin, ws[0].guards


def _col_of(idx, args, cols, nfc, rowbase=None):
    for c in cols:
        d = tm.lift(idx) - args[c]
        if rowbase is None:
            # the row base is idx - column for whichever column makes the rest free of column parameters
            r = nfc.rf_to_term(nfc.nf(d))
            if not any(u is args[k] for k in cols for u in tm.free_vars(r)):
                return c, args[c]
        else:
            try:
                if nfc.equal(d, rowbase):
                    return c, args[c]
            except NFError:
                pass
    return None, None


def unit_inplace(fwd, bwd, tables):
    def run(ctx):
        rel = "mod_cider/conv_interpolation.c"
        fq = ["lib/%s:%s" % (rel, fwd), "lib/%s:%s" % (rel, bwd)]
        tag = "%s/%s" % (fwd, bwd)
        try:
            sf, af, hf = summarise(rel, fwd, _cols)
            sb, ab, hb = summarise(rel, bwd, _cols, shared=af)
            Mf, linf, gf = row_matrix(sf, af, hf)
            Mb, linb, gb = row_matrix(sb, af, hf)
        except CUnsupported as e:
            ctx.undecided("%s summarised" % tag, "left the supported C subset: %s" % e, fq)
            return
        ctx.holds("%s both steps are linear maps of the row (x, y, z, g columns)" % tag, linf and linb, "", fq)
        # the displacement read by both routines: identify coords reads by canonical renaming of the loop variables (same loop structure)
        qf = [q[0] for q in [e for e in sf.events if e.kind == "w" and e.arr.name == "f"][0].qvars]
        qb = [q[0] for q in [e for e in sb.events if e.kind == "w" and e.arr.name == "f"][0].qvars]
        m = dict(zip(qb, qf)) if len(qf) == len(qb) else {}
        cols = ["ix", "iy", "iz", "ig"]
        for i in range(4):
            for j in range(4):
                ctx.equal("%s backward matrix[%s,%s] = forward matrix[%s,%s] (transpose)" % (tag, cols[i], cols[j], cols[j], cols[i]), hf, tm.substitute(tm.lift(Mb[i, j]), m), Mf[j, i], fq, replay=replay_inplace(fwd, bwd))
        ctx.canary("%s canary" % tag, hf, tm.substitute(tm.lift(Mb[3, 0]), m), tm.lift(Mf[0, 3]) + 1)
        ctx.holds("%s both steps visit the same rows (same loop guards)" % tag, len(gf) == len(gb), "%d vs %d guards" % (len(gf), len(gb)), fq)
    return run


def replay_inplace(fwd, bwd):
    def replay(wit):
        import ctypes
        from pyvc import native
        lib = ctypes.CDLL(native.build_libs() + "/libmcider.so")
        rng = np.random.RandomState(2)
        if fwd != "add_lp1_term_fwd":
            return {"reproduced": None, "note": "native replay implemented for add_lp1_term_fwd/bwd only"}
        n, nf = 5, 6
        ig, ix, iy, iz = 5, 1, 2, 3
        coords, ac = rng.rand(n, 3), rng.rand(3)

        def call(fn, f):
            f = np.ascontiguousarray(f.copy())
            getattr(lib, fn)(f.ctypes.data_as(ctypes.c_void_p), coords.ctypes.data_as(ctypes.c_void_p), ac.ctypes.data_as(ctypes.c_void_p), ctypes.c_int(n),
                             ctypes.c_int(ig), ctypes.c_int(ix), ctypes.c_int(iy), ctypes.c_int(iz), ctypes.c_int(nf))
            return f
        x, y = rng.rand(n, nf), rng.rand(n, nf)
        lhs = float(np.sum(call(fwd, x) * y))
        rhs = float(np.sum(x * call(bwd, y)))
        return {"reproduced": bool(abs(lhs - rhs) > 1e-10 * (1 + abs(lhs))), "<Ax,y>": lhs, "<x,By>": rhs}
    return replay


# ------------------------------------------------------------------ Python: plan contractions (engine P)
def unit_plan_adjoint(version, level):
    def run(ctx):
        from contracts.planharness import make_settings, make_plan
        from contracts.common import sym_array, all_paths, NS
        PMOD = "ciderpress.dft.plans"
        it = ctx.interp
        hyps = []
        st = make_settings(it, version, level, "one", hyps)
        RC = tm.var("rhocut")
        hyps.append(tm.mk_lt(tm.ZERO, RC))
        nalpha = 2
        plan = make_plan(it, st, 1, nalpha=nalpha, hyps=hyps, rhocut=RC)
        nvi = it.getattr(plan, "num_vi_ints")
        nrow = (0 if version == "i" else nalpha) + nvi
        nrho = 5 if level == "MGGA" else 4
        f = sym_array("f", (NS, nrow))
        r = sym_array("r", (nrho, NS))
        H = list(hyps) + [tm.mk_lt(RC, x) for x in r[0]] + ([tm.mk_le(tm.ZERO, x) for x in r[4]] if level == "MGGA" else [])
        it.hyps = list(H)
        fq = [PMOD + ":NLDFAuxiliaryPlan." + n for n in ("eval_rho_full", "eval_vxc_full", "eval_rho_vj_", "eval_vxc_vj_", "eval_rho_vi_", "eval_vxc_vi_")]
        tag = "plan[%s,%s]" % (version, level)
        ps = [p for p in all_paths(it, lambda: it.call_method(plan, "eval_rho_full", [f.copy(), r.copy()], {"spin": 0})) if p[0] == "return"]
        ctx.holds("%s eval_rho_full returns" % tag, len(ps) >= 1, "", fq)
        if not ps:
            return
        feat, dfeat = ps[0][1]
        pc = list(ps[0][2])
        nfeat = feat.shape[0]
        vfeat = sym_array("v", (nfeat, NS))
        vrho = sym_array("vr", (nrho, NS))
        pv = [p for p in all_paths(it, lambda: it.call_method(plan, "eval_vxc_full", [vfeat.copy(), vrho.copy(), np.array(dfeat, dtype=object).copy(), r.copy()], {"spin": 0})) if p[0] == "return"]
        ctx.holds("%s eval_vxc_full returns" % tag, len(pv) >= 1, "", fq)
        if not pv:
            return
        vf = np.asarray(pv[0][1], dtype=object)
        Hh = H + pc + list(pv[0][2])
        # <d feat/d f, vfeat> : the potential w.r.t. the interpolation coefficients is the transpose of the (linear in f) feature map
        ctx.holds("%s potential has one entry per interpolation coefficient (plus buffer slots)" % tag, vf.shape[0] == NS and vf.shape[1] >= nrow, str(vf.shape), fq)
        for g in range(NS):
            for q in range(nrow):
                want = tm.mk_add(*[tm.lift(vfeat[i, g2]) * tm.diff(tm.lift(feat[i, g2]), f[g, q]) for i in range(nfeat) for g2 in range(NS)])
                ctx.equal("%s vf[%d,%d] = sum_i vfeat_i * d feat_i / d f[%d,%d]  (transpose of the feature contraction)" % (tag, g, q, g, q), Hh, vf[g, q], want, fq)
        ctx.canary("%s canary" % tag, Hh, vf[0, 0], 2 * tm.lift(vf[0, 0]) + 1)
    return run


# ------------------------------------------------------------------ radial grid <-> atomic-orbital basis: same kernel on the same index pairs
def unit_rad_orb(ctx):
    """contract_rad_to_orb / contract_orb_to_rad loop over the (shell, radial point) pairs of an atom in two different orders (shells of the basis set
    outermost vs radial points outermost), so their iteration spaces coincide only through the consistency invariants of the C-built basis struct
    (bas[ish].atom = a  <=>  atom_loc_ao[a] <= ish < atom_loc_ao[a+1];  ar_loc[r] = a  <=>  ra_loc[a] <= r < ra_loc[a+1]) — assumed here.  Decided: for a
    pair (shell ish, radial point r, component m, control point q) both routines touch the transposed pair of elements with the same coefficient, and
    neither direction is restricted by a data-dependent condition the other one lacks (a screening test in one direction only breaks adjointness)."""
    rel = "mod_cider/convolutions.c"
    fwd, bwd = "contract_rad_to_orb", "contract_orb_to_rad"
    fq = ["lib/%s:%s" % (rel, fwd), "lib/%s:%s" % (rel, bwd)]
    req = lambda a: [tm.mk_le(tm.ZERO, a["offset"]), tm.mk_le(a["offset"] + a["nalpha"], a["stride"])]
    try:
        sf, af, hf = summarise(rel, fwd, req)
        sb, ab, hb = summarise(rel, bwd, req, shared=af)
    except CUnsupported as e:
        ctx.undecided("rad<->orb summarised", "left the supported C subset: %s" % e, fq)
        return
    ctx.assume("rad<->orb: iteration spaces of the two loop orders coincide under the struct invariants of atc_basis_set / AtomicGridsIndexer (atom_loc_ao vs bas[.].atom, ar_loc vs ra_loc; the latter proved in C19)")
    Ff, badf = adjoint.families(sf, "p_uq", "theta_rlmq")
    Fb, badb = adjoint.families(sb, "theta_rlmq", "p_uq")
    Ff = [f for f in Ff if f.in_idx is not None]
    Fb = [f for f in Fb if f.in_idx is not None]
    ctx.holds("rad<->orb: both routines are linear with one accumulation family each", not badf and not badb and len(Ff) == 1 and len(Fb) == 1, "%d / %d families, nonlinear: %s" % (len(Ff), len(Fb), (badf + badb)[:1]), fq)
    if len(Ff) != 1 or len(Fb) != 1:
        return
    F, B = Ff[0], Fb[0]

    def roles(fam):
        """loop variables by what they index: r in rads[.], ish in bas[8 ish + .], q innermost, m next"""
        out = {}
        allt = [tm.lift(fam.coef), tm.lift(fam.in_idx), tm.lift(fam.out_idx)]
        qv = [q[0] for q in fam.qvars]
        for t_ in allt:
            for u in tm.subterms(t_).values():
                if u.op == "f" and u.args[0] == "rd:rads" and u.args[1] in qv:
                    out["r"] = u.args[1]
                if u.op == "fi" and u.args[0] == "atco.bas":
                    for v in tm.free_vars(u.args[1]):
                        if v in qv:
                            out["ish"] = v
        rest = [v for v in qv if v not in out.values()]
        if len(rest) >= 2:
            out["m"], out["q"] = rest[-2], rest[-1]
        return out
    rf, rb = roles(F), roles(B)
    ok_roles = all(k in rf and k in rb for k in ("r", "ish", "m", "q"))
    ctx.holds("rad<->orb: loop structure recognised (shell, radial point, component, control point)", ok_roles, "%s / %s" % (sorted(rf), sorted(rb)), fq)
    if not ok_roles:
        return
    ren = {rb[k]: rf[k] for k in ("r", "ish", "m", "q")}
    sub = lambda t_: tm.substitute(tm.lift(t_), ren)
    H = list(hf) + dedupe_assumes(sf, sb)       # includes the definitions of the named iteration counts (niter = nalpha for nalpha >= 0)
    ctx.equal("rad<->orb: backward reads the element forward writes (p_uq index)", H, sub(B.in_idx), F.out_idx, fq)
    ctx.equal("rad<->orb: backward writes the element forward reads (theta_rlmq index)", H, sub(B.out_idx), F.in_idx, fq)
    ctx.equal("rad<->orb: same coefficient coef * r^l * exp(-beta r^2) in both directions", H, sub(B.coef), F.coef, fq, replay=replay_rad_orb())
    data = lambda fam: [g for g in fam.guards if any(u.op == "f" and u.args[0].startswith("rd:") for u in tm.subterms(tm.lift(g)).values())]
    df, db = data(F), [sub(g) for g in data(B)]
    same = len(df) == len(db) and all(any(x is y for y in db) for x in df)
    ctx.holds("rad<->orb: neither direction is restricted by a data-dependent condition the other lacks", same,
              "forward: %s; backward: %s" % ([tm.show(g, 60) for g in df], [tm.show(g, 60) for g in db]), fq, replay=replay_rad_orb())
    ctx.canary("rad<->orb canary", H, sub(B.coef), 2 * tm.lift(F.coef))


def replay_rad_orb():
    def replay(wit):
        return {"reproduced": None, "note": "needs a C-built atc_basis_set; see the seeded demonstration for a native run"}
    return replay


# ------------------------------------------------------------------ interpolation-coefficient transform of the Gaussian plan (all four call forms)
def unit_plan_transform(order):
    """NLDFGaussianPlan._get_transformed_interpolation_terms: forward = A^-1 N, backward = N A^-T (N = diag(alpha_norms)); the solve is the LAPACK contract
    (named solution with its defining system).  Obligations: the in-place and the out-of-place form compute the same thing for both directions, the
    out-of-place form leaves its argument alone, and backward is the transpose of forward."""
    def run(ctx):
        from contracts.planharness import make_settings, make_plan
        from contracts.c16 import LinAlg
        from contracts.common import sym_array, same_elements, NS
        from pyvc.interp import Unsupported, PyRaise
        PMOD = "ciderpress.dft.plans"
        it = ctx.interp
        hyps = []
        st = make_settings(it, "j", "GGA", "one", hyps)
        plan = make_plan(it, st, 1, nalpha=2, hyps=hyps, coef_order=order)
        fq = [PMOD + ":NLDFGaussianPlan._get_transformed_interpolation_terms"]
        A = sym_array("A", (2, 2))
        N = sym_array("N", (2,))
        plan.fields["_alpha_transform"] = A
        plan.fields["alpha_norms"] = N
        la = LinAlg([])
        it.overrides[PMOD + ":_stable_solve"] = lambda interp, f, args, kwargs: la.solve(np.array(args[0], dtype=object), np.array(args[1], dtype=object))
        ctx.assume("_stable_solve(M, B) is the LAPACK contract: the unique X with M X = B (named solution symbols with their defining system); _alpha_transform and alpha_norms arbitrary")
        G = NS
        shape = (G, 2) if order == "gq" else (2, G)

        def run_(x, fwd, inplace):
            arr = x.copy()
            out = it.call_method(plan, "_get_transformed_interpolation_terms", [arr], {"i": 0, "fwd": fwd, "inplace": inplace})
            return np.asarray(out, dtype=object), arr
        tag = "plan-transform[%s]" % order
        res = {}
        for fwd in (True, False):
            x = sym_array("pf" if fwd else "pb", shape)
            try:
                o_in, a_in = run_(x, fwd, True)
                o_out, a_out = run_(x, fwd, False)
            except (Unsupported, PyRaise) as e:
                ctx.undecided("%s fwd=%s runs" % (tag, fwd), str(e)[:200], fq)
                return
            H = la.definitions()
            ctx.holds("%s fwd=%s: the out-of-place form leaves its argument unchanged" % (tag, fwd), same_elements(a_out, x), "", fq)
            ctx.holds("%s fwd=%s: the in-place form returns (a view of) the array it was given" % (tag, fwd), same_elements(a_in, o_in), "", fq)
            for idx in itertools.product(*[range(k) for k in shape]):
                ctx.equal("%s fwd=%s: out-of-place result[%s] = in-place result" % (tag, fwd, ",".join(map(str, idx))), H, o_out[idx], o_in[idx], fq, replay=replay_plan_transform(order))
            res[fwd] = (x, o_in)
        H = la.definitions()
        (pf, Ff), (pb, Fb) = res[True], res[False]
        lhs = tm.mk_add(*[tm.lift(pb[idx]) * tm.lift(Ff[idx]) for idx in itertools.product(*[range(k) for k in shape])])
        rhs = tm.mk_add(*[tm.lift(Fb[idx]) * tm.lift(pf[idx]) for idx in itertools.product(*[range(k) for k in shape])])
        ctx.equal("%s: <q, forward(p)> = <backward(q), p>  (backward is the transpose of forward)" % tag, H, lhs, rhs, fq)
        ctx.canary("%s canary" % tag, H, lhs, 2 * rhs)
        del it.overrides[PMOD + ":_stable_solve"]
    return run


def replay_plan_transform(order):
    def replay(wit):
        from pyvc import native
        native.install_shim()
        from ciderpress.dft.settings import NLDFSettingsVJ
        from ciderpress.dft.plans import NLDFGaussianPlan
        st = NLDFSettingsVJ("GGA", [1.0, 0.03], "one", ["se"], [[2.0, 0.04]])
        plan = NLDFGaussianPlan(st, 1, 0.01, 1.8, 6, coef_order=order)
        rng = np.random.RandomState(0)
        x = rng.rand(5, 6) if order == "gq" else rng.rand(6, 5)
        out = {}
        for fwd in (True, False):
            a = plan._get_transformed_interpolation_terms(x.copy(), i=0, fwd=fwd, inplace=True)
            b = plan._get_transformed_interpolation_terms(x.copy(), i=0, fwd=fwd, inplace=False)
            out["max_abs_diff_fwd=%s" % fwd] = float(np.max(np.abs(np.asarray(a) - np.asarray(b))))
        out["reproduced"] = bool(max(out.values()) > 1e-10)
        return out
    return replay


def unit_registry(ctx):
    for what in ("contract_rad_to_orb / contract_orb_to_rad: iteration-space equality (only the local kernel / index / guard agreement is under contract, unit rad-orb)",
                 "compute_mol_convs_* / compute_pot_convs_*",
                 "LCAOInterpolator(Direct) Python chains: under contract only AROUND abstract collaborator matrices and for bounded array shapes (units interp-chain, spline-chain, direct-chain); "
                 "the gradient chain (_interpolate_nopar_atom_deriv, project_orb2grid_grad) is not",
                 "SDMXBasePlan.get_features / get_vxc (not a linear pair: the half-derivative contract of the quadratic features is C01 sdmx-plan/*)",
                 "contract_shl_to_alpha_l1 / _bwd (two different collapsed block loops: the bijection needs a div/mod re-indexing the matcher does not find)",
                 "project_conv_to_spline / project_spline_to_conv (loop nests related through the atom <-> shell tables of the C-built struct)"):
        ctx.assume("UNVERIFIED adjoint pair (not claimed): %s" % what)
    ctx.holds("pairs under contract", len(PAIRS) + len(INPLACE) >= 6, "", [])


def unit_rad2orb_wrapper(ctx):
    """ATCBasis.convert_rad2orb_ (the wrapper through which radial <-> orbital contractions are made with an offset into wider rows): frame and hand-over.
    The C routines ADD into their output window (C10 / rad-orb: they address columns [offset, offset + nalpha) of rows of length stride).  With zero_output the
    wrapper zeroes exactly that window first — every other column of p_uq (the blocks earlier calls with other offsets wrote) is left as it was; the input side
    is not written; stride = row length of p_uq and offset are handed to C unchanged."""
    from pyvc.interp import Obj, Unsupported, PyRaise
    from contracts.common import sym_array, all_paths, same_elements
    LM = "ciderpress.dft.lcao_convolutions"
    it = ctx.interp
    mod = it.load_module(LM)
    libc = mod.ns["libcider"]
    seen = []
    for fn in ("contract_rad_to_orb", "contract_orb_to_rad"):
        it.externals["%s.%s" % (libc.name, fn)] = (lambda name: (lambda interp, *a: seen.append((name,) + a)))(fn)
    it.externals["%s.get_atco_nao" % libc.name] = lambda interp, *a: 2
    it.externals["%s.get_atco_natm" % libc.name] = lambda interp, *a: 1
    fq = [LM + ":ATCBasis.convert_rad2orb_"]
    nrad, nlm, nalpha, stride, nao = 2, 4, 2, 5, 2
    atco = Obj(mod.ns["ATCBasis"])
    atco.fields["_atco"] = "atco-ptr"
    atco.fields["natm"] = 1
    for rad2orb in (True, False):
        for zero_output in (True, False):
            for offset in (None, 0, 1, 3):
                theta = sym_array("t", (nrad, nlm, nalpha))
                p_uq = sym_array("p", (nao, stride))
                t0, p0 = theta.copy(), p_uq.copy()
                loc = np.array([0, nrad], dtype=np.int32) if rad2orb else np.array([0] * nrad, dtype=np.int32)
                rads = sym_array("rad", (nrad,))
                del seen[:]
                tag = "convert_rad2orb_[rad2orb=%s, zero_output=%s, offset=%s]" % (rad2orb, zero_output, offset)
                try:
                    ps = all_paths(it, lambda: it.call_method(atco, "convert_rad2orb_", [theta, p_uq, loc, rads], {"rad2orb": rad2orb, "offset": offset, "zero_output": zero_output}))
                except (Unsupported, PyRaise) as e:
                    ctx.undecided("%s runs" % tag, str(e)[:200], fq)
                    continue
                ok_ret = len(ps) == 1 and ps[0][0] == "return" and len(seen) == 1
                ctx.holds("%s: accepted, one C call" % tag, ok_ret, "%s" % [(p_[0], str(p_[1])[:80]) for p_ in ps], fq)
                if not ok_ret:
                    continue
                off = offset or 0
                win = range(off, off + nalpha)
                if rad2orb:
                    okw = all((tm.lift(p_uq[u, c]) is tm.ZERO) if (zero_output and c in win) else (tm.lift(p_uq[u, c]) is tm.lift(p0[u, c])) for u in range(nao) for c in range(stride))
                    oki = same_elements(theta, t0)
                    what = "p_uq: the window [offset, offset + nalpha) is %s, every other column is unchanged; theta_rlmq is not written" % ("zeroed" if zero_output else "kept")
                else:
                    okw = all((tm.lift(x) is tm.ZERO) for x in theta.reshape(-1)) if zero_output else same_elements(theta, t0)
                    oki = same_elements(p_uq, p0)
                    what = "theta_rlmq is %s; p_uq is not written" % ("zeroed" if zero_output else "kept")
                ctx.holds("%s: %s" % (tag, what), okw and oki, "", fq, witness={"rad2orb": rad2orb, "zero_output": zero_output, "offset": offset}, replay=replay_rad2orb_wrapper())
                a = seen[0]
                ctx.holds("%s: C receives (nrad, nlm, nalpha, stride, offset) of the arrays" % tag,
                          a[0] == ("contract_rad_to_orb" if rad2orb else "contract_orb_to_rad") and [int(x) for x in (a[5], a[6], a[8], a[9], a[10])] == [nrad, nlm, nalpha, stride, off], str(a[5:]), fq)


def replay_rad2orb_wrapper():
    def replay(wit):
        from pyvc import native
        native.install_shim()
        import ciderpress.dft.lcao_convolutions as L
        rec = []

        class Spy(object):
            def __getattr__(self, name):
                if name == "get_atco_nao":
                    return lambda *a: 2
                if name == "get_atco_natm":
                    return lambda *a: 1
                return lambda *a: rec.append(name)
        real = L.libcider
        L.libcider = Spy()
        try:
            class A(L.ATCBasis):
                def __del__(self):          # no C object behind this instance
                    pass
            at = A.__new__(A)
            at._atco = None
            at.natm = 1
            p = np.arange(10, dtype=np.float64).reshape(2, 5) + 1
            p0 = p.copy()
            at.convert_rad2orb_(np.ones((2, 4, 2)), p, np.array([0, 2], dtype=np.int32), np.ones(2), rad2orb=True, offset=3, zero_output=True)
        finally:
            L.libcider = real
        outside = [c for c in range(5) if c not in (3, 4)]
        changed = float(np.max(np.abs(p[:, outside] - p0[:, outside])))
        return {"reproduced": bool(changed > 0), "columns_outside_the_window_changed_by": changed, "p_uq_after": p.tolist()}
    return replay


def unit_atc_adjoint(fn):
    """multiply_atc_integrals / multiply_atc_integrals_vk (the Gaussian convolution, versions i/j/ij and k): the routine called with fwd = 0 applies the
    transpose of what it applies with fwd = 1.  Both directions are summarised from the C source (fwd fixed, everything else symbolic); each is one
    accumulating store  out[O(t)] += ovlp[V(t)] * inp[I(t)]  over iteration tuples t = (output shell, input shell, inner indices).  Obligations, under
    the struct invariants of atc_basis_set (global_l_loc groups the shells of each atom by degree; assumed — the struct is built by C code not under
    contract):  the swap  (output shell <-> input shell, inner indices exchanged as the dgemm transposition requires)  maps every forward iteration to a
    backward iteration with  O_bwd = I_fwd,  I_bwd = O_fwd  and the SAME element of the integral table, and vice versa (bijection of iteration spaces)."""
    def run(ctx):
        from contracts import c10
        from pyvc import intarith
        rel = "mod_cider/convolutions.c"
        fq = ["lib/%s:%s" % (rel, fn)]
        summ = {}
        for fwd in (1, 0):
            try:
                summ[fwd] = c10.summarise(rel, fn, {"fwd": fwd})
            except CUnsupported as e:
                ctx.undecided("%s[fwd=%d] summarised" % (fn, fwd), str(e)[:200], fq)
                return
        ctx.assume("struct invariants of atc_basis_set P (ccl->atco_inp, ccl->atco_out), assumed: for every atom ia and degree l the shells x with "
                   "global_l_loc[ia][l] <= x < global_l_loc[ia][l+1] are exactly the shells with bas[x] = (ia, l), and they lie in [0, nbas)")

        def decompose(sy):
            ws = [e for e in sy.events if e.kind == "w" and e.arr.name == "out_vq"]
            if len(ws) != 1 or ws[0].op != "+=":
                return None
            e = ws[0]
            val = tm.lift(e.val)
            subs = list(tm.subterms(val).values())
            rin = [u for u in subs if u.op == "f" and u.args[0] == "rd:inp_uq"]
            rov = [u for u in subs if u.op == "f" and u.args[0] == "rd:ccl.ovlp_mats"]
            sums = [u for u in subs if u.op == "sum"]
            if len(rin) != 1 or len(rov) != 1 or len(sums) > 1:
                return None
            roles = {"jsh": e.par}
            inner = []
            for qv, lo, hi, st in e.qvars:
                if qv is e.par:
                    continue
                lo_ = tm.lift(lo)
                if lo_.op == "fi" and "global_l_loc" in str(lo_.args[0]):
                    roles["ish"] = qv
                    roles["ish_rng"] = (lo_, tm.lift(hi))
                else:
                    inner.append((qv, tm.lift(lo), tm.lift(hi)))
            for qv, lo, hi in inner:
                if any(u.op == "fi" and str(u.args[0]).endswith(".bas") for u in tm.subterms(hi).values()):
                    roles["m"] = (qv, lo, hi)
                else:
                    roles["q"] = (qv, lo, hi)
            if sums:
                roles["k"] = (sums[0].args[0], tm.lift(sums[0].args[1]), tm.lift(sums[0].args[2]))
            if not all(k_ in roles for k_ in ("jsh", "ish", "m", "q")):
                return None
            return dict(ev=e, O=tm.lift(e.idx), I=rin[0].args[1], V=rov[0].args[1], roles=roles, assumes=oblig.side_hyps(sy))
        d = {f: decompose(summ[f][0]) for f in (1, 0)}
        ctx.holds("%s: each direction is one accumulating store out += ovlp * inp over (output shell, input shell, inner indices)" % fn, d[1] is not None and d[0] is not None, "", fq)
        if d[1] is None or d[0] is None:
            return

        def canon_pl(t, sy):
            """ccl.pair_loc[ia][l] is an array of pointers: its element arrays are named after the index term; rewritten to PL(ia, l)."""
            m = {}
            names = {}
            for e in sy.events:
                pi = getattr(e.arr, "parent_index", None)
                if pi is not None:
                    names[e.arr.name] = pi
            for u in tm.subterms(t).values():
                if u.op == "fi" and u.args[0] in names:
                    m[u] = tm.mk_fn("PL", names[u.args[0]], u.args[1])
            return tm.substitute(t, m) if m else t

        def basis_terms(P):
            bas = lambda x, k: tm.mk_fi("ccl.atco_%s.bas" % P, 8 * tm.lift(x) + k) if k else tm.mk_fi("ccl.atco_%s.bas" % P, 8 * tm.lift(x))
            gl = lambda ia, l: tm.mk_fi("ccl.atco_%s.atc_convs.global_l_loc" % P, tm.mk_fi("ccl.atco_%s.atc_convs.global_l_loc@base" % P, ia) + l)
            nb = tm.var("ccl.atco_%s.nbas" % P, "I")
            return bas, gl, nb

        def inv_block(P, x, ia, l):
            bas, gl, nb = basis_terms(P)
            return tm.mk_implies(tm.mk_and(tm.mk_le(gl(ia, l), x), tm.mk_lt(x, gl(ia, l + 1))), tm.mk_and(tm.mk_eq(bas(x, 0), ia), tm.mk_eq(bas(x, 1), l), tm.mk_le(tm.ZERO, x), tm.mk_lt(x, nb)))

        def inv_shell(P, x):
            bas, gl, nb = basis_terms(P)
            ia, l = bas(x, 0), bas(x, 1)
            return tm.mk_implies(tm.mk_and(tm.mk_le(tm.ZERO, x), tm.mk_lt(x, nb)), tm.mk_and(tm.mk_le(gl(ia, l), x), tm.mk_lt(x, gl(ia, l + 1)), tm.mk_le(tm.ZERO, ia), tm.mk_le(tm.ZERO, l)))
        for src, dst in ((1, 0), (0, 1)):
            a, b = d[src], d[dst]
            ra, rb = a["roles"], b["roles"]
            m = {rb["jsh"]: ra["ish"], rb["ish"]: ra["jsh"], rb["m"][0]: ra["m"][0]}
            if "k" in ra and "k" in rb:
                m[rb["q"][0]] = ra["k"][0]
                m[rb["k"][0]] = ra["q"][0]
            elif "k" not in ra and "k" not in rb:
                m[rb["q"][0]] = ra["q"][0]
            else:
                ctx.undecided("%s inner index structure" % fn, "one direction has a contraction index, the other has not", fq)
                return
            sa, sb = summ[src][0], summ[dst][0]
            sub = lambda t: canon_pl(tm.substitute(canon_pl(tm.lift(t), sb), m), sa)
            # source iteration: ranges of its loops (and of the contraction index)
            ea = a["ev"]
            H = c10.nonneg_hyps(summ[src][1]) + [canon_pl(tm.lift(g), sa) for g in ea.guards] + [canon_pl(h, sa) for h in a["assumes"]] + [sub(h) for h in b["assumes"]]
            if "k" in ra:
                H += [tm.mk_le(ra["k"][1], ra["k"][0]), tm.mk_lt(ra["k"][0], ra["k"][2])]
            # which basis is the output one in the source direction: fwd=1 -> out = atco_out, inp = atco_inp
            Pout, Pinp = ("out", "inp") if src == 1 else ("inp", "out")
            bas_o, gl_o, nb_o = basis_terms(Pout)
            ia, l = bas_o(ra["jsh"], 0), bas_o(ra["jsh"], 1)
            H += [inv_block(Pinp, ra["ish"], ia, l), inv_shell(Pout, ra["jsh"]), inv_shell(Pinp, ra["ish"])]
            tag = "%s fwd=%d -> fwd=%d" % (fn, src, dst)
            goals = [("output element of the other direction = input element of this one", tm.mk_eq(sub(b["O"]), canon_pl(a["I"], sa))),
                     ("input element of the other direction = output element of this one", tm.mk_eq(sub(b["I"]), canon_pl(a["O"], sa))),
                     ("the same element of the integral table (ovlp_mats) is used", tm.mk_eq(sub(b["V"]), canon_pl(a["V"], sa)))]
            eb = b["ev"]
            for gi, g in enumerate(eb.guards):
                goals.append(("the swapped tuple lies in the other direction's iteration space (condition %d)" % gi, sub(g)))
            if "k" in rb:
                goals.append(("the swapped contraction index is in range", tm.mk_and(tm.mk_le(sub(rb["k"][1]), sub(rb["k"][0])), tm.mk_lt(sub(rb["k"][0]), sub(rb["k"][2])))))
            r_, env, be = smt.check_sat(H, ctx.timeout)
            ctx.holds("%s: the hypotheses (an iteration of this direction + struct invariants) are satisfiable (non-vacuity)" % tag, r_ == "sat", "solver says %s" % r_, fq)
            for label, goal in goals:
                r_, env, be = intarith.check_sat_int(H + [tm.mk_not(goal)], ctx.timeout)
                name = "%s: %s" % (tag, label)
                if r_ == "unsat":
                    ctx._rec("obligation", name, vc.Verdict("discharged", be), fq)
                elif r_ == "sat":
                    ctx._rec("obligation", name, vc.Verdict("refuted", be, "the two directions are not transposes of each other on this iteration", witness=env), fq, replay=replay_atc_adjoint(fn))
                else:
                    ctx.undecided(name, "solver: %s" % str(env)[:100], fq)
        # canary: a wrong row length in the table index must be refuted
        a, b = d[1], d[0]
        sa = summ[1][0]
        H = c10.nonneg_hyps(summ[1][1]) + [canon_pl(tm.lift(g), sa) for g in a["ev"].guards]
        ctx.canary_valid("%s canary (table index shifted by one)" % fn, H, tm.mk_eq(canon_pl(a["V"], sa), canon_pl(a["V"], sa) + 1))
    return run


def replay_atc_adjoint(fn):
    """Native: <A x, y> = <x, A^T y> for the real ConvolutionCollection(K) on a small heteronuclear molecule (needs PySCF)."""
    def replay(wit):
        from pyvc import native
        native.install_shim()
        from ciderpress.dft.lcao_convolutions import ATCBasis, ConvolutionCollection, ConvolutionCollectionK, get_gamma_lists_from_etb_list
        rng = np.random.RandomState(2)
        # two different even-tempered bases per atom: input and output sizes differ for every (atom, l)
        etb_in = [[(0, 5, 0.2, 2.2), (1, 3, 0.3, 2.2)], [(0, 3, 0.25, 2.2), (1, 2, 0.3, 2.2)]]
        etb_out = [[(0, 4, 0.2, 2.5), (1, 5, 0.3, 2.5)], [(0, 6, 0.25, 2.5), (1, 4, 0.3, 2.5)]]
        mk = lambda etb: ATCBasis(*get_gamma_lists_from_etb_list(etb))
        try:
            ai, ao = mk(etb_in), mk(etb_out)
        except Exception as e:
            return {"reproduced": None, "error": "ATCBasis construction: %s" % str(e)[:200]}
        alphas = 0.05 * 1.8 ** np.arange(4)
        norms = (np.pi / (2 * alphas)) ** -0.75
        if fn.endswith("_vk"):
            ccl = ConvolutionCollectionK(ai, ao, alphas, norms)
        else:
            ccl = ConvolutionCollection(ai, ao, alphas, norms, has_vj=True, ifeat_ids=[0])
        ccl.compute_integrals_()
        x = rng.rand(ai.nao, ccl.nalpha)
        y = rng.rand(ao.nao, ccl.nalpha if fn.endswith("_vk") else ccl.num_out)
        Ax = ccl.multiply_atc_integrals(x, output=np.zeros_like(y), fwd=True)
        ATy = ccl.multiply_atc_integrals(y, output=np.zeros_like(x), fwd=False)
        lhs, rhs = float(np.sum(Ax * y)), float(np.sum(x * ATy))
        return {"reproduced": bool(not np.isfinite(lhs - rhs) or abs(lhs - rhs) > 1e-9 * max(1.0, abs(lhs))), "<Ax,y>": lhs, "<x,A^T y>": rhs}
    return replay


# ------------------------------------------------------------------ Python chains of LCAOInterpolator(Direct) around abstract linear collaborators
def _arr_of(p_):
    from pyvc.npmodel import CPtr
    return p_.arr if isinstance(p_, CPtr) else p_


def _interp_externals(K, XYZlog):
    """compute_mol_convs_single_new adds K_a c_a to f_gq, compute_pot_convs_single_new overwrites c_a with K_a^T f_gq (one abstract matrix per atom, told apart by the token
    the overridden _eval_spline_bas_single hands over); add_lp1_term_fwd / _bwd: the in-place row operations of the C source."""
    log = XYZlog
    nrad, nlm = K[0].shape[1], K[0].shape[2]

    def atom_of(tokptr):
        return int(_arr_of(tokptr).reshape(-1)[0])

    def mol_convs(interp, f, c, gl, gp, loc, ordp, nalpha, nrad_, ngrids, nlm_, maxg):
        f, c, a = _arr_of(f), _arr_of(c), atom_of(gl)
        log.append(("fwd-kernel", a, int(ngrids)))
        for g in range(int(ngrids)):
            for q in range(int(nalpha)):
                f[g, q] = f[g, q] + tm.mk_add(*[K[a][g, r, l, p_] * c[r, l, p_, q] for r in range(nrad) for l in range(nlm) for p_ in range(4)])

    def pot_convs(interp, f, c, gl, gp, loc, ordp, nalpha, nrad_, ngrids, nlm_, maxg):
        f, c, a = _arr_of(f), _arr_of(c), atom_of(gl)
        log.append(("bwd-kernel", a, int(ngrids)))
        for r in range(nrad):
            for l in range(nlm):
                for p_ in range(4):
                    for q in range(int(nalpha)):
                        c[r, l, p_, q] = tm.mk_add(*[K[a][g, r, l, p_] * f[g, q] for g in range(int(ngrids))]) if int(ngrids) else tm.ZERO

    def lp1(fwd):
        def fn(interp, f, coords, ac, n, ig, ix, iy, iz, nf):
            f, coords, ac = _arr_of(f), _arr_of(coords), _arr_of(ac)
            log.append(("l1-fwd" if fwd else "l1-bwd", None, int(n)))
            for g in range(int(n)):
                dd = [coords[g, k] - ac[k] for k in range(3)]
                cols = [int(ix), int(iy), int(iz)]
                if fwd:
                    for k in range(3):
                        f[g, cols[k]] = f[g, cols[k]] + dd[k] * f[g, int(ig)]
                    f[g, int(ig)] = tm.ZERO
                else:
                    f[g, int(ig)] = tm.mk_add(*[dd[k] * f[g, cols[k]] for k in range(3)])
        return fn
    return {"compute_mol_convs_single_new": mol_convs, "compute_pot_convs_single_new": pot_convs, "add_lp1_term_fwd": lp1(True), "add_lp1_term_bwd": lp1(False)}


def _spline_externals(W, G, J, log):
    """project_conv_to_spline / project_spline_to_conv add W u / W^T s on the column window they are handed (one abstract matrix per (basis, spline table), the tables told
    apart by their last extent 7 / 9); fill_l1_coeff_fwd / _bwd add G_v u / G_v^T u1 (three abstract matrices)."""
    def proj(fwd):
        def fn(interp, fa, fu, w, atco, nalpha, nrad_, nlm_, orb_stride, spline_stride, off_s, off_o):
            fa, fu, w = _arr_of(fa), _arr_of(fu), _arr_of(w)
            key = (atco, "w0" if w.shape[-1] == 7 else "wm")
            M = W[key]
            log.append(("c2s" if fwd else "s2c", key, int(nalpha), int(off_s), int(off_o), int(orb_stride) == fu.shape[-1], int(spline_stride) == fa.shape[-1]))
            fs = fa.reshape(J, fa.shape[-1])
            for k in range(int(nalpha)):
                for j in range(J):
                    for u in range(M.shape[1]):
                        if fwd:
                            fs[j, int(off_s) + k] = fs[j, int(off_s) + k] + M[j, u] * fu[u, int(off_o) + k]
                        else:
                            fu[u, int(off_o) + k] = fu[u, int(off_o) + k] + M[j, u] * fs[j, int(off_s) + k]
        return fn

    def fill(fwd):
        def fn(interp, fu, f1, gaunt, nlm_, a0, a1, stride, offset, stride1, offset1):
            fu, f1 = _arr_of(fu), _arr_of(f1)
            log.append(("fill-fwd" if fwd else "fill-bwd", (a0, a1), int(offset), int(offset1), int(stride) == fu.shape[1], int(stride1) == f1.shape[1]))
            for v in range(3):
                for a in range(G[v].shape[0]):
                    for b in range(G[v].shape[1]):
                        if fwd:
                            f1[a, int(offset1) + v] = f1[a, int(offset1) + v] + G[v][a, b] * fu[b, int(offset)]
                        else:
                            fu[b, int(offset)] = fu[b, int(offset)] + G[v][a, b] * f1[a, int(offset1) + v]
        return fn
    return {"project_conv_to_spline": proj(True), "project_spline_to_conv": proj(False), "fill_l1_coeff_fwd": fill(True), "fill_l1_coeff_bwd": fill(False)}


def _onsite_externals(R, Y, D, nao_of, log):
    """contract_orb_to_rad adds R u to theta, contract_rad_to_orb adds R^T theta to the orbital columns (one abstract matrix per basis; ADDITIVE as in C10 / rad-orb);
    reduce_ylm_to_angc overwrites the grid columns with Y theta, reduce_angc_to_ylm overwrites theta with Y^T (grid columns) (dgemm with BETA = 0);
    add_lp1_onsite_new_fwd / _bwd: the in-place row operations of the C source with an abstract displacement D[g] = rads * dirs per grid point."""
    def rad_orb(to_orb):
        def fn(interp, th, p, loc, rads, nrad_, nlm_, atco, nalpha, stride, offset):
            th, p = _arr_of(th), _arr_of(p)
            M = R[atco]
            log.append(("rad2orb" if to_orb else "orb2rad", atco, int(nalpha), int(offset), int(stride) == p.shape[1], th.shape[-1] == int(nalpha)))
            for r in range(th.shape[0]):
                for lm in range(th.shape[1]):
                    for k in range(int(nalpha)):
                        for u in range(M.shape[2]):
                            if to_orb:
                                p[u, int(offset) + k] = p[u, int(offset) + k] + M[r, lm, u] * th[r, lm, k]
                            else:
                                th[r, lm, k] = th[r, lm, k] + M[r, lm, u] * p[u, int(offset) + k]
        return fn

    def reduce_(a2y):
        def fn(interp, th, ylm, gq, rad_loc, ylm_loc, nalpha, nrad_, ngrids, nlm_, stride, offset):
            th, gq = _arr_of(th), _arr_of(gq)
            log.append(("angc2ylm" if a2y else "ylm2angc", None, int(nalpha), int(offset), int(stride) == gq.shape[1], int(ngrids) == gq.shape[0]))
            if a2y:
                for r in range(th.shape[0]):
                    for lm in range(th.shape[1]):
                        for k in range(int(nalpha)):
                            th[r, lm, k] = tm.mk_add(*[Y[g, r, lm] * gq[g, int(offset) + k] for g in range(gq.shape[0])])
            else:
                for g in range(gq.shape[0]):
                    for k in range(int(nalpha)):
                        gq[g, int(offset) + k] = tm.mk_add(*[Y[g, r, lm] * th[r, lm, k] for r in range(th.shape[0]) for lm in range(th.shape[1])])
        return fn

    def lp1(fwd):
        def fn(interp, f, rads, rad_loc, nrad_, dirs, dir_loc, nf, ig, ix, iy, iz):
            f = _arr_of(f)
            log.append(("onsite-l1-fwd" if fwd else "onsite-l1-bwd", None, int(ig), int(ix), int(nf) == f.shape[1], True))
            cols = [int(ix), int(iy), int(iz)]
            for g in range(f.shape[0]):
                if fwd:
                    for k in range(3):
                        f[g, cols[k]] = f[g, cols[k]] + D[g, k] * f[g, int(ig)]
                    f[g, int(ig)] = tm.ZERO
                else:
                    f[g, int(ig)] = tm.mk_add(*[D[g, k] * f[g, cols[k]] for k in range(3)])
        return fn
    return {"contract_rad_to_orb": rad_orb(True), "contract_orb_to_rad": rad_orb(False), "reduce_angc_to_ylm": reduce_(True), "reduce_ylm_to_angc": reduce_(False),
            "add_lp1_onsite_new_fwd": lp1(True), "add_lp1_onsite_new_bwd": lp1(False), "get_atco_nao": lambda interp, ptr: nao_of[ptr], "get_atco_natm": lambda interp, ptr: 2}


INTERP_MOD = "ciderpress.dft.lcao_interpolation"


def _install(it, libnames, ext):
    for ln in libnames:
        for k_, v_ in ext.items():
            it.externals["%s.%s" % (ln, k_)] = v_


def _uninstall(it, libnames, ext):
    for ln in libnames:
        for k_ in ext:
            it.externals.pop("%s.%s" % (ln, k_), None)


def unit_interp_chain(onsite):
    """LCAOInterpolator.interpolate_fwd / interpolate_bwd (the Python chain around the spline kernels): the backward pass is the transpose of the forward pass.
    The real methods are executed (loop over atoms, order of the l=1 helper and the spline kernel, which buffers they hand over) with the four C routines replaced
    by their contracts (_interp_externals; the spline kernel pair is an assumed contract, the l=1 pair is inplace/add_lp1_term_fwd).
    Obligation:  sum_gq F(c)[g,q] w[g,q]  ==  sum_arlpq c[a,r,l,p,q] B(w)[a,r,l,p,q]  for symbolic c, w."""
    def run(ctx):
        from pyvc.interp import Obj, Unsupported, PyRaise, ClassV
        from contracts.common import sym_array
        LM = INTERP_MOD
        it = ctx.interp
        mod = it.load_module(LM)
        libs = [mod.ns["libcider"].name]
        natm, ng, nrad, nlm, n0, n1 = 2, 2, 1, 1, 1, 1
        nq = n0 + 4 * n1
        K = [sym_array("K%d" % a, (ng, nrad, nlm, 4)) for a in range(natm)]
        log = []
        ext = _interp_externals(K, log)
        _install(it, libs, ext)
        # the per-atom spline basis: a token carrying the atom index (the abstract K_a stands for what compute_spline_bas_separate + the index order produce)
        it.overrides[LM + ":LCAOInterpolator._eval_spline_bas_single"] = lambda interp, f, args, kwargs: (np.array([args[1]], dtype=object), np.array([args[1]], dtype=object))
        fq = [LM + ":LCAOInterpolator." + n for n in ("interpolate_fwd", "interpolate_bwd", "_interpolate_nopar_atom", "_call_l1_fill", "num_out")]
        ctx.assume("assumed contract: compute_mol_convs_single_new / compute_pot_convs_single_new act as K_a and K_a^T of one matrix per atom (built from the spline basis and the "
                   "radial index order); the in-place l=1 row operations are those of the C source (their transposition is inplace/add_lp1_term_fwd)")
        ctx.assume("bounded shape: natm = %d, %d grid points, one l=1 feature, one l=0 feature; the loops over atoms and l=1 features are executed, not summarised" % (natm, ng))
        try:
            mk = lambda name, **f: (lambda x: (x.fields.update(f), x)[1])(Obj(ClassV(name, [], mod)))
            o = Obj(mod.ns["LCAOInterpolator"])
            ga = np.array([0, 1, ng]) if onsite else np.array([0, 0, 0])
            o.fields.update({"_n0": n0, "_n1": n1, "all_coords": sym_array("xyz", (ng, 3)), "atom_coords": sym_array("R", (natm, 3)), "atco": mk("_ATCO", natm=natm), "is_num_ai_setup": True,
                             "onsite_direct": onsite, "_loc_ai": [np.array([0, ng]) for _ in range(natm)], "_ga_loc": ga, "_ind_ord_fwd": np.arange(ng), "_nrad": nrad, "nlm": nlm, "_maxg": ng})
            tag = "LCAOInterpolator[onsite_direct=%s]" % onsite
            c = sym_array("c", (natm, nrad, nlm, 4, nq))
            w = sym_array("w", (ng, nq))
            it.hyps = []
            del log[:]
            F = np.asarray(it.call_method(o, "interpolate_fwd", [c.copy()]), dtype=object)
            order_f = [x[0] for x in log]
            del log[:]
            B = np.asarray(it.call_method(o, "interpolate_bwd", [w.copy()]), dtype=object)
            order_b = [x[0] for x in log]
        except (Unsupported, PyRaise) as e:
            ctx.undecided("interpolator chain runs", str(e)[:300], fq)
            return
        finally:
            _uninstall(it, libs, ext)
            it.overrides.pop(LM + ":LCAOInterpolator._eval_spline_bas_single", None)
        ctx.holds("%s: forward and backward passes each call one spline kernel and one l=1 helper per atom" % tag,
                  sorted(order_f) == sorted(["fwd-kernel", "l1-fwd"] * natm) and sorted(order_b) == sorted(["bwd-kernel", "l1-bwd"] * natm), "%s / %s" % (order_f, order_b), fq)
        lhs = tm.mk_add(*[tm.lift(F[g, q]) * w[g, q] for g in range(ng) for q in range(nq)])
        rhs = tm.mk_add(*[tm.lift(B[idx]) * c[idx] for idx in np.ndindex(*c.shape)])
        ctx.equal("%s: <interpolate_fwd(c), w> = <c, interpolate_bwd(w)> for every c, w, spline matrix and geometry" % tag, [], lhs, rhs, fq, replay=replay_interp_chain(onsite))
        ig = nq - 1
        ctx.holds("%s: the forward result has an empty scratch column (ig) and does not depend on uninitialised memory" % tag,
                  all(tm.lift(F[g, ig]) is tm.ZERO for g in range(ng)) and not any(u.args[0].startswith("uninit!") for x in F.reshape(-1) for u in tm.free_vars(tm.lift(x))), "", fq)
        ctx.canary("%s canary (backward pass scaled by 2)" % tag, [], lhs, 2 * rhs)
    return run


def replay_interp_chain(onsite_):
    def replay(wit):
        """Native: the real _interpolate_nopar_atom / _call_l1_fill of an LCAOInterpolator (no constructor), real add_lp1_term_fwd/_bwd from the library built from the
        tree, the two spline kernels replaced by numpy K_a / K_a^T of random matrices (the assumed contract); reports the adjoint defect."""
        from pyvc import native
        native.install_shim()
        import ctypes
        import ciderpress.dft.lcao_interpolation as L
        rs = np.random.RandomState(11)
        natm, ng, nrad, nlm, n0, n1 = 2, 7, 2, 4, 2, 2
        nq = n0 + 4 * n1
        onsite = bool(onsite_)
        Ks = [rs.randn(ng, nrad * nlm * 4) for _ in range(natm)]
        real = L.libcider
        state = {"a": 0}

        def as_arr(p_, shape):
            return np.ctypeslib.as_array(ctypes.cast(p_, ctypes.POINTER(ctypes.c_double)), shape=shape)

        class Lib(object):
            def __getattr__(self, name):
                if name == "compute_mol_convs_single_new":
                    def f(fp, cp, gl, gp, loc, ordp, nalpha, nrad_, ngrids, nlm_, maxg):
                        a = state["a"]
                        F_, C_ = as_arr(fp, (ng, nq)), as_arr(cp, (nrad * nlm * 4, nq))
                        F_[:ngrids.value] += Ks[a][:ngrids.value] @ C_
                    return f
                if name == "compute_pot_convs_single_new":
                    def f(fp, cp, gl, gp, loc, ordp, nalpha, nrad_, ngrids, nlm_, maxg):
                        a = state["a"]
                        F_, C_ = as_arr(fp, (ng, nq)), as_arr(cp, (nrad * nlm * 4, nq))
                        C_[:] = Ks[a][:ngrids.value].T @ F_[:ngrids.value]
                    return f
                return getattr(real, name)

        class I(L.LCAOInterpolator):
            def __init__(self):
                pass

            def _eval_spline_bas_single(self, a):
                state["a"] = a
                return np.zeros(1), np.zeros(1)

        class A(object):
            pass
        o = I()
        o._n0, o._n1, o.is_num_ai_setup, o.onsite_direct = n0, n1, True, onsite
        o.all_coords = np.ascontiguousarray(rs.randn(ng, 3))
        o.atom_coords = np.ascontiguousarray(rs.randn(natm, 3))
        o.atco = A()
        o.atco.natm = natm
        o._loc_ai = [np.zeros(2, dtype=np.int32)] * natm
        o._ga_loc = np.array([0, 3, ng]) if onsite else np.zeros(natm + 1, dtype=int)
        o._ind_ord_fwd = np.arange(ng, dtype=np.int32)
        o._nrad, o.nlm, o._maxg = nrad, nlm, ng
        L.libcider = Lib()
        try:
            c = rs.randn(natm, nrad, nlm, 4, nq)
            w = rs.randn(ng, nq)
            F_ = o.interpolate_fwd(c.copy())
            B_ = o.interpolate_bwd(w.copy())
        finally:
            L.libcider = real
        lhs, rhs = float((F_ * w).sum()), float((B_ * c).sum())
        return {"reproduced": bool(abs(lhs - rhs) > 1e-9 * max(1.0, abs(lhs))), "<F(c),w>": lhs, "<c,B(w)>": rhs, "onsite_direct": onsite}
    return replay


def unit_spline_chain(n0, n1):
    """LCAOInterpolator.conv2spline / spline2conv (orbital basis <-> spline coefficients, with the l=1 coefficient fill): the backward chain is the transpose of the
    forward chain.  The real methods run (column offsets, strides, the temporary f1_uq, order of the fill) around the contracts of _spline_externals."""
    def run(ctx):
        from pyvc.interp import Obj, Unsupported, PyRaise, ClassV
        from contracts.common import sym_array
        LM = INTERP_MOD
        it = ctx.interp
        mod = it.load_module(LM)
        libs = [mod.ns["libcider"].name]
        natm, nrad, nlm, nao0, nao1 = 1, 1, 1, 2, 3
        nin, nout = n0 + 2 * n1, n0 + 4 * n1
        J = natm * nrad * nlm * 4
        W = {("atco0", "w0"): sym_array("W0", (J, nao0)), ("atco1", "wm"): sym_array("Wm", (J, nao1))}
        G = [sym_array("G%d" % v, (nao1, nao0)) for v in range(3)]
        log = []
        ext = _spline_externals(W, G, J, log)
        _install(it, libs, ext)
        fq = [LM + ":LCAOInterpolator." + n for n in ("conv2spline", "spline2conv", "_orb2spline_", "_fill_l1_coeff_", "num_in", "num_out")]
        tag = "LCAOInterpolator[n0=%d,n1=%d]" % (n0, n1)
        ctx.assume("assumed contracts: project_conv_to_spline / project_spline_to_conv add W u / W^T s on the column window (offset, nalpha) of rows of the given strides; "
                   "fill_l1_coeff_fwd / _bwd add G_v u / G_v^T u1 (pair/fill_l1_coeff_fwd, registry: spline projection pair UNVERIFIED at C level)")
        ctx.assume("bounded shape: one atom, one radial knot, nlm = 1, %d / %d orbitals in the two bases; n0 = %d, n1 = %d" % (nao0, nao1, n0, n1))
        try:
            mk = lambda name, **f: (lambda x: (x.fields.update(f), x)[1])(Obj(ClassV(name, [], mod)))
            o = Obj(mod.ns["LCAOInterpolator"])
            o.fields.update({"_n0": n0, "_n1": n1, "atco": mk("_ATCO", natm=natm, nao=nao0, atco_c_ptr="atco0"), "l1atco": mk("_ATCO1", natm=natm, nao=nao1, atco_c_ptr="atco1"),
                             "_nrad": nrad, "nlm": nlm, "w0_rsp": sym_array("w0", (nrad, 7)), "wm_rsp": sym_array("wm", (nrad, 9)), "_gaunt_coeff": sym_array("gc", (5, nlm))})
            u = sym_array("u", (nao0, nin))
            sp = sym_array("s", (natm, nrad, nlm, 4, nout))
            it.hyps = []
            del log[:]
            u_in = u.copy()
            F = np.asarray(it.call_method(o, "conv2spline", [u_in]), dtype=object)
            lf = list(log)
            del log[:]
            s_in = sp.copy()
            B = np.asarray(it.call_method(o, "spline2conv", [s_in]), dtype=object)
            lb = list(log)
        except (Unsupported, PyRaise) as e:
            ctx.undecided("spline chain runs", str(e)[:300], fq)
            return
        finally:
            _uninstall(it, libs, ext)
        ctx.holds("%s: every C call receives the row lengths of the arrays it is handed" % tag, all(all(x[-2:]) for x in lf + lb), "%s" % [x for x in lf + lb if not all(x[-2:])][:2], fq)
        ctx.holds("%s: conv2spline does not write its input, spline2conv does not write its input" % tag,
                  all(tm.lift(a) is tm.lift(b) for a, b in zip(u_in.reshape(-1), u.reshape(-1))) and all(tm.lift(a) is tm.lift(b) for a, b in zip(s_in.reshape(-1), sp.reshape(-1))), "", fq)
        lhs = tm.mk_add(*[tm.lift(F[idx]) * sp[idx] for idx in np.ndindex(*sp.shape)])
        rhs = tm.mk_add(*[tm.lift(B[idx]) * u[idx] for idx in np.ndindex(*u.shape)])
        ctx.equal("%s: <conv2spline(u), s> = <u, spline2conv(s)> for every u, s and every projection / fill matrix" % tag, [], lhs, rhs, fq)
        ctx.canary("%s canary (backward chain scaled by 2)" % tag, [], lhs, 2 * rhs)
    return run


def unit_direct_chain(n0, n1, onsite):
    """LCAOInterpolatorDirect.project_orb2grid / project_grid2orb — the projections LCAONLDFGenerator calls between the convolutions and the grid: the whole Python chain
    (onsite radial path with its temporaries and index map, l=1 onsite step, orbital -> spline conversion with the l=1 fill, spline interpolation with the l=1 step per atom,
    padding rows) is executed on symbolic arrays around the contracts of the C routines (_onsite_externals, _spline_externals, _interp_externals).
    Obligation:  <project_orb2grid(u), w> = <u, project_grid2orb(w)>  for symbolic u, w and every collaborator matrix."""
    def run(ctx):
        from pyvc.interp import Obj, Unsupported, PyRaise, ClassV
        from contracts.common import sym_array
        LM, CM, GM = INTERP_MOD, "ciderpress.dft.lcao_convolutions", "ciderpress.dft.grids_indexer"
        it = ctx.interp
        mod, cmod, gmod = it.load_module(LM), it.load_module(CM), it.load_module(GM)
        libs = sorted({m.ns["libcider"].name for m in (mod, cmod, gmod)})
        natm, ng, nrad, nlm, nao0, nao1 = 2, 2, 1, 1, 2, 3
        nrg, nlmg, pad = 2, 1, 1
        nin, nout = n0 + 2 * n1, n0 + 4 * n1
        J = natm * nrad * nlm * 4
        K = [sym_array("K%d" % a, (ng, nrad, nlm, 4)) for a in range(natm)]
        W = {("atco0", "w0"): sym_array("W0", (J, nao0)), ("atco1", "wm"): sym_array("Wm", (J, nao1))}
        G = [sym_array("G%d" % v, (nao1, nao0)) for v in range(3)]
        R = {"atco0": sym_array("R0", (nrg, nlmg, nao0)), "atco1": sym_array("R1", (nrg, nlmg, nao1))}
        Y = sym_array("Y", (ng, nrg, nlmg))
        D = sym_array("D", (ng, 3))
        log = []
        ext = {}
        ext.update(_interp_externals(K, log))
        ext.update(_spline_externals(W, G, J, log))
        ext.update(_onsite_externals(R, Y, D, {"atco0": nao0, "atco1": nao1}, log))
        _install(it, libs, ext)
        it.overrides[LM + ":LCAOInterpolator._eval_spline_bas_single"] = lambda interp, f, args, kwargs: (np.array([args[1]], dtype=object), np.array([args[1]], dtype=object))
        fq = [LM + ":LCAOInterpolatorDirect." + n for n in ("project_orb2grid", "project_grid2orb", "_run_onsite_orb2grid", "_run_onsite_lp1")] + \
             [LM + ":LCAOInterpolator." + n for n in ("conv2spline", "spline2conv", "interpolate_fwd", "interpolate_bwd", "_interpolate_nopar_atom", "_call_l1_fill")] + \
             [CM + ":ATCBasis.convert_rad2orb_", GM + ":AtomicGridsIndexer.reduce_angc_ylm_", GM + ":AtomicGridsIndexer.empty_rlmq"]
        tag = "LCAOInterpolatorDirect[n0=%d,n1=%d,onsite_direct=%s]" % (n0, n1, onsite)
        ctx.assume("assumed contracts of the C collaborators: one abstract matrix per routine pair (forward = M, backward = M^T; accumulate / overwrite as in the C sources); "
                   "the C-level transpositions are pair/*, inplace/* and rad-orb of this property, the spline kernel and spline projection pairs are UNVERIFIED at C level")
        ctx.assume("bounded shape: %d atoms, %d grid points (+%d padding row), %d radial shells on the atomic grids, n0 = %d, n1 = %d; loops are executed, not summarised" % (natm, ng, pad, nrg, n0, n1))
        try:
            gi = Obj(gmod.ns["AtomicGridsIndexer"])
            gi.fields.update({"nrad": nrg, "nlm": nlmg, "all_weights": sym_array("wt", (ng,)), "ylm": sym_array("ylm", (2, nlmg)), "rad_loc": np.array([0, 1, ng], dtype=np.int32),
                              "ylm_loc": np.array([0, 1], dtype=np.int32), "rad_arr": sym_array("rad", (nrg,)), "ra_loc": np.array([0, 1, nrg], dtype=np.int32),
                              "ar_loc": np.array([0, 1], dtype=np.int32), "idx_map": np.array([1, 0]), "padding": pad, "iatom_list": np.array([0, 1], dtype=np.int32),
                              "dirs": sym_array("dirs", (2, 3))})
            mka = lambda ptr: (lambda x: (x.fields.update({"_atco": ptr, "natm": natm}), x)[1])(Obj(cmod.ns["ATCBasis"]))
            o = Obj(mod.ns["LCAOInterpolatorDirect"])
            o.fields.update({"_n0": n0, "_n1": n1, "all_coords": sym_array("xyz", (ng, 3)), "atom_coords": sym_array("Ra", (natm, 3)), "atco": mka("atco0"), "l1atco": mka("atco1"),
                             "is_num_ai_setup": True, "onsite_direct": onsite, "_loc_ai": [np.array([0, ng]) for _ in range(natm)], "_ga_loc": np.array([0, 1, ng]) if onsite else np.array([0, 0, 0]),
                             "_ind_ord_fwd": np.arange(ng), "_nrad": nrad, "nlm": nlm, "_maxg": ng, "grids_indexer": gi,
                             "w0_rsp": sym_array("w0", (nrad, 7)), "wm_rsp": sym_array("wm", (nrad, 9)), "_gaunt_coeff": sym_array("gc", (5, nlm))})
            u = sym_array("u", (nao0, nin))
            w = sym_array("w", (ng + pad, nout))
            it.hyps = []
            del log[:]
            u_in = u.copy()
            F = np.asarray(it.call_method(o, "project_orb2grid", [u_in]), dtype=object)
            lf = list(log)
            del log[:]
            w_in = w.copy()
            B = np.asarray(it.call_method(o, "project_grid2orb", [w_in]), dtype=object)
            lb = list(log)
        except (Unsupported, PyRaise) as e:
            ctx.undecided("%s chain runs" % tag, str(e)[:300], fq)
            return
        finally:
            _uninstall(it, libs, ext)
            it.overrides.pop(LM + ":LCAOInterpolator._eval_spline_bas_single", None)
        ctx.holds("%s: the two projections run and return arrays of the grid / orbital shapes" % tag, F.shape == (ng + pad, nout) and B.shape == (nao0, nin), "%s %s" % (F.shape, B.shape), fq)
        bad = [x for x in lf + lb if x[0] in ("c2s", "s2c", "fill-fwd", "fill-bwd", "rad2orb", "orb2rad", "angc2ylm", "ylm2angc", "onsite-l1-fwd", "onsite-l1-bwd") and not all(x[-2:])]
        ctx.holds("%s: every C call receives the row lengths / extents of the arrays it is handed" % tag, not bad, "%s" % bad[:2], fq)
        ctx.holds("%s: project_orb2grid does not write its input; neither projection depends on uninitialised memory" % tag,
                  all(tm.lift(a) is tm.lift(b) for a, b in zip(u_in.reshape(-1), u.reshape(-1)))
                  and not any(v_.args[0].startswith("uninit!") for x in list(F.reshape(-1)) + list(B.reshape(-1)) for v_ in tm.free_vars(tm.lift(x))), "", fq)
        lhs = tm.mk_add(*[tm.lift(F[idx]) * w[idx] for idx in np.ndindex(*w.shape)])
        rhs = tm.mk_add(*[tm.lift(B[idx]) * u[idx] for idx in np.ndindex(*u.shape)])
        ctx.equal("%s: <project_orb2grid(u), w> = <u, project_grid2orb(w)> for every u, w and every collaborator matrix" % tag, [], lhs, rhs, fq)
        ctx.canary("%s canary (backward projection scaled by 2)" % tag, [], lhs, 2 * rhs)
    return run


def units():
    u = [("registry", unit_registry)]
    for fn in ("multiply_atc_integrals", "multiply_atc_integrals_vk"):
        u.append(("atc-adjoint/" + fn, unit_atc_adjoint(fn)))
    u.append(("rad2orb-wrapper", unit_rad2orb_wrapper))
    for onsite in (False, True):
        u.append(("interp-chain/onsite_%s" % onsite, unit_interp_chain(onsite)))
    for n0, n1 in ((1, 1), (2, 0), (0, 2)):
        u.append(("spline-chain/n0_%d_n1_%d" % (n0, n1), unit_spline_chain(n0, n1)))
    for n0, n1, onsite in ((1, 1, True), (1, 1, False), (1, 0, True)):
        u.append(("direct-chain/n0_%d_n1_%d_onsite_%s" % (n0, n1, onsite), unit_direct_chain(n0, n1, onsite)))
    for P in PAIRS:
        u.append(("pair/%s" % P["fwd"], unit_pair(P)))
    for fwd, bwd, tabs in INPLACE:
        u.append(("inplace/%s" % fwd, unit_inplace(fwd, bwd, tabs)))
    for version, level in (("j", "MGGA"), ("i", "GGA"), ("ij", "MGGA"), ("k", "MGGA")):
        u.append(("plan/%s/%s" % (version, level), unit_plan_adjoint(version, level)))
    for order in ("gq", "qg"):
        u.append(("plan-transform/" + order, unit_plan_transform(order)))
    u.append(("rad-orb", unit_rad_orb))
    return u


EXPLANATION = (
    "Forward and backward routines are summarised from the real C source in value mode; each is decomposed into families of "
    "(input index, output index, coefficient) triples and the backward routine's families are matched one-to-one with the transposed families of "
    "the forward routine (bijection of iteration variables, guard equivalence, index equalities in linear integer arithmetic with product lemmas, "
    "coefficient equality by normal form).  Overwriting stores must be unconditional.  In-place l+1 steps are compared through their 4x4 row "
    "matrices.  The Python feature contractions are proved to be transposes through the reverse D-spec.  For all sizes, offsets and strides the "
    "wrappers accept; thread-count independence of these routines is C10.")
TRUSTED = [
    "A5 C: int mathematical in index arithmetic, double real, distinct pointer parameters do not alias; dgemm_ by its reference-BLAS contract",
    "location tables (rad_loc, rf_loc, ao_loc, atom_loc_ao) monotone; struct invariants of atc_basis_set assumed",
    "pairs listed as UNVERIFIED in the evidence are not claimed (rad<->orb contraction iteration spaces, spline kernels, interpolation transform, spline projection pair)",
    "bounded: the LCAOInterpolator(Direct) Python chains are executed for fixed small array shapes (2 atoms, 2 grid points, n0, n1 <= 2) with every matrix entry symbolic; their C collaborators enter by assumed linear contracts (M / M^T)",
]

if __name__ == "__main__":
    sys.exit(run_property("C05", "other", units(), EXPLANATION, TRUSTED, min_obligations=40))
