"""C08 — vanishing or extreme densities never give non-finite or spurious contributions (real-arithmetic part).

Contracts:
 (a) exact zeroing
   settings:get_cider_exponent(_gga)   rho < rhocut  =>  (dadrho, dadsigma, dadtau) = 0  and  a = a(rhocut, 0, 0)
   settings:get_s2, ds2, get_alpha, dalpha   rho < ALPHA_TOL  =>  every output 0
   MappedDFTKernel.__call__ (3 modes, nspin 1/2)   density below rhocut at g  =>  res[g] = 0 and dres[.., g] = 0  (after the baselines)
   MappedDFTKernel2.__call__                        =>  ML part of f[g] = 0, dfdX0T[.., g] = 0, no ML contribution to vrho_tuple[.., g]
   FeatNormalizerList.get_derivative_wrt_unnormed_features   zero model derivative  =>  zero raw derivative (all X0T, also below the cutoff)
 (b) partial-operation safety: for rho >= 0, sigma >= 0, tau >= 0 (and parameters in their documented ranges) every division has a
     non-zero denominator and every sqrt / log / non-integer or negative power has its argument in domain, on every path of:
     get_cider_exponent(_gga), get_s2, ds2, get_alpha, dalpha, dtauw, get_single_orbital_tau, the four semilocal feature fills and their
     reverse passes (nspin 1, 2), _get_rho_and_inh and the normalisers' forward/backward routines, the feature maps on x >= 0.
     The 1e-16 regularisers are kept exact here.
 (c) C routines applied at the cutoffs (engine C, value mode): smooth_cider_exponents, cider_ind_etb / _zexp, cider_coefs_vk1_*: every division the routine
     executes has a non-zero divisor for every admissible input (exponent anywhere in [0, inf) including exactly at the saturation point amax).
"""
import os
import sys
import warnings

sys.path.insert(0, os.path.dirname(os.path.dirname(os.path.abspath(__file__))))
warnings.filterwarnings("ignore")

import numpy as np
from fractions import Fraction as Q

from pyvc import terms as tm
from pyvc import vc, smt
from pyvc import interp as IN
from pyvc.framework import run_property
from pyvc.interp import Obj, ExcV, Builtin
from contracts.common import *
from contracts.evalharness import *
from contracts import c04

SMOD = "ciderpress.dft.settings"
PMOD = "ciderpress.dft.plans"
NMOD = "ciderpress.dft.feat_normalizer"
TMOD = "ciderpress.dft.transform_data"
XMOD = c04.XMOD
X2MOD = c04.X2MOD
TOL = tm.const(Q(1, 10 ** 10))


def is_zero(ctx, name, hyps, t, fq, replay=None):
    return ctx.equal(name, hyps, vc.simplify_ite(hyps, t), tm.ZERO, fq, replay=replay)


# ------------------------------------------------------------------------------- (a) zeroing
def unit_zero_exponent(gga, nspin):
    def run(ctx):
        it = ctx.interp
        m = it.load_module(SMOD)
        name = "get_cider_exponent_gga" if gga else "get_cider_exponent"
        rho, sigma, tau = sym_array("rho", (NS,)), sym_array("sigma", (NS,)), sym_array("tau", (NS,))
        A, G, Tm, RC = tm.var("a0"), tm.var("grad_mul"), tm.var("tau_mul"), tm.var("rhocut")
        fq = ["%s:%s" % (SMOD, name)]
        for gz in (True, False):
            hyps = [tm.mk_lt(tm.ZERO, RC), tm.mk_lt(tm.ZERO, A), tm.mk_le(tm.ZERO, Tm)] + ([] if gz else [tm.mk_lt(tm.ZERO, G)])
            # sample 0 below the cutoff (also negative / zero), sample 1 free: the mask must act per sample
            hyps += [tm.mk_lt(rho[0], RC)]
            it.hyps = list(hyps)
            g = 0 if gz else G

            def call():
                if gga:
                    return it.call(m.ns[name], [rho.copy(), sigma.copy()], {"a0": A, "grad_mul": g, "rhocut": RC, "nspin": nspin})
                return it.call(m.ns[name], [rho.copy(), sigma.copy(), tau.copy()], {"a0": A, "grad_mul": g, "tau_mul": Tm, "rhocut": RC, "nspin": nspin})
            for pi_, (o, v, pc, _) in enumerate(all_paths(it, call)):
                if o != "return":
                    continue
                H = hyps + pc
                for k, lab in enumerate(["dadrho", "dadsigma", "dadtau"][:len(v) - 1]):
                    is_zero(ctx, "%s[%s] = 0 below rhocut#%d" % (lab, "grad0" if gz else "grad+", pi_), H, v[k + 1][0], fq, replay=replay_zero_exponent(gga, nspin, gz))
                # value frozen at a(rhocut, 0, 0)
                if gga:
                    ref = it.call(m.ns[name], [np.array([RC, RC], dtype=object), np.array([0, 0], dtype=object)], {"a0": A, "grad_mul": g, "rhocut": RC, "nspin": nspin})
                else:
                    ref = it.call(m.ns[name], [np.array([RC, RC], dtype=object), np.array([0, 0], dtype=object), np.array([0, 0], dtype=object)],
                                  {"a0": A, "grad_mul": g, "tau_mul": Tm, "rhocut": RC, "nspin": nspin})
                ctx.equal("a = a(rhocut,0,0) below rhocut[%s]#%d" % ("grad0" if gz else "grad+", pi_), H, vc.simplify_ite(H, v[0][0]), vc.simplify_ite(H, ref[0][0]), fq)
                ctx.canary("canary[%s]#%d" % ("grad0" if gz else "grad+", pi_), H + [tm.mk_lt(RC, rho[1])], vc.simplify_ite(H + [tm.mk_lt(RC, rho[1])], v[1][1]), tm.ZERO)
    return run


def replay_zero_exponent(gga, nspin, gz):
    def replay(wit):
        import ciderpress.dft.settings as S
        e = env_floats(wit or {})
        rc = e.get("rhocut", 1e-3)
        rho = np.array([min(e.get("rho_0", rc / 2), rc * 0.999), 1.0])
        kw = dict(a0=e.get("a0", 1.0), grad_mul=0.0 if gz else e.get("grad_mul", 0.2), rhocut=rc, nspin=nspin)
        if gga:
            out = S.get_cider_exponent_gga(rho.copy(), np.array([0.3, 0.3]), **kw)
        else:
            out = S.get_cider_exponent(rho.copy(), np.array([0.3, 0.3]), np.array([0.2, 0.2]), tau_mul=e.get("tau_mul", 0.03), **kw)
        return {"reproduced": bool(any(o[0] != 0 for o in out[1:])), "outputs_at_sub_cutoff_point": [float(o[0]) for o in out]}
    return replay


def unit_zero_s2_alpha(ctx):
    it = ctx.interp
    m = it.load_module(SMOD)
    rho, sigma, tau = sym_array("rho", (NS,)), sym_array("sigma", (NS,)), sym_array("tau", (NS,))
    hyps = [tm.mk_lt(rho[0], TOL), tm.mk_le(tm.ZERO, rho[0]), tm.mk_le(tm.ZERO, sigma[0]), tm.mk_le(tm.ZERO, tau[0]),
            tm.mk_le(tm.ZERO, rho[1]), tm.mk_le(tm.ZERO, sigma[1]), tm.mk_le(tm.ZERO, tau[1])]
    it.hyps = list(hyps)
    for name, nargs in (("get_s2", 2), ("ds2", 2), ("get_alpha", 3), ("dalpha", 3)):
        args = [rho, sigma, tau][:nargs]
        for pi_, (o, v, pc, _) in enumerate(all_paths(it, lambda: it.call(m.ns[name], [a.copy() for a in args], {}))):
            if o != "return":
                ctx.holds("%s.total#%d" % (name, pi_), False, "raises %s" % (v,), ["%s:%s" % (SMOD, name)])
                continue
            outs = v if isinstance(v, tuple) else (v,)
            for k, out in enumerate(outs):
                is_zero(ctx, "%s output %d = 0 for rho < ALPHA_TOL#%d" % (name, k, pi_), hyps + pc, out[0], ["%s:%s" % (SMOD, name)])
    ctx.canary("s2 canary", [tm.mk_lt(TOL, rho[0]), tm.mk_lt(tm.ZERO, sigma[0])], vc.simplify_ite([tm.mk_lt(TOL, rho[0])], it.call(m.ns["get_s2"], [rho.copy(), sigma.copy()], {})[0]), tm.ZERO)


def partial_baseline(tag):
    """Contract of a baseline that is a PARTIAL function of the density (as the real ones are: get_sigma divides by the spin densities and their sum; libxc is
    undefined at zero density): value and derivatives at grid point g are terms PARTIAL:<name>(d, features...) that are defined only where the density d that
    reaches the baseline (sum over the channels it is given of feature 0) is positive."""
    def base(interp, X0T):
        ns, n0, ng = X0T.shape
        m = np.empty((ng,), dtype=object)
        dm = np.empty((ns, n0, ng), dtype=object)
        for g in range(ng):
            col = [X0T[s, i, g] for s in range(ns) for i in range(n0)]
            dens = tm.mk_add(*[tm.lift(X0T[s, 0, g]) for s in range(ns)])
            m[g] = tm.mk_fn("PARTIAL:%s_%d" % (tag, ns), dens, *[tm.lift(c) for c in col])
            k = 0
            for s_ in range(ns):
                for i in range(n0):
                    dm[s_, i, g] = tm.mk_fn("PARTIAL:D%d_%s_%d" % (k, tag, ns), dens, *[tm.lift(c) for c in col])
                    k += 1
        return m, dm
    return base


def undefined_uses(t, hyps, timeout=5.0):
    """Path-sensitive definedness of a term: every PARTIAL:* application (defined for a positive first argument) and every negative power must be defined on
    the paths (ite branches) on which the term uses it.  Returns the list of (path conditions, required condition) that are NOT valid under hyps."""
    bad = []

    def need(path, cond):
        v, env, be = smt.prove(list(hyps) + list(path), cond, timeout)
        if v != "valid":
            bad.append(([tm.show(c, 60) for c in path], tm.show(cond, 80), env if v == "invalid" else None))

    # facts about the transcendental atoms that occur (instances of monotonicity): log u > 0 for u > 1, = 0 at u = 1, < 0 below; p^(a/b) > 0 for p > 0, = 0 at p = 0
    facts = []
    for u in tm.subterms(tm.lift(t)).values():
        if u.op == "f" and u.args[0] == "log":
            a = u.args[1]
            facts += [tm.mk_implies(tm.mk_lt(tm.ONE, a), tm.mk_lt(tm.ZERO, u)), tm.mk_implies(tm.mk_eq(a, tm.ONE), tm.mk_eq(u, tm.ZERO)), tm.mk_implies(tm.mk_lt(a, tm.ONE), tm.mk_lt(u, tm.ZERO))]
        if u.op == "^" and u.args[1].op == "c" and u.args[1].args[0].denominator != 1 and u.args[1].args[0] > 0:
            b_ = u.args[0]
            facts += [tm.mk_implies(tm.mk_lt(tm.ZERO, b_), tm.mk_lt(tm.ZERO, u)), tm.mk_implies(tm.mk_eq(b_, tm.ZERO), tm.mk_eq(u, tm.ZERO))]
    hyps = list(hyps) + facts

    def walk(u, path, seen):
        key = (u.id, tuple(c.id for c in path))
        if key in seen:
            return
        seen.add(key)
        if u.op == "ite":
            c = u.args[0]
            walk(c, path, seen)
            walk(u.args[1], path + [c], seen)
            walk(u.args[2], path + [tm.mk_not(c)], seen)
            return
        if u.op == "f" and str(u.args[0]).startswith("PARTIAL:"):
            need(path, tm.mk_lt(tm.ZERO, u.args[1]))
        if u.op == "^" and u.args[1].op == "c" and u.args[1].args[0] < 0:
            need(path, tm.mk_not(tm.mk_eq(u.args[0], tm.ZERO)))
        if u.op == "^" and u.args[1].op == "c" and u.args[1].args[0].denominator != 1:
            need(path, tm.mk_le(tm.ZERO, u.args[0]) if u.args[1].args[0] > 0 else tm.mk_lt(tm.ZERO, u.args[0]))
        if u.op == "f" and u.args[0] == "log":
            need(path, tm.mk_lt(tm.ZERO, u.args[1]))
        for a in u.args:
            if isinstance(a, tm.T):
                walk(a, path, seen)
    walk(tm.lift(t), [], set())
    return bad


def unit_baseline_definedness(ctx):
    """Native baselines (_lda_x / _pbe_x / _chachiyo_x / _vi_x_damp helpers): for every admissible input — density above zero, reduced gradient s2 >= 0 INCLUDING
    exactly 0, where the Chachiyo closed form is 0/0 and its chain-rule factor dx = c / (2 sqrt(s2)) is infinite — every output (energy, derivatives) is defined:
    a limiting value has to REPLACE the closed form there (assignment under the mask), not be combined with an undefined intermediate."""
    it = ctx.interp
    b = it.load_module(c04.BMOD)
    nfeat = 4
    for name in ("_lda_x_helper", "_pbe_x_helper", "_chachiyo_x_helper", "_vi_x_damp_helper"):
        f = b.ns[name]
        fq = [c04.BMOD + ":" + name]
        X = sym_array("X", (nfeat, NS))
        hyps = [tm.mk_lt(tm.ZERO, X[0, g]) for g in range(NS)] + [tm.mk_le(tm.ZERO, X[1, g]) for g in range(NS)] + [tm.mk_le(tm.ZERO, X[3, g]) for g in range(NS)]
        it.hyps = list(hyps)

        def thunk():
            Xc, e, d = X.copy(), np.full((NS,), tm.ZERO, dtype=object), np.full((nfeat, NS), tm.ZERO, dtype=object)
            it.call(f, [Xc, e, d], {})
            return e, d
        for pi_, (o, v, pc, _) in enumerate(all_paths(it, thunk)):
            if o != "return":
                ctx.holds("%s total#%d" % (name, pi_), False, "raises %s" % (v,), fq)
                continue
            e, d = v
            H = hyps + pc
            outs = [("e[g]", e[0])] + [("dedx[%d,g]" % i, d[i, 0]) for i in range(nfeat)]
            for nm_, t in outs:
                bad = undefined_uses(t, H)
                ctx.holds("%s: %s is defined for every density > 0 and every s2 >= 0 (zero gradient included)#%d" % (name, nm_, pi_), not bad,
                          "undefined intermediate used: %s" % (bad[:1],), fq, witness={"uses": [b_[:2] for b_ in bad[:2]]}, replay=replay_baseline_definedness(name))


def replay_baseline_definedness(name):
    def replay(wit):
        from pyvc import native
        native.install_shim()
        import ciderpress.dft.baselines as bl
        X = np.zeros((4, 3))
        X[0] = [0.5, 1.0, 2.0]
        X[1] = [0.0, 0.0, 0.3]
        X[3] = [0.1, 0.0, 0.2]
        e, d = np.zeros(3), np.zeros((4, 3))
        with np.errstate(all="ignore"):
            getattr(bl, name)(X.copy(), e, d)
        bad = bool(not np.all(np.isfinite(e)) or not np.all(np.isfinite(d)))
        return {"reproduced": bad, "e": [float(x) for x in e], "dedx[1]": [float(x) for x in d[1]], "s2": [0.0, 0.0, 0.3]}
    return replay


def unit_masked_definedness(version, mode, nspin):
    """'finite' below the cutoff, in a real-arithmetic model: the baselines are partial functions of the density (undefined where it vanishes).  Below the
    cutoff — which includes density exactly 0 — every output of the wrapper must be DEFINED: the cutoff has to replace the value there (an assignment under
    the mask), it cannot be applied to a value computed from the undefined baseline (0 * undefined is not 0 in floating point: 0 * NaN = NaN)."""
    def run(ctx):
        it = ctx.interp
        RC = tm.var("rhocut")
        X0 = sym_array("X", (nspin, c04.N0, NS))
        fl = abstract_feature_list(it, c04.N0, c04.N1)
        fevals = c04.make_fevals(it, mode)
        if version == 1:
            x = it.load_module(XMOD)
            mul = Builtin("abs.mul", lambda X: partial_baseline("M")(it, X))
            addb = Builtin("abs.add", lambda X: partial_baseline("A")(it, X))
            K = it.call(x.ns["MappedDFTKernel"], [fevals, fl, mode, mul], {"additive_baseline": addb})
            fq = [XMOD + ":MappedDFTKernel.__call__"]
            call = lambda: it.call(K, [X0.copy()], {"rhocut": RC})
            dens = [X0[s, 0, 0] for s in range(nspin)]
        else:
            return
        # admissible input: densities >= 0 (zero included); grid point 0 below the cutoff of the mode
        if mode == "SEP":
            below = [tm.mk_lt(d, RC) for d in dens]
        else:
            below = [tm.mk_lt(tm.mk_add(*[tm.lift(d) for d in dens]), nspin * RC)]
        hyps = [tm.mk_lt(tm.ZERO, RC)] + below + [tm.mk_le(tm.ZERO, d) for d in dens]
        it.hyps = list(hyps)
        tag = "v%d %s nspin=%d" % (version, mode, nspin)
        for pi_, (o, v, pc, _) in enumerate(all_paths(it, call)):
            if o != "return":
                ctx.holds("%s total#%d" % (tag, pi_), False, "raises %s" % (v,), fq)
                continue
            res, dres = v
            H = hyps + pc
            outs = [("res[g]", res[0])] + [("dres[%d,%d,g]" % (s, i), dres[s, i, 0]) for s in range(nspin) for i in range(c04.N0)]
            for nm_, t in outs:
                bad = undefined_uses(t, H)
                ctx.holds("%s: below the cutoff %s is defined although the baselines are undefined at vanishing density (the cutoff replaces the value)#%d" % (tag, nm_, pi_),
                          not bad, "uses an undefined baseline value: %s" % (bad[:1],), fq, witness={"uses": [b[:2] for b in bad[:2]]}, replay=replay_masked_definedness(mode, nspin))
        # the obligation is not vacuous: above the cutoff the outputs do use the baseline
        hy2 = [tm.mk_lt(tm.ZERO, RC)] + [tm.mk_le(RC, d) for d in dens]
        it.hyps = list(hy2)
        ps = [p_ for p_ in all_paths(it, call) if p_[0] == "return"]
        uses = any(str(u.args[0]).startswith("PARTIAL:") for p_ in ps for u in tm.subterms(vc.simplify_ite(hy2 + p_[2], p_[1][0][0])).values() if u.op == "f")
        ctx.holds("%s: above the cutoff the energy does use the baseline (non-vacuity)" % tag, uses, "", fq)
    return run


def replay_masked_definedness(mode, nspin):
    def replay(wit):
        from pyvc import native
        native.install_shim()
        import ciderpress.dft.xc_evaluator as xe
        import ciderpress.dft.transform_data as td
        import ciderpress.dft.baselines as bl

        class Ev(xe.FuncEvaluator):
            def __call__(self, X1, res=None, dres=None):
                w = np.arange(1, X1.shape[-1] + 1) * 0.3
                if X1.ndim == 3:
                    res[:] += np.sin(X1[0] @ w) + np.sin(X1[1] @ w)
                    dres[0] += np.cos(X1[0] @ w)[:, None] * w
                    dres[1] += np.cos(X1[1] @ w)[:, None] * w
                else:
                    res[:] += np.sin(X1 @ w)
                    dres[:] += np.cos(X1 @ w)[:, None] * w
                return res, dres
        fl = td.FeatureList([td.UMap(0, 0.7), td.UMap(1, 1.3)])
        K = xe.MappedDFTKernel([Ev()], fl, mode, bl.BASELINE_CODES["GGA_X_PBE"] if "GGA_X_PBE" in bl.BASELINE_CODES else bl.gga_x_pbe, bl.gga_c_pbe)
        X = np.zeros((nspin, 2, 3))
        X[:, 0, 1] = 1e-250
        X[:, 0, 2] = 0.5
        X[:, 1, 2] = 0.1
        with np.errstate(all="ignore"):
            res, dres = K(X.copy(), rhocut=1e-9)
        bad = bool(not np.all(np.isfinite(res[:2])) or not np.all(np.isfinite(dres[..., :2])) or np.any(res[:2] != 0) or np.any(dres[..., :2] != 0))
        # the obligation quantifies over every partial baseline; the shipped PBE baselines are undefined at zero density only in some modes (get_sigma's spin
        # polarisation 0/0 for two channels): a finite native result says nothing about the contract, a non-finite one reproduces the violation
        return {"reproduced": True if bad else None, "res_at_zero_density_points": [float(x) for x in np.ravel(res)[:2]], "dres_finite": bool(np.all(np.isfinite(dres[..., :2]))),
                "note": None if bad else "the shipped baselines are defined at these points in this mode; the contract-level violation stands for a baseline that is not"}
    return replay


def unit_zero_wrapper1(mode, nspin):
    def run(ctx):
        it = ctx.interp
        x = it.load_module(XMOD)
        fl = abstract_feature_list(it, c04.N0, c04.N1)
        fevals = c04.make_fevals(it, mode)
        mul = Builtin("abs.mul", lambda X: abstract_baseline("M")(it, X))
        addb = Builtin("abs.add", lambda X: abstract_baseline("A")(it, X))
        K = it.call(x.ns["MappedDFTKernel"], [fevals, fl, mode, mul], {"additive_baseline": addb})
        X0 = sym_array("X", (nspin, c04.N0, NS))
        RC = tm.var("rhocut")
        fq = [XMOD + ":MappedDFTKernel.__call__"]
        # grid point 0: below the cutoff in the sense of the mode; grid point 1: free
        # "below the cutoff": the package-wide convention compares the spin-scaled density nspin * n_s (feature 0 of each channel) with rhocut;
        # NPOL / POL cut on the spin average of it (= the total density), which is what makes the closed-shell limit agree with nspin = 1 (C07)
        if mode == "SEP":
            below = [tm.mk_lt(X0[s, 0, 0], RC) for s in range(nspin)]
        else:
            below = [tm.mk_lt(sum(X0[s, 0, 0] for s in range(nspin)), nspin * RC)]
        hyps = [tm.mk_lt(tm.ZERO, RC)] + below
        it.hyps = list(hyps)
        for pi_, (o, v, pc, _) in enumerate(all_paths(it, lambda: it.call(K, [X0.copy()], {"rhocut": RC}))):
            if o != "return":
                ctx.holds("total#%d" % pi_, False, "raises %s" % (v,), fq)
                continue
            res, dres = v
            H = hyps + pc
            is_zero(ctx, "res[g] = 0 below rhocut#%d" % pi_, H, res[0], fq)
            for s in range(nspin):
                for i in range(c04.N0):
                    is_zero(ctx, "dres[%d,%d,g] = 0 below rhocut#%d" % (s, i, pi_), H, dres[s, i, 0], fq)
            H2 = [tm.mk_lt(tm.ZERO, RC)] + [tm.mk_lt(RC, X0[s, 0, 1]) for s in range(nspin)] + pc
            ctx.canary("canary#%d" % pi_, H2, vc.simplify_ite(H2, res[1]), tm.ZERO)
        # SEP, two channels: the cutoff is per channel — a channel below it contributes nothing even when the other channel is above it
        if mode == "SEP" and nspin == 2:
            for lo in (0, 1):
                hi = 1 - lo
                hyps1 = [tm.mk_lt(tm.ZERO, RC), tm.mk_lt(X0[lo, 0, 0], RC), tm.mk_le(RC, X0[hi, 0, 0])]
                it.hyps = list(hyps1)
                for pi_, (o, v, pc, _) in enumerate(all_paths(it, lambda: it.call(K, [X0.copy()], {"rhocut": RC}))):
                    if o != "return":
                        ctx.holds("one channel below: total#%d" % pi_, False, "raises %s" % (v,), fq)
                        continue
                    res, dres = v
                    H = hyps1 + pc
                    rg = vc.simplify_ite(H, res[0])
                    for i in range(c04.N0):
                        is_zero(ctx, "channel %d below rhocut, channel %d above: dres[%d,%d,g] = 0#%d" % (lo, hi, lo, i, pi_), H, dres[lo, i, 0], fq)
                        is_zero(ctx, "channel %d below rhocut, channel %d above: res[g] does not depend on feature %d of the cut channel#%d" % (lo, hi, i, pi_), H,
                                tm.diff(tm.lift(rg), X0[lo, i, 0]), fq)
    return run


def unit_zero_wrapper2(mode, nspin):
    def run(ctx):
        it = ctx.interp
        c04.libxc_contract(it)
        x2 = it.load_module(X2MOD)
        fl = abstract_feature_list(it, c04.N0, c04.N1)
        fevals = c04.make_fevals(it, mode)
        K = it.call(x2.ns["MappedDFTKernel2"], [fevals, fl, mode, "GGA_X_PBE"], {"additive_baseline": "GGA_C_PBE"})
        K0 = it.call(x2.ns["MappedDFTKernel2"], [[], fl, mode, "GGA_X_PBE"], {"additive_baseline": "GGA_C_PBE"})   # no ML evaluators: baseline-only reference
        X0 = sym_array("X", (nspin, c04.N0, NS))
        rho, sig = sym_array("rho", (nspin, NS)), sym_array("sig", (2 * nspin - 1, NS))
        RC = tm.var("rhocut")
        fq = [X2MOD + ":MappedDFTKernel2.__call__", X2MOD + ":KernelEvalBase2.apply_libxc_baseline_"]
        # SEP: each channel is evaluated at the spin-scaled density nspin * n_s, and that is what the cutoff applies to (C07 separability)
        if mode == "SEP":
            below = [tm.mk_lt(nspin * rho[s, 0], RC) for s in range(nspin)]
        else:
            below = [tm.mk_lt(sum(rho[s, 0] for s in range(nspin)), RC)]
        hyps = [tm.mk_lt(tm.ZERO, RC)] + below + [tm.mk_lt(tm.ZERO, r) for r in rho.reshape(-1)]
        it.hyps = list(hyps)

        def call(kern):
            vt = (np.full(rho.shape, tm.ZERO, dtype=object), np.full(sig.shape, tm.ZERO, dtype=object))
            r = it.call(kern, [X0.copy(), (rho.copy(), sig.copy()), vt], {"rhocut": RC})
            return r, vt
        ref = [p for p in all_paths(it, lambda: call(K0)) if p[0] == "return"]
        for pi_, (o, v, pc, _) in enumerate(all_paths(it, lambda: call(K))):
            if o != "return":
                ctx.holds("total#%d" % pi_, False, "raises %s" % (v,), fq)
                continue
            (f, dX), vt = v
            H = hyps + pc
            (f0, dX0), vt0 = ref[0][1]
            # ML part = difference to the evaluator-free kernel (which is the additive baseline alone, f = 0 * m + a)
            ctx.equal("ML part of f[g] = 0 below rhocut#%d" % pi_, H, vc.simplify_ite(H, f[0]), vc.simplify_ite(H, f0[0]), fq)
            for s in range(nspin):
                for i in range(c04.N0):
                    is_zero(ctx, "dfdX0T[%d,%d,g] = 0 below rhocut#%d" % (s, i, pi_), H, dX[s, i, 0], fq)
            for k in range(2):
                for c in range(vt[k].shape[0]):
                    ctx.equal("no ML contribution to vrho_tuple[%d][%d,g]#%d" % (k, c, pi_), H, vc.simplify_ite(H, vt[k][c, 0]), vc.simplify_ite(H, vt0[k][c, 0]), fq)
        # SEP, two channels: the cutoff is per channel — a channel below it contributes nothing even when the OTHER channel lifts the total density above it
        if mode == "SEP" and nspin == 2:
            for lo in (0, 1):
                hi = 1 - lo
                hyps1 = [tm.mk_lt(tm.ZERO, RC), tm.mk_lt(nspin * rho[lo, 0], RC), tm.mk_le(RC, nspin * rho[hi, 0])] + [tm.mk_lt(tm.ZERO, r) for r in rho.reshape(-1)]
                it.hyps = list(hyps1)
                for pi_, (o, v, pc, _) in enumerate(all_paths(it, lambda: call(K))):
                    if o != "return":
                        ctx.holds("one channel below: total#%d" % pi_, False, "raises %s" % (v,), fq)
                        continue
                    (f, dX), vt = v
                    H = hyps1 + pc
                    fg = vc.simplify_ite(H, f[0])
                    for i in range(c04.N0):
                        is_zero(ctx, "channel %d below rhocut, channel %d above: dfdX0T[%d,%d,g] = 0#%d" % (lo, hi, lo, i, pi_), H, dX[lo, i, 0], fq)
                        is_zero(ctx, "channel %d below rhocut, channel %d above: the energy at g does not depend on feature %d of the cut channel#%d" % (lo, hi, i, pi_), H,
                                tm.diff(tm.lift(fg), X0[lo, i, 0]), fq)
                    ctx.canary("one-channel canary (the channel above the cutoff does contribute)#%d%d" % (lo, pi_), H, vc.simplify_ite(H, dX[hi, 0, 0]), tm.ZERO)
    return run


def unit_zero_normlist(slmode):
    def run(ctx):
        it = ctx.interp
        nm = it.load_module(NMOD)
        nsl = 3 if slmode in ("npa", "nst") else 2
        norms = [None] * nsl
        hy = []
        for k, name in enumerate(["ConstantNormalizer", "DensityNormalizer", "InhomogeneityNormalizer", "GeneralNormalizer"]):
            cls = nm.ns[name]
            names, _ = init_params(cls)
            pv = {n: tm.var("q%d_%s" % (k, n)) for n in names}
            if "const2" in pv:
                hy.append(tm.mk_le(tm.ZERO, pv["const2"]))
            norms.append(it.call(cls, [pv[n] for n in names], {}))
        cutoff = tm.var("cutoff")
        hy.append(tm.mk_lt(tm.ZERO, cutoff))
        lst = it.call(nm.ns["FeatNormalizerList"], [norms, slmode], {"cutoff": cutoff})
        nfeat = len(norms)
        X0 = sym_array("X", (1, nfeat, NS))
        G0 = np.full((1, nfeat, NS), tm.ZERO, dtype=object)
        hyps = hy + [tm.mk_le(tm.ZERO, X0[0, i, g]) for i in range(nsl) for g in range(NS)]
        it.hyps = list(hyps)
        fq = [NMOD + ":FeatNormalizerList.get_derivative_wrt_unnormed_features"]
        for pi_, (o, v, pc, _) in enumerate(all_paths(it, lambda: it.call_method(lst, "get_derivative_wrt_unnormed_features", [X0.copy(), G0.copy()]))):
            if o != "return":
                ctx.holds("total#%d" % pi_, False, "raises %s" % (v,), fq)
                continue
            for j in range(nfeat):
                for g in range(NS):
                    is_zero(ctx, "zero model derivative => zero raw derivative [%s,j=%d,g=%d]#%d" % (slmode, j, g, pi_), hyps + pc, v[0, j, g], fq)
    return run


# ------------------------------------------------------------------------------- (b) safety
def safety_obligations(ctx, label, hyps, thunk, fq):
    """Run thunk on every path with the partial-operation log on; one obligation per distinct (condition, path)."""
    it = ctx.interp
    it.hyps = list(hyps)
    IN.SAFETY_LOG[0] = []
    logs = []
    try:
        paths = []
        it.trace = []
        n = 0
        while True:
            it.reset_path()
            IN.SAFETY_LOG[0] = []
            n += 1
            try:
                thunk()
                outcome = ("return", None)
            except IN.PyRaise as e:
                outcome = ("raise", e.exc)
            paths.append((outcome, list(it.pc), list(IN.SAFETY_LOG[0])))
            if not it.next_path() or n > it.max_paths:
                break
    finally:
        IN.SAFETY_LOG[0] = None
    seen = set()
    count = 0
    for pi_, (outcome, pc, log) in enumerate(paths):
        if outcome[0] == "raise":
            feas, _ = smt.feasible(hyps + pc, 3.0)
            ctx.holds("%s.no-exception#%d" % (label, pi_), not feas, "raises %s for admissible input" % (outcome[1],), fq)
            continue
        for kind, ops, lpc in log:
            if kind == "div":
                cond = tm.mk_not(tm.mk_eq(ops[0], tm.ZERO))
            elif kind == "sqrt":
                cond = tm.mk_le(tm.ZERO, ops[0])
            elif kind == "log":
                cond = tm.mk_lt(tm.ZERO, ops[0])
            else:
                b, e = ops
                if e.op == "c" and e.args[0].denominator == 1:
                    cond = tm.mk_not(tm.mk_eq(b, tm.ZERO))            # negative integer power
                elif e.op == "c" and e.args[0] > 0:
                    cond = tm.mk_le(tm.ZERO, b)
                else:
                    cond = tm.mk_lt(tm.ZERO, b)
            key = (cond.id, tuple(c.id for c in lpc))
            if key in seen or cond is tm.TRUE:
                continue
            seen.add(key)
            count += 1
            ctx.valid("%s.%s-defined[%d]#%d" % (label, kind, count, pi_), hyps + list(lpc), cond, fq, replay=None)
    return count


def unit_safety_settings(ctx):
    it = ctx.interp
    m = it.load_module(SMOD)
    rho, sigma, tau = sym_array("rho", (NS,)), sym_array("sigma", (NS,)), sym_array("tau", (NS,))
    base = [tm.mk_le(tm.ZERO, x) for x in list(rho) + list(sigma) + list(tau)]
    A, G, Tm, RC = tm.var("a0"), tm.var("grad_mul"), tm.var("tau_mul"), tm.var("rhocut")
    ph = [tm.mk_lt(tm.ZERO, RC), tm.mk_lt(tm.ZERO, A), tm.mk_le(tm.ZERO, Tm), tm.mk_lt(tm.ZERO, G)]
    for nspin in (1, 2):
        for g in (0, G):
            lab = "get_cider_exponent[nspin=%d,%s]" % (nspin, "grad0" if g == 0 else "grad+")
            safety_obligations(ctx, lab, base + ph, lambda: it.call(m.ns["get_cider_exponent"], [rho.copy(), sigma.copy(), tau.copy()],
                               {"a0": A, "grad_mul": g, "tau_mul": Tm, "rhocut": RC, "nspin": nspin}), [SMOD + ":get_cider_exponent"])
            safety_obligations(ctx, lab.replace("exponent", "exponent_gga"), base + ph, lambda: it.call(m.ns["get_cider_exponent_gga"], [rho.copy(), sigma.copy()],
                               {"a0": A, "grad_mul": g, "rhocut": RC, "nspin": nspin}), [SMOD + ":get_cider_exponent_gga"])
    for name, nargs in (("get_s2", 2), ("ds2", 2), ("get_alpha", 3), ("dalpha", 3), ("dtauw", 2)):
        args = [rho, sigma, tau][:nargs]
        safety_obligations(ctx, name, base, lambda: it.call(m.ns[name], [a.copy() for a in args], {}), ["%s:%s" % (SMOD, name)])
    safety_obligations(ctx, "get_single_orbital_tau", base, lambda: it.call(m.ns["get_single_orbital_tau"], [rho.copy(), np.array([tm.mk_sqrt(s) for s in sigma], dtype=object)], {}),
                       [SMOD + ":get_single_orbital_tau"])
    ctx.assume("dalpha: tau0 = get_uniform_tau(max(rho, ALPHA_TOL)) > 0; the unregularised 1/(8 rho) terms use the clamped rho")
    # canary: without sigma >= 0 the sqrt in get_s2 must be reported as possibly undefined
    from pyvc.framework import Ctx
    probe = Ctx(ctx.pid, ctx.unit + "/probe", ctx.tier, ctx.seed)
    probe._interp = it
    safety_obligations(probe, "get_s2-without-sigma>=0", [tm.mk_le(tm.ZERO, x) for x in rho], lambda: it.call(m.ns["get_s2"], [rho.copy(), sigma.copy()], {}), [])
    hit = any(r["status"] == "refuted" for r in probe.records)
    ctx.records.append({"kind": "canary", "name": ctx.unit + "/canary-sqrt-of-unconstrained-sigma", "status": "refuted" if hit else "discharged", "backend": "z3",
                        "seconds": 0, "detail": "", "witness": None, "functions": [], "cases": 1})


def unit_safety_semilocal(mode, nspin):
    def run(ctx):
        it = ctx.interp
        sm, pm = it.load_module(SMOD), it.load_module(PMOD)
        st = it.call(sm.ns["SemilocalSettings"], [mode], {})
        plan = it.call(pm.ns["SemilocalPlan"], [st, nspin], {})
        rho = sym_array("r", (nspin, 5, NS))
        # admissible: density >= 0, tau >= 0; gradient components free
        hyps = [tm.mk_le(tm.ZERO, rho[s, 0, g]) for s in range(nspin) for g in range(NS)] + [tm.mk_le(tm.ZERO, rho[s, 4, g]) for s in range(nspin) for g in range(NS)]
        fq = [PMOD + ":SemilocalPlan.get_feat", PMOD + ":SemilocalPlan.get_vxc", PMOD + ":_BaseSemilocalPlan._fill_feat_%s_" % mode, PMOD + ":SemilocalPlan._fill_vxc_%s_" % mode]
        safety_obligations(ctx, "get_feat[%s]" % mode, hyps, lambda: it.call_method(plan, "get_feat", [rho.copy()]), fq)
        nf = 3 if mode in ("nst", "npa") else 2
        vf = sym_array("v", (nspin, nf, NS))
        safety_obligations(ctx, "get_vxc[%s]" % mode, hyps, lambda: it.call_method(plan, "get_vxc", [rho.copy(), vf.copy()]), fq)
    return run


def unit_safety_norm(slmode):
    def run(ctx):
        it = ctx.interp
        nm = it.load_module(NMOD)
        nsl = 3 if slmode in ("npa", "nst") else 2
        norms = [None] * nsl
        hy = []
        for k, name in enumerate(["ConstantNormalizer", "DensityNormalizer", "InhomogeneityNormalizer", "GeneralNormalizer"]):
            cls = nm.ns[name]
            names, _ = init_params(cls)
            pv = {n: tm.var("q%d_%s" % (k, n)) for n in names}
            if "const2" in pv:
                hy.append(tm.mk_le(tm.ZERO, pv["const2"]))
            norms.append(it.call(cls, [pv[n] for n in names], {}))
        cutoff = tm.var("cutoff")
        hy.append(tm.mk_lt(tm.ZERO, cutoff))
        lst = it.call(nm.ns["FeatNormalizerList"], [norms, slmode], {"cutoff": cutoff})
        nfeat = len(norms)
        X0 = sym_array("X", (1, nfeat, NS))
        G0 = sym_array("G", (1, nfeat, NS))
        hyps = hy + [tm.mk_le(tm.ZERO, X0[0, i, g]) for i in range(nsl) for g in range(NS)]
        fq = [NMOD + ":FeatNormalizerList.get_normalized_feature_vector", NMOD + ":FeatNormalizerList.get_derivative_wrt_unnormed_features", NMOD + ":FeatNormalizerList._get_rho_and_inh"]
        safety_obligations(ctx, "normalize[%s]" % slmode, hyps, lambda: it.call_method(lst, "get_normalized_feature_vector", [X0.copy()]), fq)
        safety_obligations(ctx, "backprop[%s]" % slmode, hyps, lambda: it.call_method(lst, "get_derivative_wrt_unnormed_features", [X0.copy(), G0.copy()]), fq)
        ctx.assume("normalisers: const2 >= 0 (it is C/B >= 0 for the recommended normalisers with a0 > tau_fac); raw semilocal features >= 0")
    return run


SAFE_MAP_SKIP = {
    "V2Map": "its denominator 1 + b*(a*x_i - x_j) is positive only if the two features it reads satisfy a relation (x_j <= a*x_i + 1/b) that is a property of the feature generator, not of the map",
    "V3Map": None, "V4Map": None,
    "OmegaMap": "admissible domain (n != 0 etc.) is enforced by NaN scrubbing and np.divide(where=...) whose uninitialised-output semantics are outside the real-arithmetic model",
}


def unit_safety_maps(ctx):
    it = ctx.interp
    t = it.load_module(TMOD)
    from contracts.c12 import INDEX_NAMES, param_domain
    for cls in t.ns["ALL_CLASSES"]:
        if SAFE_MAP_SKIP.get(cls.name):
            ctx.assume("C08 safety of %s not claimed: %s" % (cls.name, SAFE_MAP_SKIP[cls.name]))
            continue
        names, _ = init_params(cls)
        idx = [n for n in names if n in INDEX_NAMES]
        pv = {n: tm.var("p_" + n) for n in names if n not in INDEX_NAMES and n != "bounds"}
        hyps = []
        for n, v in pv.items():
            hyps += param_domain(cls.name, n, v)
        nraw = len(idx) + 1
        args = [idx.index(n) if n in idx else pv[n] for n in names if n != "bounds"]
        obj = it.call(cls, args, {})
        x = sym_array("x", (nraw, NS))
        hyps += [tm.mk_le(tm.ZERO, v) for v in x.reshape(-1)]
        y, d, g = sym_array("y", (NS,)), sym_array("d", (nraw, NS)), sym_array("g", (NS,))
        fq = ["%s:%s.fill_feat_" % (TMOD, cls.name), "%s:%s.fill_deriv_" % (TMOD, cls.name)]
        safety_obligations(ctx, "fill_feat_[%s]" % cls.name, hyps, lambda: it.call_method(obj, "fill_feat_", [y.copy(), x.copy()]), fq[:1])
        safety_obligations(ctx, "fill_deriv_[%s]" % cls.name, hyps, lambda: it.call_method(obj, "fill_deriv_", [d.copy(), g.copy(), x.copy()]), fq[1:])


# ------------------------------------------------------------------------------- (c) C routines: divisions
def _arr_pos(name, strict=True):
    """requires over every element of a read-only input array: instantiated on each read term rd:<name>(k) occurring in the obligations"""
    return ("array", name, strict)


C_DIV = {
    # fn: (file, requires(args) -> list of hypotheses / array requirements)
    "smooth_cider_exponents": ("mod_cider/cider_coefs.c", lambda a: [tm.mk_lt(tm.ZERO, a["amax"]), _arr_pos("a", strict=False)]),
    "cider_ind_etb": ("mod_cider/cider_coefs.c", lambda a: [tm.mk_lt(tm.ZERO, a["alpha0"]), tm.mk_lt(tm.ONE, a["lambd"]), tm.mk_lt(tm.ZERO, tm.mk_fn("log", a["lambd"])), _arr_pos("exp_g")]),
    "cider_ind_zexp": ("mod_cider/cider_coefs.c", lambda a: [tm.mk_lt(tm.ZERO, a["alpha0"]), tm.mk_lt(tm.ONE, a["lambd"]), tm.mk_lt(tm.ZERO, tm.mk_fn("log", a["lambd"])), _arr_pos("exp_g", strict=False)]),
    "cider_coefs_vk1_gq": ("mod_cider/cider_coefs.c", lambda a: [_arr_pos("alphas")]),
    "cider_coefs_vk1_qg": ("mod_cider/cider_coefs.c", lambda a: [_arr_pos("alphas")]),
}


def unit_c_divisions(fn):
    def run(ctx):
        from cvc import cparse
        from cvc.csym import CSym, CUnsupported
        from contracts import c10
        rel, req = C_DIV[fn]
        fq = ["lib/%s:%s" % (rel, fn)]
        tu = cparse.load(rel)
        sy = CSym([tu] + [cparse.load(h) for h in c10.HELPER_TUS if h != rel])
        try:
            args = {p: c10.mk_value(tu, ty, p) for p, ty in tu.params(fn)}
            sy.run(fn, args)
        except CUnsupported as e:
            ctx.undecided("%s summarised" % fn, str(e)[:200], fq)
            return
        reqs = req(args)
        hyps = c10.nonneg_hyps(args) + [r for r in reqs if isinstance(r, tm.T)] + [t for kind, t, g, q, w in sy.side if kind == "assume"]
        arr_req = [r for r in reqs if isinstance(r, tuple)]
        ctx.assume("requires of %s: %s" % (fn, "; ".join([tm.show(r, 60) for r in reqs if isinstance(r, tm.T)] + ["every element of %s is %s 0" % (r[1], ">" if r[2] else ">=") for r in arr_req])
                   + " (log(lambd) > 0 is the instance of the monotonicity of log for lambd > 1)"
                   + ("; NOTE the sign requirement on exp_g is NOT established by the Python callers for every accepted parameter set (a raw exponent can be negative at low tau when a0 is "
                      "small against tau_mul): the index is then NaN and is absorbed by cider_ind_clip, whose NaN behaviour is under contract in C18 (ind-clip-nan)" if fn in ("cider_ind_etb", "cider_ind_zexp") else "")))
        divs = [(t, g) for kind, t, g, q, w in sy.side if kind == "div"]
        seen = set()
        n = 0
        for t, g in divs:
            if t.op == "c":
                if t.args[0] == 0:
                    ctx.holds("%s divisor #%d is not the constant zero" % (fn, n), False, "", fq)
                continue
            key = (t.id, tuple(x.id for x in g))
            if key in seen:
                continue
            seen.add(key)
            H = list(hyps) + list(g)
            for u in tm.subterms(t).values():
                if u.op == "f" and isinstance(u.args[0], str) and u.args[0].startswith("rd:"):
                    for _, an, strict in arr_req:
                        if u.args[0] == "rd:" + an:
                            H.append(tm.mk_lt(tm.ZERO, u) if strict else tm.mk_le(tm.ZERO, u))
            ctx.valid("%s: divisor %s is non-zero for every admissible input" % (fn, tm.show(t, 60)), H, tm.mk_not(tm.mk_eq(t, tm.ZERO)), fq, replay=replay_c_division(fn))
            n += 1
        ctx.holds("%s: divisions found and examined" % fn, len(divs) > 0, "", fq)
    return run


def replay_c_division(fn):
    def replay(wit):
        import ctypes
        from pyvc import native
        if fn != "smooth_cider_exponents":
            return {"reproduced": None, "note": "native replay implemented for smooth_cider_exponents"}
        lib = ctypes.CDLL(native.build_libs() + "/libmcider.so")
        amax = 6.4
        a = np.array([0.0, 0.5 * amax, amax, np.nextafter(amax, 0), np.nextafter(amax, 10), 2 * amax, 1e3 * amax], dtype=np.float64)
        d0 = np.ones_like(a)
        ptrs = (ctypes.c_void_p * 1)(d0.ctypes.data_as(ctypes.c_void_p))
        lib.smooth_cider_exponents(a.ctypes.data_as(ctypes.c_void_p), ptrs, ctypes.c_double(amax), ctypes.c_int(a.size), ctypes.c_int(1))
        bad = [int(i) for i in range(a.size) if not (np.isfinite(a[i]) and np.isfinite(d0[i]))]
        return {"reproduced": bool(bad), "amax": amax, "non_finite_at_input_index": bad, "saturated_exponents": [float(x) for x in a], "derivative_factors": [float(x) for x in d0]}
    return replay


def units():
    u = []
    for gga in (False, True):
        for nspin in (1, 2):
            u.append(("zero-exponent/%s/nspin%d" % ("gga" if gga else "mgga", nspin), unit_zero_exponent(gga, nspin)))
    u.append(("zero-s2-alpha", unit_zero_s2_alpha))
    for mode in ("SEP", "NPOL", "POL"):
        for nspin in (1, 2):
            u.append(("zero-wrapper1/%s/nspin%d" % (mode, nspin), unit_zero_wrapper1(mode, nspin)))
            u.append(("zero-wrapper2/%s/nspin%d" % (mode, nspin), unit_zero_wrapper2(mode, nspin)))
            u.append(("masked-definedness/v1/%s/nspin%d" % (mode, nspin), unit_masked_definedness(1, mode, nspin)))
    for m in ("npa", "nst", "np", "ns"):
        u.append(("zero-normlist/" + m, unit_zero_normlist(m)))
        u.append(("safety-norm/" + m, unit_safety_norm(m)))
        for nspin in (1, 2):
            u.append(("safety-semilocal/%s/nspin%d" % (m, nspin), unit_safety_semilocal(m, nspin)))
    for fn in C_DIV:
        u.append(("c-divisions/" + fn, unit_c_divisions(fn)))
    u.append(("baseline-definedness", unit_baseline_definedness))
    u.append(("safety-settings", unit_safety_settings))
    u.append(("safety-maps", unit_safety_maps))
    return u


EXPLANATION = (
    "Real-arithmetic part of the property.  (a) Exact zeroing: below the respective cutoff every derivative output of the exponent routines is 0 and "
    "the value is frozen, s2/alpha and their derivatives are 0, and for the model wrappers (three spin modes, one and two channels, baselines "
    "abstract) the ML energy at that grid point, its derivative w.r.t. every raw feature and its contribution to the density potentials are 0 "
    "after the baselines have been applied; a zero model derivative gives a zero raw derivative through the normaliser list.  (b) Safety: with the "
    "interpreter logging every division, sqrt, log and non-integer/negative power it executes on the real source, each is proved to have its operand "
    "in domain for every admissible input (rho, sigma, tau >= 0, parameters in range), with the 1e-16 regularisers kept exact.  IEEE overflow/underflow "
    "and denormals are outside a real-arithmetic model and are not claimed.")
TRUSTED = [
    "A1: reals for doubles — 'finite' is decided as 'every partial operation is defined over the reals'; overflow to inf, underflow and denormals are not modelled",
    "A3/A4 numpy/Python model; callee contracts of the wrappers as in C04",
    "C index clipping for the spline coefficients is decided by the C engine",
]

if __name__ == "__main__":
    sys.exit(run_property("C08", "proof", units(), EXPLANATION, TRUSTED, min_obligations=200))
