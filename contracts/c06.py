"""C06 — invariance under rigid motions and atom relabelling (the exact, contract-expressible part).

The statement is about E_xc / V_xc / features of a whole calculation; a whole calculation is not within a contract's reach.  What is decided
here is the invariance (covariance) of every link whose *only* access to the geometry is under contract, so that the end-to-end statement is the
composition of these links with the assumed ones (PySCF AO values and Becke weights are functions of relative positions; the quadrature is
mapped onto itself by the 48 octahedral operations):

  generator caches      after initialize_feature_generators(mol, grids, nspin) the NLDF / SDMX generators are the ones built for *this* molecule,
                        grid and spin count (inductive invariant over the integrator's history: no stale geometry survives a new molecule)
  geometry-dependent parameters   the default SDMX exponent grid (alpha0, nalpha) of EXXSphGenerator.from_settings_and_mol (fast and slow module)
                        depends on the coordinates only through the pairwise distances: equal for translated and relabelled copies (decided
                        directly, with counter-models), every square root is a pairwise distance (so rotations / reflections leave it unchanged:
                        |R d|^2 = |d|^2 is proved for the Cayley parametrisation of SO(3) and for a reflection)
  vector (l=1) features  NLDFAuxiliaryPlan.eval_rho_full (version i, l=1 dot products with each other and with the density gradient): unchanged when
                        every vector is rotated / reflected by the same orthogonal matrix; features unchanged under the 48 signed permutations too
  l=1 ordering           AtomicGridsIndexer.dirs = sqrt(4 pi / 3) * ylm[:, [3, 1, 2]] is (x, y, z) for the l=1 harmonics the C routine produces;
                        SDMXylm_yzx2xyz is the cyclic reordering (y, z, x) -> (x, y, z) of every atom's l=1 block and nothing else
  real spherical harmonics   recursive_sph_harm (engine C with complex arithmetic, every l <= LMAX): the output is the orthonormal real harmonic basis:
                        addition theorem  sum_m Y_lm(r) Y_lm(r') = (2l+1)/(4 pi) P_l(r.r')  on the unit sphere (=> every l-block transforms orthogonally
                        under every rotation / reflection);  recursive_sph_harm_deriv = the tangential gradient of those functions
  atom relabelling       AtomicGridsIndexer.from_tabs: the per-atom view (radii, block sizes, harmonics rows) of atom a of the relabelled molecule is the view
                        of the atom it came from;  the l+1 steps read the geometry only through (grid point - its atom) and are the transposes of each other
"""
import itertools
import json
import os
import sys

sys.path.insert(0, os.path.dirname(os.path.dirname(os.path.abspath(__file__))))

import warnings
import numpy as np
from fractions import Fraction as Q

warnings.filterwarnings("ignore")

from pyvc import terms as tm
from pyvc import vc
from pyvc.nf import NF, NFError
from pyvc.framework import run_property
from pyvc.interp import Interp, Obj, ClassV, Builtin, PyRaise, Unsupported
from contracts.common import *
from cvc import cparse, oblig
from cvc.csym import CSym, Arr, Ptr, CUnsupported

NMOD = "ciderpress.pyscf.numint"
PMOD = "ciderpress.dft.plans"
IMOD = "ciderpress.dft.grids_indexer"


def mkobj(mod, name, **f):
    o = Obj(ClassV(name, [], mod))
    o.fields.update(f)
    return o


# ------------------------------------------------------------------ rotations
def cayley():
    """R(p, q, r) in SO(3): every rotation except those by the angle pi (a closed set of measure zero; the obligations are polynomial identities in the
    entries of R, so they extend to the closure)."""
    p, q, r = [tm.var(n) for n in ("cay_p", "cay_q", "cay_r")]
    d = 1 + p * p + q * q + r * r
    R = [[(1 + p * p - q * q - r * r) / d, 2 * (p * q - r) / d, 2 * (p * r + q) / d],
         [2 * (p * q + r) / d, (1 - p * p + q * q - r * r) / d, 2 * (q * r - p) / d],
         [2 * (p * r - q) / d, 2 * (q * r + p) / d, (1 - p * p - q * q + r * r) / d]]
    return R


def reflect(R):
    """an improper element: R composed with the mirror x -> -x (O(3) = SO(3) u mirror.SO(3))."""
    return [[-R[0][j] for j in range(3)], R[1], R[2]]


def octahedral():
    out = []
    for perm in itertools.permutations(range(3)):
        for sg in itertools.product((1, -1), repeat=3):
            out.append([[sg[i] if perm[i] == j else 0 for j in range(3)] for i in range(3)])
    return out


def rot(R, v):
    return [tm.mk_add(*[tm.lift(R[k][j]) * tm.lift(v[j]) for j in range(3)]) for k in range(3)]


# ------------------------------------------------------------------ (A) generator caches
def unit_gen_cache(clsname):
    def run(ctx):
        it = ctx.interp
        it.externals["pyscf.lib.hermi_sum"] = lambda interp, a, axes=None, **k: a
        it.externals["pyscf.dft.gen_grid.NBINS"] = 100
        mod = it.load_module(NMOD)
        cls = mod.ns[clsname]
        has_nldf = any(c.name == "_NLDFMixin" for c in cls.mro())
        fq = ["%s:%s.initialize_feature_generators" % (NMOD, c.name) for c in cls.mro() if "initialize_feature_generators" in getattr(c, "ns", {})] or \
             ["%s:%s.initialize_feature_generators" % (NMOD, clsname)]
        it.overrides[PMOD + ":SemilocalPlan"] = lambda interp, c, a, k: ("SLPLAN",) + tuple(a)
        it.overrides[PMOD + ":FracLaplPlan"] = lambda interp, c, a, k: ("FLPLAN",) + tuple(a)
        ctx.assume("the grids object handed to the integrator was built for the molecule handed in with it (grids.grids_indexer and grids.coords are functions of the "
                   "pair (grids object, molecule object)); molecule objects are compared by identity (PySCF's Mole defines no __eq__) and are not mutated in place")

        def fresh_ni():
            ni = Obj(cls)

            def init_nldf(mol, indexer, nspin):
                g = mkobj(mod, "_NLDFGen", plan=mkobj(mod, "_P", nspin=nspin), tag=(mol, indexer, nspin))
                ip = mkobj(mod, "_I")
                ip.fields["set_coords"] = Builtin("set_coords", lambda c: g.fields.__setitem__("coords", c))
                g.fields["interpolator"] = ip
                return g

            def init_sdmx(mol, nspin):
                return mkobj(mod, "_SDMXGen", plan=mkobj(mod, "_P", nspin=nspin), tag=(mol, nspin))
            ni.fields.update(mlxc=mkobj(mod, "_MLXC", settings=mkobj(mod, "_S", sl_settings="SL", nlof_settings="NLOF", has_sdmx=True)), nldfgen=None, sdmxgen=None, mol=None,
                             nldf_init=mkobj(mod, "_NI", initialize_nldf_generator=Builtin("init_nldf", init_nldf)),
                             sdmx_init=mkobj(mod, "_SI", initialize_sdmx_generator=Builtin("init_sdmx", init_sdmx)))
            return ni

        def call(ni, mol, grids, nspin):
            # precondition: the grids were (re)built for this molecule
            grids.fields["grids_indexer"] = ("indexer", id(grids), id(mol))
            grids.fields["coords"] = ("coords", id(grids), id(mol))
            it.call_method(ni, "initialize_feature_generators", [mol, grids, nspin])

        def post(ni, mol, grids, nspin):
            bad = []
            if has_nldf:
                g = ni.fields.get("nldfgen")
                if g is None:
                    bad.append("no NLDF generator")
                else:
                    t = g.fields["tag"]
                    if t[0] is not mol:
                        bad.append("NLDF generator built for another molecule")
                    if t[1] != grids.fields["grids_indexer"]:
                        bad.append("NLDF generator built on another grid indexer")
                    if t[2] != nspin:
                        bad.append("NLDF generator built for nspin=%s" % t[2])
                    if g.fields.get("coords") != grids.fields["coords"]:
                        bad.append("the NLDF generator's interpolator does not hold the coordinates of the current grid (set_coords %s)" % ("not called" if "coords" not in g.fields else "called for another grid"))
            s = ni.fields.get("sdmxgen")
            if s is None:
                bad.append("no SDMX generator")
            else:
                if s.fields["tag"][0] is not mol:
                    bad.append("SDMX generator built for another molecule")
                if s.fields["tag"][1] != nspin:
                    bad.append("SDMX generator built for nspin=%s" % s.fields["tag"][1])
            if ni.fields.get("sl_plan") != ("SLPLAN", "SL", nspin):
                bad.append("semilocal plan %r" % (ni.fields.get("sl_plan"),))
            return bad
        # base case
        ni = fresh_ni()
        m0, g0 = mkobj(mod, "_Mol"), mkobj(mod, "_Grids")
        try:
            call(ni, m0, g0, 1)
            bad = post(ni, m0, g0, 1)
        except Unsupported as e:
            ctx.undecided("%s first call" % clsname, str(e)[:200], fq)
            return
        except PyRaise as e:
            ctx.holds("%s: initialize_feature_generators does not raise for a valid configuration" % clsname, False, "raises %s" % str(e)[:200], fq, replay=replay_gen_cache(clsname))
            return
        ctx.holds("%s: first call builds the generators for the molecule, grid and spin count it was given" % clsname, not bad, "; ".join(bad), fq, replay=replay_gen_cache(clsname))
        # inductive step: any state established by a call (the invariant), then a call in each of the 8 identity relations to it
        for same_mol, same_grids, same_spin in itertools.product((True, False), repeat=3):
            for nsp0 in (1, 2):
                ni = fresh_ni()
                m0, g0 = mkobj(mod, "_Mol"), mkobj(mod, "_Grids")
                call(ni, m0, g0, nsp0)
                m1 = m0 if same_mol else mkobj(mod, "_Mol")
                g1 = g0 if same_grids else mkobj(mod, "_Grids")
                n1 = nsp0 if same_spin else 3 - nsp0
                call(ni, m1, g1, n1)
                bad = post(ni, m1, g1, n1)
                ctx.holds("%s: after a call with (%s molecule, %s grids object, %s spin count) following a call with nspin=%d, every generator is the one for the current molecule / grid / spin count"
                          % (clsname, "the same" if same_mol else "another", "the same" if same_grids else "another", "the same" if same_spin else "another", nsp0),
                          not bad, "; ".join(bad), fq, replay=replay_gen_cache(clsname, (same_mol, same_grids, same_spin, nsp0)))
        # reset / build: the way to invalidate the caches when a molecule is changed IN PLACE (mol.set_geom_ on the same object, as scanners do; identity-based
        # staleness tests cannot see that): afterwards no generator of the earlier geometry survives, whichever molecule object is handed in
        fqr = ["%s:CiderNumIntMixin.reset" % NMOD, "%s:CiderNumIntMixin.build" % NMOD]
        it.externals["ase.utils.timing.Timer"] = lambda interp, *a, **k: "timer"
        for meth in ("reset", "build"):
            for which in ("the same molecule object", "another molecule object", "no molecule"):
                ni = fresh_ni()
                m0, g0 = mkobj(mod, "_Mol"), mkobj(mod, "_Grids")
                call(ni, m0, g0, 1)
                arg = {"the same molecule object": m0, "another molecule object": mkobj(mod, "_Mol"), "no molecule": None}[which]
                try:
                    it.call_method(ni, meth, [], {"mol": arg})
                except (Unsupported, PyRaise) as e:
                    ctx.undecided("%s.%s(%s) runs" % (clsname, meth, which), str(e)[:160], fqr)
                    continue
                left = [k for k in ("nldfgen", "sdmxgen") if ni.fields.get(k) is not None]
                ctx.holds("%s.%s(%s) drops every cached feature generator" % (clsname, meth, which), not left, "still cached: %s" % left, fqr,
                          witness={"method": meth, "argument": which}, replay=replay_reset(clsname, meth, which))
    return run


def replay_reset(clsname, meth, which):
    def replay(wit):
        from pyvc import native
        native.install_shim()
        import ciderpress.pyscf.numint as N
        cls = getattr(N, clsname)
        ni = cls.__new__(cls)
        m0 = object()
        ni.mol, ni.nldfgen, ni.sdmxgen, ni.sl_plan, ni.fl_plan = m0, "NLDFGEN", "SDMXGEN", None, None
        arg = {"the same molecule object": m0, "another molecule object": object(), "no molecule": None}[which]
        try:
            getattr(ni, meth)(mol=arg)
        except Exception as e:
            return {"reproduced": None, "error": "%s: %s" % (type(e).__name__, str(e)[:100])}
        left = [k for k in ("nldfgen", "sdmxgen") if getattr(ni, k, None) is not None]
        return {"reproduced": bool(left), "still_cached": left}
    return replay


def replay_gen_cache(clsname, scenario=None):
    def replay(wit):
        from pyvc import native
        native.install_shim()
        import ciderpress.pyscf.numint as N
        cls = getattr(N, clsname)
        ni = cls.__new__(cls)
        made = []

        class G(object):
            def __init__(self, *tag):
                self.tag = tag
                self.plan = type("P", (), {"nspin": tag[-1]})()
                gen = self
                self.interpolator = type("I", (), {"set_coords": lambda s, c: setattr(gen, "coords", c)})()

        class Init(object):
            def initialize_nldf_generator(self, mol, ix, nspin):
                made.append(("nldf", mol))
                return G(mol, ix, nspin)

            def initialize_sdmx_generator(self, mol, nspin):
                made.append(("sdmx", mol))
                return G(mol, nspin)
        S = type("S", (), {})
        st = S()
        st.sl_settings, st.nlof_settings, st.has_sdmx = None, None, True
        ni.mlxc = type("M", (), {"settings": st})()
        ni.nldfgen, ni.sdmxgen, ni.mol, ni.nldf_init, ni.sdmx_init = None, None, None, Init(), Init()
        N.SemilocalPlan = lambda *a: None
        N.FracLaplPlan = lambda *a: None
        same_mol, same_grids, same_spin, nsp0 = scenario if scenario is not None else (False, True, True, 1)
        m0 = object()
        m1 = m0 if same_mol else object()
        gr = type("Gr", (), {})()
        gr.grids_indexer, gr.coords = "ix0", "coords0"
        try:
            ni.initialize_feature_generators(m0, gr, nsp0)
        except Exception as e:
            return {"reproduced": True, "first_call_raises": "%s: %s" % (type(e).__name__, e), "ni.settings": repr(ni.settings)}
        if not same_grids:
            gr = type("Gr", (), {})()
        if not (same_mol and same_grids):
            # the grids handed in with a molecule were built for it
            gr.grids_indexer, gr.coords = "ix1", "coords1"
        n1 = nsp0 if same_spin else 3 - nsp0
        ni.initialize_feature_generators(m1, gr, n1)
        stale = []
        g = getattr(ni, "nldfgen", None)
        if g is not None and getattr(g, "coords", None) != gr.coords:
            stale.append("nldfgen.interpolator coordinates: %r" % (getattr(g, "coords", None),))
        if g is not None and (g.tag[0] is not m1 or g.tag[1] != gr.grids_indexer):
            stale.append("nldfgen built for another molecule / indexer")
        if g is not None and g.tag[2] != n1:
            stale.append("nldfgen built for nspin=%s" % g.tag[2])
        if ni.sdmxgen is not None and ni.sdmxgen.tag[0] is not m1:
            stale.append("sdmxgen built for another molecule")
        if ni.sdmxgen is not None and ni.sdmxgen.tag[1] != n1:
            stale.append("sdmxgen built for nspin=%s" % ni.sdmxgen.tag[1])
        return {"reproduced": bool(stale), "history": "call(nspin=%d) then call(%s molecule, %s grids object, nspin=%d)" % (nsp0, "same" if same_mol else "another", "same" if same_grids else "another", n1),
                "stale_generators": stale}
    return replay


# ------------------------------------------------------------------ (B) default SDMX exponent grid
def sq_dist(a, b):
    return tm.mk_add(*[(tm.lift(a[k]) - tm.lift(b[k])) * (tm.lift(a[k]) - tm.lift(b[k])) for k in range(3)])


def unit_expgrid(modname, natm):
    def run(ctx):
        it = ctx.interp
        for k, v in (("ANG_OF", 1), ("ATOM_OF", 0), ("NCTR_OF", 3), ("PTR_EXP", 5)):
            it.externals["pyscf.gto.mole." + k] = v
        mod = it.load_module(modname)
        smod = it.load_module("ciderpress.dft.settings")
        cls = mod.ns["EXXSphGenerator"]
        fq = ["%s:EXXSphGenerator.from_settings_and_mol" % modname]
        tag = "%s[natm=%d]" % (modname.rsplit(".", 1)[1], natm)
        e = [tm.var("e%d" % i) for i in range(2)]
        it.hyps = [tm.mk_lt(tm.ZERO, v) for v in e]
        H = list(it.hyps)
        cap = {}

        def plan(interp, c, a, k):
            cap["args"] = a
            return "PLAN"
        for n in ("SDMXFullPlan", "SDMXPlan", "SADMPlan"):
            it.overrides[PMOD + ":" + n] = plan
        it.overrides["%s:EXXSphGenerator" % modname] = lambda interp, c, a, k: a
        st = it.call(smod.ns["SDMXSettings"], [[0, 1]], {})

        def run_(coords):
            env = np.array(list(e), dtype=object)
            bas = np.zeros((len(e), 8), dtype=int)
            for i in range(len(e)):
                bas[i, 5] = i
            mol = mkobj(mod, "_Mol", _env=env, _bas=bas)
            mol.fields["atom_coords"] = Builtin("atom_coords", lambda unit=None: np.array([[tm.lift(x) for x in c] for c in coords], dtype=object))
            it.call_method(cls, "from_settings_and_mol", [st, 1, mol], {})
            a = cap["args"]
            return tm.lift(a[2]), tm.lift(a[4])
        c = [[tm.var("R%d%s" % (i, x)) for x in "xyz"] for i in range(natm)]
        try:
            a0, na = run_(c)
        except (Unsupported, PyRaise) as ex:
            ctx.undecided("%s default exponent grid computed" % tag, str(ex)[:200], fq)
            return
        nfc = NF()
        dvar = lambda i, j: tm.ZERO if i == j else tm.var("dist_%d_%d" % (min(i, j), max(i, j)))
        Hd = H + [tm.mk_le(tm.ZERO, dvar(i, j)) for i in range(natm) for j in range(i + 1, natm)]

        def abstract(t_):
            """Replace every square root whose argument is (by exact normalisation) a squared pairwise distance of the *original* coordinates by the
            name of that distance; returns the abstracted term and the geometric square roots that are something else."""
            roots = [u for u in tm.subterms(t_).values() if u.op == "^" and u.args[1].op == "c" and u.args[1].args[0] == Q(1, 2)]
            geo = [u for u in roots if any(v.args[0][0] in "Rt" for v in tm.free_vars(u))]
            m = {}
            for u in geo:
                for i, j in itertools.product(range(natm), repeat=2):
                    try:
                        hit = nfc.equal(u.args[0], sq_dist(c[i], c[j]))
                    except NFError:
                        hit = False          # not a polynomial in the coordinates (a max / min inside): certainly not a squared pairwise distance
                    if hit:
                        m[u] = dvar(i, j)
                        break
            return tm.substitute(t_, m), [u for u in geo if u not in m]

        def same(name, lhs, rhs, replay=None):
            A, la = abstract(lhs)
            B, lb = abstract(rhs)
            if not la and not lb and not any(v.args[0][0] in "Rt" for v in tm.free_vars(A) + tm.free_vars(B)):
                # both sides are the same function of a maximum over distances: compare the maxima (linear arithmetic) when the surrounding
                # skeletons are identical terms
                def top_max(T_):
                    cands = [u for u in tm.subterms(T_).values() if u.op == "ite" and all(v.args[0].startswith("dist_") for v in tm.free_vars(u))]
                    return max(cands, key=lambda u: len(tm.subterms(u))) if cands else None
                ma, mb = top_max(A), top_max(B)
                if ma is not None and mb is not None:
                    mv = tm.var("max_dist")
                    if tm.substitute(A, {ma: mv}) is tm.substitute(B, {mb: mv}):
                        return ctx.equal(name, Hd, ma, mb, fq, replay=replay)
                return ctx.equal(name, Hd, A, B, fq, replay=replay)
            # some geometric quantity is not a pairwise distance: look for a numeric witness of the difference
            rng = np.random.RandomState(7)
            for _ in range(20):
                env = {v.args[0]: float(rng.rand() * 4 + 0.5) for v in tm.free_vars(lhs) + tm.free_vars(rhs)}
                x, y = float(tm.evaluate(lhs, env)), float(tm.evaluate(rhs, env))
                if abs(x - y) > 1e-9 * (abs(x) + abs(y)):
                    return ctx._rec("obligation", name, vc.Verdict("refuted", "numeric", "values %.12g vs %.12g; not a function of pairwise distances: %s" % (x, y, [tm.show(u, 60) for u in (la + lb)[:2]]), witness=env), fq, replay)
            return ctx.equal(name, H, lhs, rhs, fq, replay=replay)
        t = [tm.var("t" + x) for x in "xyz"]
        b0, nb = run_([[c[i][k] + t[k] for k in range(3)] for i in range(natm)])
        same("%s alpha0 of a translated copy = alpha0" % tag, b0, a0, replay_expgrid(modname))
        same("%s nalpha of a translated copy = nalpha" % tag, nb, na, replay_expgrid(modname))
        perms = [p for p in itertools.permutations(range(natm)) if list(p) != list(range(natm))]
        for p in perms:
            b0, nb = run_([c[i] for i in p])
            same("%s alpha0 with the atoms relabelled %s = alpha0" % (tag, list(p)), b0, a0)
            same("%s nalpha with the atoms relabelled %s = nalpha" % (tag, list(p)), nb, na)
        A, left = abstract(a0)
        if not left:
            # (when some geometric quantity is not a pairwise distance the obligation below is refuted outright; the canary guards the abstracted comparison only)
            ctx.canary("%s canary" % tag, Hd, A, 2 * A)
        ctx.holds("%s the coordinates enter alpha0 only through pairwise distances |R_i - R_j| (rotations and reflections preserve them: lemma/distances)" % tag,
                  not left and A is not a0, "other geometric quantities: %s" % [tm.show(u, 80) for u in left[:2]], fq, replay=replay_expgrid(modname))
        rest = [v.args[0] for v in tm.free_vars(A) if v.args[0][0] == "R"]
        ctx.holds("%s ... and through nothing else" % tag, not rest, "free coordinates left: %s" % rest[:3], fq)
    return run


def unit_distance_lemma(ctx):
    a = [tm.var("a" + x) for x in "xyz"]
    b = [tm.var("b" + x) for x in "xyz"]
    R = cayley()
    fq = []
    ctx.equal("lemma: |R a - R b|^2 = |a - b|^2 for every rotation (Cayley parametrisation)", [], sq_dist(rot(R, a), rot(R, b)), sq_dist(a, b), fq)
    ctx.equal("lemma: ... and for every improper rotation (mirror composed with a rotation)", [], sq_dist(rot(reflect(R), a), rot(reflect(R), b)), sq_dist(a, b), fq)
    for k in range(3):
        for l in range(k, 3):
            ctx.equal("lemma: the Cayley matrix is orthogonal (R^T R)[%d,%d]" % (k, l), [], tm.mk_add(*[tm.lift(R[j][k]) * tm.lift(R[j][l]) for j in range(3)]), tm.ONE if k == l else tm.ZERO, fq)
    ctx.canary("lemma canary", [], sq_dist(rot(R, a), b), sq_dist(a, b))


def replay_expgrid(modname):
    def replay(wit):
        from pyvc import native
        native.install_shim()
        import importlib
        from pyscf import gto
        from ciderpress.dft.settings import SDMXSettings
        m = importlib.import_module(modname)
        out = []
        for shift in ([0, 0, 0], [3.0, -4.0, 5.0]):
            mol = gto.M(atom=[["O", np.array([0, 0, 0.2]) + shift], ["H", np.array([0, 0.8, -0.4]) + shift], ["H", np.array([0, -0.8, -0.4]) + shift]], basis="sto-3g", unit="Bohr", verbose=0)
            g = m.EXXSphGenerator.from_settings_and_mol(SDMXSettings([0, 1]), 1, mol)
            out.append((float(g.plan.alpha0), int(g.plan.nalpha)))
        # a rotated copy too (a rotation outside the octahedral group: 3-4-5 rotation about z followed by one about x)
        c_, s_ = 0.6, 0.8
        Rz = np.array([[c_, -s_, 0], [s_, c_, 0], [0, 0, 1.0]])
        Rx = np.array([[1.0, 0, 0], [0, 5 / 13, -12 / 13], [0, 12 / 13, 5 / 13]])
        base = np.array([[0, 0, 0.2], [0, 0.8, -0.4], [0.3, -0.8, -0.4]])
        rot = []
        for M_ in (np.eye(3), Rx.dot(Rz)):
            xyz = base.dot(M_.T)
            mol = gto.M(atom=[["O", xyz[0]], ["H", xyz[1]], ["H", xyz[2]]], basis="sto-3g", unit="Bohr", verbose=0)
            g = m.EXXSphGenerator.from_settings_and_mol(SDMXSettings([0, 1]), 1, mol)
            rot.append((float(g.plan.alpha0), int(g.plan.nalpha)))
        bad_t = abs(out[0][0] - out[1][0]) > 1e-13 * out[0][0] or out[0][1] != out[1][1]
        bad_r = abs(rot[0][0] - rot[1][0]) > 1e-13 * rot[0][0] or rot[0][1] != rot[1][1]
        return {"reproduced": bool(bad_t or bad_r), "alpha0_nalpha_original": out[0], "alpha0_nalpha_translated": out[1], "alpha0_nalpha_before_rotation": rot[0], "alpha0_nalpha_after_rotation": rot[1]}
    return replay


# ------------------------------------------------------------------ (D) vector features of the plan
def unit_l1_features(level):
    def run(ctx):
        from contracts.planharness import make_settings, make_plan
        it = ctx.interp
        hyps = []
        st = make_settings(it, "i", level, "one", hyps)
        RC = tm.var("rhocut")
        hyps.append(tm.mk_lt(tm.ZERO, RC))
        plan = make_plan(it, st, 1, nalpha=2, hyps=hyps, rhocut=RC)
        nvi = it.getattr(plan, "num_vi_ints")
        l1locs = [int(x) for x in plan.fields["_l1_start_locs"]]
        nrho = 5 if level == "MGGA" else 4
        f = sym_array("f", (NS, nvi))
        r = sym_array("r", (nrho, NS))
        H = list(hyps) + [tm.mk_lt(RC, x) for x in r[0]] + ([tm.mk_le(tm.ZERO, x) for x in r[4]] if level == "MGGA" else [])
        it.hyps = list(H)
        fq = [PMOD + ":NLDFAuxiliaryPlan." + n for n in ("eval_rho_full", "eval_rho_vi_", "_cache_l1_vectors", "eval_feat_exp")]
        tag = "plan[i,%s]" % level

        def feats(ff, rr):
            ps = [p for p in all_paths(it, lambda: it.call_method(plan, "eval_rho_full", [ff.copy(), rr.copy()], {"spin": 0})) if p[0] == "return"]
            return ps
        base = feats(f, r)
        ctx.holds("%s eval_rho_full returns on one path" % tag, len(base) == 1, "%d paths" % len(base), fq)
        if len(base) != 1:
            return
        feat0 = np.asarray(base[0][1][0], dtype=object)
        Hh = H + list(base[0][2])
        ctx.holds("%s has l=1 vectors among its interpolation outputs" % tag, len(l1locs) >= 1, "", fq)

        def transformed(R):
            f2, r2 = f.copy(), r.copy()
            for g in range(NS):
                for loc in l1locs:
                    v = rot(R, [f[g, loc + k] for k in range(3)])
                    for k in range(3):
                        f2[g, loc + k] = v[k]
                v = rot(R, [r[1 + k, g] for k in range(3)])
                for k in range(3):
                    r2[1 + k, g] = v[k]
            return f2, r2
        R = cayley()
        for nm, M in (("every rotation (Cayley)", R), ("every improper rotation (mirror . Cayley)", reflect(R))):
            f2, r2 = transformed(M)
            ps = feats(f2, r2)
            if len(ps) != 1:
                ctx.undecided("%s features under %s" % (tag, nm), "%d paths" % len(ps), fq)
                continue
            feat1 = np.asarray(ps[0][1][0], dtype=object)
            for i in range(feat0.shape[0]):
                for g in range(NS):
                    ctx.equal("%s feature %d at point %d is unchanged when all l=1 vectors and the density gradient are transformed by %s" % (tag, i, g, nm), Hh + list(ps[0][2]), feat1[i, g], feat0[i, g], fq,
                              replay=replay_l1_features())
        f2, r2 = transformed(R)
        ps = feats(f2, r2)
        if len(ps) == 1:
            ctx.canary("%s canary (a vector feature is not invariant when only the gradient is rotated)" % tag, Hh, np.asarray(feats(f, r2)[0][1][0], dtype=object)[feat0.shape[0] - 2, 0], feat0[feat0.shape[0] - 2, 0])
    return run


def replay_l1_features():
    def replay(wit):
        from pyvc import native
        native.install_shim()
        from ciderpress.dft.settings import NLDFSettingsVI
        from ciderpress.dft.plans import NLDFGaussianPlan
        rng = np.random.RandomState(4)
        st = NLDFSettingsVI("GGA", [1.0, 0.03], "one", ["se_ap", "se"], ["se_grad", "se_rvec"], [(0, 0), (0, 1), (-1, 0), (-1, -1)])
        plan = NLDFGaussianPlan(st, 1, 0.01, 1.8, 6, coef_order="gq")
        n = 7
        f = rng.rand(n, plan.num_vi_ints)
        rho = rng.rand(4, n) + 0.1
        A = rng.rand(3, 3)
        Rm, _ = np.linalg.qr(A)
        f2, rho2 = f.copy(), rho.copy()
        for loc in plan._l1_start_locs:
            f2[:, loc:loc + 3] = f[:, loc:loc + 3] @ Rm.T
        rho2[1:4] = Rm @ rho[1:4]
        a = plan.eval_rho_full(f.copy(), rho.copy(), spin=0)[0]
        b = plan.eval_rho_full(f2.copy(), rho2.copy(), spin=0)[0]
        err = float(np.max(np.abs(a - b)))
        return {"reproduced": bool(err > 1e-10), "max_change_of_features_under_a_random_orthogonal_matrix": err}
    return replay


# ------------------------------------------------------------------ (G) relabelling: per-atom view of the indexer
def unit_relabel(ctx):
    from contracts import c19
    it = ctx.interp
    pm, gm = c19.setup(it)
    im = it.load_module(IMOD)
    fq = [IMOD + ":AtomicGridsIndexer.from_tabs", IMOD + ":AtomicGridsIndexer.__init__"]
    nrad = {"A": 3, "B": 2, "C": 1}
    nyl = {"A": 3, "B": 2, "C": 1}
    nlm = 4
    rad_loc_tab, ylm_loc_tab, rad_tab, ylm_tab = {}, {}, {}, {}
    H = []
    for s in nrad:
        rl = [tm.ZERO] + [tm.var("rl%s_%d" % (s, i), "I") for i in range(1, nrad[s] + 1)]
        for i in range(nrad[s]):
            H.append(tm.mk_lt(rl[i], rl[i + 1]))
        rad_loc_tab[s] = np.array(rl, dtype=object)
        ylm_loc_tab[s] = np.array([i % nyl[s] for i in range(nrad[s])], dtype=int)
        rad_tab[s] = np.array([tm.var("rad%s_%d" % (s, i)) for i in range(nrad[s])], dtype=object)
        ylm_tab[s] = sym_array("ylm%s" % s, (nyl[s], nlm))

    def view(symbols):
        mol = c19.mol_stub(it, gm, symbols)
        ix = it.call_method(im.ns["AtomicGridsIndexer"], "from_tabs", [mol, 1, rad_loc_tab, ylm_loc_tab, rad_tab, ylm_tab])
        f = ix.fields
        out = []
        for a in range(len(symbols)):
            r0, r1 = int(f["ra_loc"][a]), int(f["ra_loc"][a + 1])
            out.append({
                "radii": [tm.lift(x) for x in f["rad_arr"][r0:r1]],
                "sizes": [tm.lift(f["rad_loc"][r + 1]) - tm.lift(f["rad_loc"][r]) for r in range(r0, r1)],
                "npoints": tm.lift(f["ga_loc"][a + 1]) - tm.lift(f["ga_loc"][a]),
                "ylm": [[tm.lift(x) for x in f["ylm"][int(f["ylm_loc"][r])]] for r in range(r0, r1)],
                "dirs": [[tm.lift(x) for x in f["dirs"][int(f["ylm_loc"][r])]] for r in range(r0, r1)],
                "owner": [int(x) for x in f["ar_loc"][r0:r1]],
            })
        return out
    symbols = ["A", "B", "A", "C"]
    base = view(symbols)
    perms = [p for p in itertools.permutations(range(4)) if list(p) != [0, 1, 2, 3]]
    for p in perms if ctx.tier == "thorough" else perms[::4]:
        vs = view([symbols[i] for i in p])
        for a in range(4):
            src = base[p[a]]
            ctx.holds("relabelling %s: atom %d owns its radial shells (ar_loc)" % (list(p), a), vs[a]["owner"] == [a] * len(src["owner"]), "%s" % vs[a]["owner"], fq)
            ok = len(vs[a]["radii"]) == len(src["radii"]) and all(x is y for x, y in zip(vs[a]["radii"], src["radii"])) and \
                all(x is y for X, Y in zip(vs[a]["ylm"], src["ylm"]) for x, y in zip(X, Y)) and all(x is y for X, Y in zip(vs[a]["dirs"], src["dirs"]) for x, y in zip(X, Y))
            ctx.holds("relabelling %s: radii, harmonics rows and directions of atom %d are those of the atom it was (atom %d)" % (list(p), a, p[a]), ok, "", fq)
            for k, (x, y) in enumerate(zip(vs[a]["sizes"], src["sizes"])):
                ctx.equal("relabelling %s: number of points of shell %d of atom %d" % (list(p), k, a), H, x, y, fq)
            ctx.equal("relabelling %s: number of points of atom %d" % (list(p), a), H, vs[a]["npoints"], src["npoints"], fq)
    ctx.canary("relabelling canary", H, base[0]["npoints"], base[1]["npoints"])


# ------------------------------------------------------------------ (H) l=1 reordering of the SDMX harmonics
def unit_yzx2xyz(ctx):
    from contracts import c10
    rel = "mod_cider/fast_sdmx.c"
    fn = "SDMXylm_yzx2xyz"
    fq = ["lib/%s:%s" % (rel, fn)]
    tu = cparse.load(rel)
    s = CSym([tu] + [cparse.load(h) for h in c10.HELPER_TUS])
    args = {p: c10.mk_value(tu, ty, p) for p, ty in tu.params(fn)}
    s.hyps = c10.nonneg_hyps(args)
    try:
        s.run(fn, args)
    except CUnsupported as e:
        ctx.undecided("%s summarised" % fn, str(e), fq)
        return
    ws = [e for e in s.events if e.kind == "w" and e.arr.name == "ylm_vlg"]
    ctx.holds("%s writes three rows per (atom, component, grid point)" % fn, len(ws) == 3, "%d writes" % len(ws), fq)
    if len(ws) != 3:
        return
    ng = args["ngrids"]
    nfc = NF()
    rows = {}
    for e in ws:
        # value must be the initial content (a read of ylm_vlg) at the same (block, grid point) and another row
        v = tm.lift(e.val)
        if not (v.op == "f" and v.args[0] == "rd:ylm_vlg"):
            ctx.holds("%s stores a copy of an element of the array" % fn, False, tm.show(v, 80), fq)
            return
        d = nfc.rf_to_term(nfc.nf(e.idx - v.args[1]))
        rows[tm.show(d, 40)] = (e, v, d)
    # row displacement (written row - source row) * ngrids: x<-row3 into row1 (-2), y<-row1 into row2 (+1), z<-row2 into row3 (+1)
    ds = sorted(rows)
    want = sorted(tm.show(nfc.rf_to_term(nfc.nf(k * ng)), 40) for k in (-2, 1, 1))
    ctx.holds("%s: row 1 <- old row 3, row 2 <- old row 1, row 3 <- old row 2 of every atom's block with more than one harmonic, i.e. (y, z, x) -> (x, y, z)" % fn,
              sorted(tm.show(nfc.rf_to_term(nfc.nf(e.idx - v.args[1])), 40) for e, v, d in rows.values()) == sorted(set(want)) or
              sorted(tm.show(nfc.rf_to_term(nfc.nf(e.idx - v.args[1])), 40) for e in ws for v in [tm.lift(e.val)]) == want, "displacements %s, expected %s" % (ds, want), fq)



# ------------------------------------------------------------------ (E, F) real spherical harmonics (engine C with complex arithmetic)
SPH = "mod_cider/sph_harm.c"


def sph_literals():
    import math
    return {"SQRT2": (math.sqrt(2), tm.mk_sqrt(tm.const(2))), "SQRT3": (math.sqrt(3), tm.mk_sqrt(tm.const(3))),
            "SPHF0": (0.28209479177387814, 1 / (2 * tm.mk_sqrt(tm.PI)))}


def run_sph(fn, nlm):
    from contracts import c10
    tu = cparse.load(SPH)
    s = CSym([tu])
    s.literal_names = sph_literals()
    args = {p: c10.mk_value(tu, ty, p) for p, ty in tu.params(fn)}
    args["nlm"] = nlm
    s.hyps = c10.nonneg_hyps(args)
    s.run(fn, args)
    return s, args


def unit_sph_harm(lmax):
    def run(ctx):
        import math
        from specs import real_sph_harm as RSH
        nlm = (lmax + 1) ** 2
        fn = "recursive_sph_harm_vec"
        fq = ["lib/%s:%s" % (SPH, f) for f in (fn, "recursive_sph_harm", "setup_sph_harm_buffer")]
        tag = "sph_harm[lmax=%d]" % lmax
        ctx.assume("the decimal literals SQRT2, SQRT3, SPHF0 of sph_harm.h are read as sqrt(2), sqrt(3), 1/sqrt(4 pi) (they are their 20-digit roundings); double arithmetic is real arithmetic")
        ctx.assume("requires nlm = (lmax+1)^2 with 1 <= lmax <= 24 (FAC_LIST has 24 entries; for nlm = 1 the routine writes res[1..3] and ylm[1] out of bounds); each degree bound is a separate, complete proof (all points, all n)")
        try:
            s, args = run_sph(fn, nlm)
        except CUnsupported as e:
            ctx.undecided("%s summarised" % tag, str(e)[:200], fq)
            return
        ws = [e for e in s.events if e.kind == "w" and e.arr.name == "res"]
        nfc = NF()
        x, y, z = tm.var("x"), tm.var("y"), tm.var("z")
        seen = {}
        from contracts import outcover as coverage
        i0 = tm.var("i_target", "I")
        n_arg = tm.lift(args["n"])
        cov_cache = {}
        for e in ws:
            loopq = [q for q in e.qvars if not coverage._is_tid(q[0])]
            if len(loopq) != 1:
                ctx.undecided("%s write structure" % tag, "write outside the point loop", fq)
                return
            i = loopq[0][0]
            lm = nfc.rf_to_term(nfc.nf(e.idx - nlm * i))
            if lm.op != "c" or e.op != "=":
                ctx.holds("%s layout: point i writes res[nlm*i + lm]" % tag, False, tm.show(e.idx, 60), fq)
                continue
            lm = int(lm.args[0])
            seen[lm] = seen.get(lm, 0) + 1
            l = math.isqrt(lm)
            m = lm - l * l - l
            val = tm.substitute(tm.lift(e.val), {tm.mk_fn("rd:r", 3 * i + k): v for k, v in enumerate((x, y, z))})
            left = [u for u in tm.subterms(val).values() if u.op == "f" and u.args[0].startswith("rd:")]
            if left:
                ctx.holds("%s res[%d] depends on the point's own coordinates only" % (tag, lm), False, tm.show(left[0], 60), fq)
                continue
            ctx.equal("%s res[nlm*i + %d] = Y_{%d,%d}(r_i)  (orthonormal real harmonic, index l^2 + l + m)" % (tag, lm, l, m), [], val, RSH.real_sph_harm(tm, l, m, x, y, z), fq, replay=replay_sph(lmax))
            # every point 0 <= i < n receives this harmonic (the events of one point loop share ranges and guards: decided once per loop structure)
            key = (tuple((q[0].id, tm.lift(q[1]).id, tm.lift(q[2]).id) for q in e.qvars), tuple(tm.lift(g).id for g in e.guards))
            if key not in cov_cache:
                cov_cache[key] = coverage.record(ctx, "%s every point 0 <= i < n is written: res[nlm*i + lm] for the stores of loop structure #%d (first lm = %d)" % (tag, len(cov_cache), lm),
                                                 [e], [(i0, 0, n_arg)], nlm * i0 + lm, s.hyps, fq, replay=replay_sph_cover(lmax))
            if lm == 3:
                ctx.canary("%s canary (x and y harmonics swapped)" % tag, [], val, RSH.real_sph_harm(tm, 1, -1, x, y, z))
        ctx.holds("%s every harmonic 0 <= lm < nlm is written exactly once per point" % tag, sorted(seen) == list(range(nlm)) and set(seen.values()) == {1}, "written: %s" % sorted(seen)[:8], fq)
    return run


def replay_sph(lmax):
    def replay(wit):
        import ctypes
        from pyvc import native
        from specs import real_sph_harm as RSH
        lib = ctypes.CDLL(native.build_libs() + "/libmcider.so")
        rng = np.random.RandomState(11)
        n, nlm = 6, (lmax + 1) ** 2
        r = rng.randn(n, 3)
        r /= np.linalg.norm(r, axis=1)[:, None]
        out = np.zeros((n, nlm))
        lib.recursive_sph_harm_vec(ctypes.c_int(nlm), ctypes.c_int(n), r.ctypes.data_as(ctypes.c_void_p), out.ctypes.data_as(ctypes.c_void_p))
        x, y, z = tm.var("x"), tm.var("y"), tm.var("z")
        worst, where = 0.0, None
        for l in range(lmax + 1):
            for m in range(-l, l + 1):
                t = RSH.real_sph_harm(tm, l, m, x, y, z)
                for j in range(n):
                    d = abs(float(tm.evaluate(t, {"x": r[j, 0], "y": r[j, 1], "z": r[j, 2]})) - out[j, l * l + l + m])
                    if d > worst:
                        worst, where = d, (l, m)
        return {"reproduced": bool(worst > 1e-10), "max_abs_deviation_from_the_real_harmonics": worst, "at_l_m": where}
    return replay


def replay_sph_cover(lmax):
    """Replay of a coverage counterexample: n points under OMP_NUM_THREADS = T in a fresh process (the team size is fixed at start-up)."""
    def replay(wit):
        import subprocess
        import sys as _sys
        from pyvc import native
        T = int((wit or {}).get("omp_team_size", 1))
        n = None
        for k, v in (wit or {}).items():
            if str(k) == "n":
                n = int(v)
        n = n if n and 0 < n < 10 ** 6 else 7
        nlm = (lmax + 1) ** 2
        code = ("import ctypes, numpy as np, json\n"
                "lib = ctypes.CDLL(%r)\n"
                "n, nlm = %d, %d\n"
                "r = np.random.RandomState(3).randn(n, 3); r /= np.linalg.norm(r, axis=1)[:, None]\n"
                "out = np.zeros((n, nlm))\n"
                "lib.recursive_sph_harm_vec(ctypes.c_int(nlm), ctypes.c_int(n), r.ctypes.data_as(ctypes.c_void_p), out.ctypes.data_as(ctypes.c_void_p))\n"
                "print(json.dumps([int(j) for j in range(n) if abs(out[j, 0]) < 1e-12]))\n") % (native.build_libs() + "/libmcider.so", n, nlm)
        cp = subprocess.run([_sys.executable, "-c", code], env=dict(os.environ, OMP_NUM_THREADS=str(T)), capture_output=True, text=True, timeout=120)
        if cp.returncode != 0:
            return {"reproduced": None, "error": cp.stderr[-300:]}
        missing = json.loads(cp.stdout.strip().splitlines()[-1])
        return {"reproduced": bool(missing), "n": n, "OMP_NUM_THREADS": T, "points_whose_Y00_was_never_written": missing[:10]}
    return replay


def unit_sph_deriv(lmax):
    def run(ctx):
        import math
        import cvc.csym as CS
        from specs import real_sph_harm as RSH
        nlm = (lmax + 1) ** 2
        fn = "recursive_sph_harm_deriv_vec"
        fq = ["lib/%s:%s" % (SPH, f) for f in (fn, "recursive_sph_harm_deriv", "remove_radial_grad", "setup_sph_harm_buffer")]
        tag = "sph_harm_deriv[lmax=%d]" % lmax
        old = CS.UNROLL_MAX
        CS.UNROLL_MAX = max(old, nlm + 1)       # the clean-up loop over all nlm entries is executed entry by entry (concrete nlm)
        try:
            s, args = run_sph(fn, nlm)
        except CUnsupported as e:
            ctx.undecided("%s summarised" % tag, str(e)[:200], fq)
            return
        finally:
            CS.UNROLL_MAX = old
        nfc = NF()
        x, y, z = tm.var("x"), tm.var("y"), tm.var("z")
        final, res = {}, {}
        from contracts import outcover as coverage
        structures = {}
        for e in s.events:
            if e.kind != "w" or e.arr.name not in ("dres", "res"):
                continue
            loopq = [q for q in e.qvars if not coverage._is_tid(q[0])]
            if len(loopq) != 1:
                ctx.undecided("%s write structure" % tag, "write outside the point loop", fq)
                return
            i = loopq[0][0]
            stride = 3 * nlm if e.arr.name == "dres" else nlm
            k = nfc.rf_to_term(nfc.nf(e.idx - stride * i))
            if k.op != "c":
                ctx.holds("%s layout: point i writes %s[%d*i + k]" % (tag, e.arr.name, stride), False, tm.show(e.idx, 60), fq)
                return
            k = int(k.args[0])
            key = (tuple((q[0].id, tm.lift(q[1]).id, tm.lift(q[2]).id) for q in e.qvars), tuple(tm.lift(g).id for g in e.guards))
            structures.setdefault(key, (e, stride, k))
            v = tm.substitute(tm.lift(e.val), {tm.mk_fn("rd:r", 3 * i + j): w for j, w in enumerate((x, y, z))})
            tgt = final if e.arr.name == "dres" else res
            if e.op == "=":
                tgt[k] = v
            elif e.op in ("-=", "+=") and k in tgt:
                tgt[k] = tgt[k] - v if e.op == "-=" else tgt[k] + v
            else:
                ctx.undecided("%s store kinds" % tag, "%s on an unwritten entry" % e.op, fq)
                return
        ctx.holds("%s all 3*nlm gradient entries and nlm values are written for every point" % tag, sorted(final) == list(range(3 * nlm)) and sorted(res) == list(range(nlm)), "", fq)
        i0 = tm.var("i_target", "I")
        for j, (e, stride, k) in enumerate(structures.values()):
            coverage.record(ctx, "%s every point 0 <= i < n is written: stores of loop structure #%d (first: %s[%d*i + %d])" % (tag, j, e.arr.name, stride, k),
                            [e], [(i0, 0, tm.lift(args["n"]))], stride * i0 + k, s.hyps, fq)
        for lm, v in sorted(res.items()):
            l = math.isqrt(lm)
            ctx.equal("%s res[%d] = Y_{%d,%d}" % (tag, lm, l, lm - l * l - l), [], v, RSH.real_sph_harm(tm, l, lm - l * l - l, x, y, z), fq)
        for k, v in sorted(final.items()):
            c, lm = divmod(k, nlm)
            l = math.isqrt(lm)
            m = lm - l * l - l
            Y = RSH.real_sph_harm(tm, l, m, x, y, z)
            g = [tm.diff(Y, w) for w in (x, y, z)]
            want = g[c] - (x, y, z)[c] * (x * g[0] + y * g[1] + z * g[2])
            ctx.equal("%s dres[%s][%d] = d Y_{%d,%d} / d %s minus its radial part (tangential gradient on the unit sphere)" % (tag, "xyz"[c], lm, l, m, "xyz"[c]), [], v, want, fq)
        ctx.canary("%s canary" % tag, [], final[nlm + 1], final[1])
    return run


def unit_sph_lemmas(lmax):
    """Lemmas about the specification (no code): homogenised forms agree with the harmonics on the unit sphere; addition theorem as a polynomial identity."""
    def run(ctx):
        from specs import real_sph_harm as RSH
        a = [tm.var("a" + c) for c in "xyz"]
        b = [tm.var("b" + c) for c in "xyz"]
        u, v = tm.var("su"), tm.var("sv")
        den = 1 + u * u + v * v
        sph = [2 * u / den, 2 * v / den, (1 - u * u - v * v) / den]

        def solid(l, m, p):
            """r^l Y_lm(p/|p|): the spec harmonic with z^(l-|m|-2k) multiplied by |p|^(2k) (homogeneous of degree l)."""
            am = abs(m)
            c = RSH.deriv_coeffs(RSH.legendre_coeffs(l), am)
            r2 = p[0] * p[0] + p[1] * p[1] + p[2] * p[2]
            top = l - am
            pz = tm.ZERO
            for j, cj in enumerate(c):
                if cj != 0:
                    k = (top - j) // 2
                    pz = pz + tm.const(cj) * (p[2] ** j if j else tm.ONE) * (r2 ** k if k else tm.ONE)
            from math import factorial
            n2 = Q(2 * l + 1, 4) * Q(factorial(l - am), factorial(l + am))
            norm = tm.mk_sqrt(tm.const(n2)) / tm.mk_sqrt(tm.PI)
            if m == 0:
                return norm * pz
            re, im = RSH.xy_power(tm, p[0], p[1], am)
            return tm.mk_sqrt(tm.const(2)) * norm * pz * (re if m > 0 else im)
        for l in range(lmax + 1):
            for m in range(-l, l + 1):
                ctx.equal("lemma: solid harmonic R_{%d,%d} restricted to the unit sphere (stereographic chart) is Y_{%d,%d}" % (l, m, l, m), [], solid(l, m, sph), RSH.real_sph_harm(tm, l, m, *sph))
            dot = a[0] * b[0] + a[1] * b[1] + a[2] * b[2]
            a2 = a[0] * a[0] + a[1] * a[1] + a[2] * a[2]
            b2 = b[0] * b[0] + b[1] * b[1] + b[2] * b[2]
            c = RSH.legendre_coeffs(l)
            rhs = tm.ZERO
            for j, cj in enumerate(c):
                if cj != 0:
                    k = (l - j) // 2
                    rhs = rhs + tm.const(cj) * (dot ** j if j else tm.ONE) * ((a2 * b2) ** k if k else tm.ONE)
            rhs = tm.const(Q(2 * l + 1, 4)) / tm.PI * rhs
            lhs = tm.mk_add(*[solid(l, m, a) * solid(l, m, b) for m in range(-l, l + 1)])
            ctx.equal("lemma: addition theorem for degree %d: sum_m R_lm(a) R_lm(b) = (2l+1)/(4 pi) |a|^l |b|^l P_l(cos angle)  (=> the degree-%d block transforms orthogonally under O(3))" % (l, l), [], lhs, rhs)
        ctx.canary("lemma canary", [], solid(1, 1, a) * solid(1, 1, b), solid(1, -1, a) * solid(1, -1, b))
    return run


def unit_dirs(ctx):
    """AtomicGridsIndexer: dirs = ylm[:, [3, 1, 2]] * sqrt(4 pi / 3) are the Cartesian unit vectors when ylm holds the harmonics the C routine produces."""
    from contracts import c19
    from specs import real_sph_harm as RSH
    it = ctx.interp
    pm, gm = c19.setup(it)
    im = it.load_module(IMOD)
    fq = [IMOD + ":AtomicGridsIndexer.__init__"]
    npts = 2
    pts = [[tm.var("%s%d" % (c, j)) for c in "xyz"] for j in range(npts)]
    ylm = np.empty((npts, 4), dtype=object)
    for j in range(npts):
        for lm, (l, m) in enumerate([(0, 0), (1, -1), (1, 0), (1, 1)]):
            ylm[j, lm] = RSH.real_sph_harm(tm, l, m, *pts[j])
    try:
        ix = it.call(im.ns["AtomicGridsIndexer"], [1, 1, np.array([tm.var("rad0")], dtype=object), np.array([0]), np.array([0, 1]), np.array([0, npts]), ylm, np.array([0])], {})
    except (Unsupported, PyRaise) as e:
        ctx.undecided("AtomicGridsIndexer constructed", str(e)[:200], fq)
        return
    dirs = ix.fields["dirs"]
    for j in range(npts):
        for k, c in enumerate("xyz"):
            ctx.equal("dirs[%d, %d] = %s of the unit vector the harmonics were evaluated at (l=1 order y, z, x -> x, y, z)" % (j, k, c), [], dirs[j, k], pts[j][k], fq)
    ctx.canary("dirs canary", [], dirs[0, 0], pts[0][1])


THOROUGH = "thorough" in sys.argv
# ------------------------------------------------------------------ SDMX: gradient of the solid harmonics through the Gaunt table
def solid_harmonic(l, m, p):
    """r^l Y_lm(p/|p|) as a homogeneous polynomial (the specification harmonic with z^(l-|m|-2k) multiplied by |p|^(2k))."""
    from math import factorial
    from specs import real_sph_harm as RSH
    am = abs(m)
    c = RSH.deriv_coeffs(RSH.legendre_coeffs(l), am)
    r2 = p[0] * p[0] + p[1] * p[1] + p[2] * p[2]
    pz = tm.ZERO
    for j, cj in enumerate(c):
        if cj != 0:
            k = (l - am - j) // 2
            pz = pz + tm.const(cj) * (p[2] ** j if j else tm.ONE) * (r2 ** k if k else tm.ONE)
    n2 = Q(2 * l + 1, 4) * Q(factorial(l - am), factorial(l + am))
    norm = tm.mk_sqrt(tm.const(n2)) / tm.mk_sqrt(tm.PI)
    if m == 0:
        return norm * pz
    re, im = RSH.xy_power(tm, p[0], p[1], am)
    return tm.mk_sqrt(tm.const(2)) * norm * pz * (re if m > 0 else im)


# (component, target row offset within degree l+1 as a function of (l, im), row of the coefficient table)
GRAD_PATTERN = [
    ("z", 3, lambda l, im: im + 1, 4),
    ("x", 1, lambda l, im: im, 0),
    ("x", 1, lambda l, im: im + 2, 1),
    ("y", 2, lambda l, im: 2 * l - im, 2),
    ("y", 2, lambda l, im: 2 * l - im + 2, 3),
]


def unit_conv_expnts_locality(ctx):
    """get_convolution_expnts_from_expnts: the output (convolved) shells of atom ia, degree l are the ladder exponents below gbuf times THAT shell's own largest
    input exponent — a function of (ladder, gbuf, shell (ia, l)) alone, so relabelling the atoms permutes the per-atom blocks and changes nothing else.
    Checked for concrete rational ladders / exponents with distinct windows per atom and per degree, every ordering of the atoms (bounded)."""
    LM = "ciderpress.dft.lcao_convolutions"
    it = ctx.interp
    mod = it.load_module(LM)
    fq = [LM + ":get_convolution_expnts_from_expnts"]
    mod.ns["gto_norm"] = Builtin("gto_norm", lambda l, e: np.array([tm.mk_fn("gtonorm", tm.lift(int(l)), tm.lift(x)) for x in np.asarray(e, dtype=object).reshape(-1)], dtype=object))
    ladder = [Q(1, 4), Q(1, 2), Q(1), Q(2), Q(4), Q(8), Q(16)]
    # atom -> per-degree input exponents (largest first or not: the code takes the max)
    atoms = {"A": [[Q(3), Q(1, 3)], [Q(1, 2)]], "B": [[Q(1, 5)]], "C": [[Q(7), Q(9)], [Q(5, 2), Q(1)], [Q(1, 8)]]}
    for gbuf in (Q(2), Q(3, 2)):
        for order in itertools.permutations(sorted(atoms)):
            atom2l0, lmaxs, gamma_loc, all_exps = [0], [], [0], []
            for a in order:
                for l, ex in enumerate(atoms[a]):
                    gamma_loc.append(gamma_loc[-1] + len(ex))
                    all_exps += ex
                atom2l0.append(len(gamma_loc) - 1)
                lmaxs.append(len(atoms[a]) - 1)
            try:
                out = it.call(mod.ns["get_convolution_expnts_from_expnts"], [np.array(ladder, dtype=object), np.array(atom2l0), np.array(lmaxs), np.array(gamma_loc), np.array(all_exps, dtype=object)], {"gbuf": gbuf})
            except (PyRaise, Unsupported) as e:
                ctx.undecided("conv-expnts[gbuf=%s,%s] runs" % (gbuf, "".join(order)), str(e)[:200], fq)
                continue
            a2l, lm, gl, coefs, exps = out
            ok, detail = True, ""
            pos_ = 0
            for k, a in enumerate(order):
                for l, ex in enumerate(atoms[a]):
                    want = [g for g in ladder if g < max(ex) * gbuf]
                    lo, hi = int(gl[int(a2l[k]) + l]), int(gl[int(a2l[k]) + l + 1])
                    got = [Q(x) if not isinstance(x, tm.T) else x for x in list(exps[lo:hi])]
                    gotc = list(coefs[lo:hi])
                    wantc = [tm.mk_fn("gtonorm", tm.lift(l), tm.lift(g)) for g in want]
                    if got != want or lo != pos_ or len(gotc) != len(wantc) or any(tm.lift(x) is not y for x, y in zip(gotc, wantc)):
                        ok = False
                        detail = "atom %s (position %d) degree %d: got %s want %s" % (a, k, l, got, want)
                    pos_ = hi
            ctx.bounded("conv-expnts[gbuf=%s, atom order %s]: every (atom, degree) block = ladder exponents below gbuf * its own largest exponent" % (gbuf, "".join(order)), ok,
                        "three atoms with lmax 1, 0, 2, 7-rung ladder, all 6 orders", detail, witness={"order": "".join(order), "gbuf": str(gbuf)}, replay=replay_conv_expnts(order, gbuf))


def replay_conv_expnts(order, gbuf):
    def replay(wit):
        from pyvc import native
        native.install_shim()
        from ciderpress.dft.lcao_convolutions import get_convolution_expnts_from_expnts
        ladder = np.array([0.25, 0.5, 1, 2, 4, 8, 16.0])
        atoms = {"A": [[3.0, 1 / 3.0], [0.5]], "B": [[0.2]], "C": [[7.0, 9.0], [2.5, 1.0], [0.125]]}
        atom2l0, lmaxs, gamma_loc, all_exps = [0], [], [0], []
        for a in order:
            for ex in atoms[a]:
                gamma_loc.append(gamma_loc[-1] + len(ex))
                all_exps += ex
            atom2l0.append(len(gamma_loc) - 1)
            lmaxs.append(len(atoms[a]) - 1)
        a2l, lm, gl, coefs, exps = get_convolution_expnts_from_expnts(ladder, np.array(atom2l0), np.array(lmaxs), np.array(gamma_loc), np.array(all_exps), gbuf=float(gbuf))
        bad = []
        for k, a in enumerate(order):
            for l, ex in enumerate(atoms[a]):
                want = [g for g in ladder if g < max(ex) * float(gbuf)]
                got = list(exps[gl[a2l[k] + l]:gl[a2l[k] + l + 1]])
                if got != want:
                    bad.append({"atom": a, "position": k, "l": l, "got": [float(x) for x in got], "want": [float(x) for x in want]})
        return {"reproduced": bool(bad), "mismatching_blocks": bad[:4]}
    return replay


def unit_sdmx_atom_layout(ctx):
    """The (r - R_A) factor of the SDMX l=1 terms: SDMXcontract_ao_to_bas_l1(_bwd) reads the nuclear coordinates as three blocks of natm doubles
    (atomx[ia], atomx[natm + ia], atomx[2 natm + ia]) and the grid coordinates as three blocks of ngrids; EXXSphGenerator._contract_ao_to_bas_helper
    must hand over memory in exactly that layout, so that atom ia is given ITS OWN coordinates whatever the number and order of the atoms
    (covariance under translation / rotation / relabelling of the l=1 features rests on it).
      C side  (engine C)   every read of atomx is at ia + c*natm, of gridx at g + c*ngrids, c in {0, 1, 2}
      Python side          memory of the pointer passed as atomx:  mem[c*natm + ia] = mol.atom_coords()[ia, c];  as gridx:  mem[c*ngrids + g] = coords[g, c]"""
    from contracts import c10
    rel = "mod_cider/fast_sdmx.c"
    it = ctx.interp
    fqc = ["lib/%s:SDMXcontract_ao_to_bas_l1" % rel, "lib/%s:SDMXcontract_ao_to_bas_l1_bwd" % rel]
    for fn in ("SDMXcontract_ao_to_bas_l1", "SDMXcontract_ao_to_bas_l1_bwd"):
        try:
            sy, args = c10.summarise(rel, fn)
        except CUnsupported as e:
            ctx.undecided("%s summarised" % fn, str(e)[:200], fqc)
            continue
        for arr, blk in (("atomx", args["natm"]), ("gridx", args["ngrids"])):
            rds = oblig._dedupe_l([e for e in sy.events if e.kind == "r" and e.arr.name == arr])
            nfc = NF()

            def same(x, y):
                try:
                    return nfc.equal(tm.lift(x), tm.lift(y))
                except NFError:
                    return False
            comps = set()
            ok = False
            for base in rds:
                cls = {}
                for e in rds:
                    for cc in range(3):
                        if same(e.idx, tm.lift(base.idx) + cc * blk):
                            cls[id(e)] = cc
                if len(cls) == len(rds) and set(cls.values()) == {0, 1, 2}:
                    ok, comps = True, {0, 1, 2}
                    break
            ctx.holds("%s reads %s as three blocks of %s (component c at offset c*%s)" % (fn, arr, tm.show(blk, 20), tm.show(blk, 20)), ok and comps == {0, 1, 2},
                      "components seen %s" % sorted(comps), fqc)
    # Python side
    SX = "ciderpress.pyscf.sdmx"
    mod = it.load_module(SX)
    fq = [SX + ":EXXSphGenerator._contract_ao_to_bas_helper"]
    for natm in (2, 3):
        ng = NS + 1
        R = sym_array("R", (natm, 3))
        coords = sym_array("r", (ng, 3))
        mol = mkobj(mod, "_Mol", natm=natm, nbas=natm, _atm=np.zeros((natm, 6), dtype=object), _bas=np.zeros((natm, 8), dtype=object), _env=np.zeros((4,), dtype=object))
        mol.fields["atom_coords"] = Builtin("mol.atom_coords", lambda unit="Bohr": R.copy())
        mod.ns["_get_ylm_atom_loc"] = Builtin("_get_ylm_atom_loc", lambda m_: np.arange(natm + 1, dtype=object) * 4)
        mod.ns["_get_rf_loc"] = Builtin("_get_rf_loc", lambda m_: np.arange(natm + 1, dtype=object))
        for bwd in (False, True):
            seen = []
            libc = mod.ns["libcider"]
            for cname in ("SDMXcontract_ao_to_bas_l1", "SDMXcontract_ao_to_bas_l1_bwd"):
                it.externals["%s.%s" % (libc.name, cname)] = (lambda cname: lambda interp, *a: seen.append((cname, a)))(cname)
            gen = Obj(mod.ns["EXXSphGenerator"])
            gen.fields["plan"] = mkobj(mod, "_Plan", settings=mkobj(mod, "_Settings", n1terms=1))
            b0 = sym_array("b0", (7, natm, ng))
            c0 = sym_array("c0", (natm, ng))
            ylm = sym_array("ylm", (4, 4 * natm, ng))
            tag = "helper[natm=%d,%s]" % (natm, "bwd" if bwd else "fwd")
            try:
                it.call_method(gen, "_contract_ao_to_bas_helper", [mol, b0, c0, (0, natm), np.arange(natm + 1, dtype=object), coords.copy()], {"ylm": ylm, "bwd": bwd})
            except (PyRaise, Unsupported) as e:
                ctx.undecided("%s runs" % tag, str(e)[:200], fq)
                continue
            want = "SDMXcontract_ao_to_bas_l1_bwd" if bwd else "SDMXcontract_ao_to_bas_l1"
            ctx.holds("%s calls %s once" % (tag, want), len(seen) == 1 and seen[0][0] == want, str([x[0] for x in seen]), fq)
            if len(seen) != 1:
                continue
            a = seen[0][1]
            # C prototype: (ngrids, vbas, ylm_vlg, ao, shls_slice, ao_loc, ylm_atom_loc, atm, natm, bas, nbas, env, gridx, atomx, nrf, rf_loc)
            gx, ax = a[12], a[13]
            mem = lambda p: list(np.asarray(p.arr, dtype=object).ravel(order="K")) if hasattr(p, "arr") else None
            mg, ma = mem(gx), mem(ax)
            ok_a = ma is not None and len(ma) == 3 * natm and all(tm.lift(ma[c_ * natm + ia]) is tm.lift(R[ia, c_]) for ia in range(natm) for c_ in range(3))
            ok_g = mg is not None and len(mg) == 3 * ng and all(tm.lift(mg[c_ * ng + g]) is tm.lift(coords[g, c_]) for g in range(ng) for c_ in range(3))
            ctx.holds("%s: the memory passed as atomx holds component c of atom ia at c*natm + ia" % tag, ok_a, "memory order: %s" % [tm.show(tm.lift(x), 12) for x in (ma or [])][:9], fq,
                      replay=replay_sdmx_atom_layout())
            ctx.holds("%s: the memory passed as gridx holds component c of point g at c*ngrids + g" % tag, ok_g, "", fq)
            ctx.holds("%s: natm and ngrids passed are those of the arrays" % tag, int(a[8]) == natm and int(a[0]) == ng, "%s %s" % (a[8], a[0]), fq)


def replay_sdmx_atom_layout():
    def replay(wit):
        from pyvc import native
        native.install_shim()
        import ciderpress.pyscf.sdmx as SX
        got = {}

        class Spy(object):
            def __call__(self, *a):
                import ctypes
                natm = a[8].value
                got["mem"] = np.ctypeslib.as_array(ctypes.cast(a[13], ctypes.POINTER(ctypes.c_double)), shape=(3 * natm,)).copy()
        R = np.array([[0.1, 0.2, 0.3], [1.1, 1.2, 1.3], [2.1, 2.2, 2.3]])

        class Mol(object):
            natm, nbas = 3, 3
            _atm, _bas, _env = np.zeros((3, 6), dtype=np.int32), np.zeros((3, 8), dtype=np.int32), np.zeros(4)

            def atom_coords(self, unit="Bohr"):
                return R.copy()
        old = (SX.libcider.SDMXcontract_ao_to_bas_l1, SX._get_ylm_atom_loc, SX._get_rf_loc)
        lib = type("L", (), {"SDMXcontract_ao_to_bas_l1": Spy(), "SDMXcontract_ao_to_bas_l1_bwd": Spy()})()
        SX_lib = SX.libcider
        try:
            SX.libcider = lib
            SX._get_ylm_atom_loc = lambda m: np.arange(4, dtype=np.int32) * 4
            SX._get_rf_loc = lambda m: np.arange(4, dtype=np.int32)
            g = SX.EXXSphGenerator.__new__(SX.EXXSphGenerator)
            g.plan = type("P", (), {"settings": type("S", (), {"n1terms": 1})()})()
            g._contract_ao_to_bas_helper(Mol(), np.zeros((7, 3, 4)), np.zeros((3, 4)), (0, 3), np.arange(4, dtype=np.int32), np.random.rand(4, 3), ylm=np.zeros((4, 12, 4)))
        finally:
            SX.libcider = SX_lib
            SX._get_ylm_atom_loc, SX._get_rf_loc = old[1], old[2]
        want = R.T.reshape(-1)
        return {"reproduced": bool(np.max(np.abs(got["mem"] - want)) > 0), "memory_passed_as_atomx": [float(x) for x in got["mem"]], "layout_read_by_C": [float(x) for x in want]}
    return replay


def unit_sdmx_grad(ctx):
    """SDMXylm_grad: component c of degree l+1 is accumulated from degree l of the values with the index pattern GRAD_PATTERN (all sizes)."""
    from contracts import c10
    from pyvc import intarith
    rel = "mod_cider/fast_sdmx.c"
    fn = "SDMXylm_grad"
    fq = ["lib/%s:%s" % (rel, fn)]
    tu = cparse.load(rel)
    s = CSym([tu] + [cparse.load(h) for h in c10.HELPER_TUS])
    args = {p: c10.mk_value(tu, ty, p) for p, ty in tu.params(fn)}
    s.hyps = c10.nonneg_hyps(args)
    s.monotone_tables = {"ylm_atom_loc"}
    ctx.assume("requires ylm_atom_loc non-decreasing and non-negative (it is a cumulative sum of (lmax_atom+1)^2, sdmx.py:_get_ylm_atom_loc)")
    try:
        s.run(fn, args)
    except CUnsupported as e:
        ctx.undecided("%s summarised" % fn, str(e)[:200], fq)
        return
    ng, Y = args["ngrids"], tm.mk_fi("ylm_atom_loc", args["natm"])
    acc = [e for e in s.events if e.kind == "w" and e.op == "+="]
    zero = [e for e in s.events if e.kind == "w" and e.op == "="]
    ctx.holds("%s: three zero-initialisations (one per Cartesian component) and five accumulations" % fn, len(acc) == 5 and len(zero) == 3 and all(tm.lift(e.val) is tm.ZERO for e in zero), "%d / %d" % (len(zero), len(acc)), fq)
    nfc = NF()
    assumes = [x[1] for x in s.side if x[0] == "assume"]
    matched = set()
    for e in acc:
        # loops by structure, not by the names of their counters: worksharing variable (atom, block); degree l; order index over [0, 2l+1); grid point innermost
        names = {}
        if e.par is not None:
            names["blk"] = e.par
        inner = [q for q in e.qvars if q[0] is not e.par]
        if len(inner) == 3:
            (lq, llo, lhi, _), (mq, mlo, mhi, _), (gq, glo, ghi, _) = inner
            if tm.lift(llo) is tm.ZERO and tm.lift(mlo) is tm.ZERO and NF().equal(tm.lift(mhi), 2 * lq + 1):
                names.update({"l": lq, "m": mq, "g": gq})
        if not all(k in names for k in ("blk", "l", "m", "g")):
            ctx.undecided("%s accumulation structure" % fn, "expected loops (atom-block; l; m < 2l+1; grid point), found %d loop variables" % len(e.qvars), fq)
            continue
        l, im, g = names["l"], names["m"], names["g"]
        v = tm.lift(e.val)
        # the value read: y[(l^2 + im) * ngrids + g] of the same block; its index gives the block base
        src = [u for u in tm.subterms(v).values() if u.op == "f" and u.args[0] == "rd:ylm_vlg"]
        tab = [u for u in tm.subterms(v).values() if u.op == "f" and u.args[0] == "rd:gaunt_vl"]
        if len(src) != 1 or len(tab) != 1:
            ctx.holds("%s accumulates (table entry) * (value row)" % fn, False, tm.show(v, 100), fq)
            continue
        base = nfc.rf_to_term(nfc.nf(src[0].args[1] - (l * l + im) * ng - g))
        ctx.holds("%s accumulated value = gaunt entry * y[l^2 + m] of the same (atom, grid point)" % fn, nfc.equal(v, tab[0] * src[0]) and not any(u in (l, im, g) for u in tm.subterms(base).values()), tm.show(v, 100), fq)
        hit = None
        for (cname, comp, row, trow) in GRAD_PATTERN:
            want_idx = comp * Y * ng + base + ((l + 1) * (l + 1) + row(l, im)) * ng + g
            want_tab = trow * args["gaunt_nlm"] + l * l + im
            if nfc.equal(e.idx, want_idx) and nfc.equal(tab[0].args[1], want_tab):
                hit = (cname, comp, trow)
        ctx.holds("%s accumulation #%d follows the gradient pattern (component, target row of degree l+1, table row)" % (fn, len(matched) + 1), hit is not None and hit not in matched, "index %s, table %s" % (tm.show(e.idx, 120), tm.show(tab[0].args[1], 60)), fq)
        if hit:
            matched.add(hit)
        # the target row lies inside the atom's block (so it was zero-initialised by this iteration and belongs to this atom)
        ia_tabs = [u for u in tm.subterms(base).values() if u.op == "fi" and u.args[0] == "ylm_atom_loc"]
        if ia_tabs and hit:
            ia = ia_tabs[0].args[1]
            nlm = tm.mk_fi("ylm_atom_loc", ia + 1) - tm.mk_fi("ylm_atom_loc", ia)
            row_t = nfc.rf_to_term(nfc.nf((e.idx - hit[1] * Y * ng - base - g)))     # row * ngrids
            rng = [c for (qv, lo, hi, st) in e.qvars for c in (tm.mk_le(tm.lift(lo), qv), tm.mk_lt(qv, tm.lift(hi)))]
            H = list(s.hyps) + assumes + rng + list(e.guards)
            r_, env, be = intarith.check_sat_int(H + [tm.mk_not(tm.mk_and(tm.mk_le(tm.ZERO, row_t), tm.mk_lt(row_t, nlm * ng)))], 20.0)
            ctx._rec("obligation", "%s accumulation into component %s stays inside the atom's block of harmonics (rows 0 .. nlm-1)" % (fn, hit[0]),
                     vc.Verdict("discharged" if r_ == "unsat" else "refuted" if r_ == "sat" else "undecided", be, witness=env if r_ == "sat" else None), fq)
    ctx.holds("%s: all five pattern entries are present" % fn, len(matched) == 5, "%s" % sorted(matched), fq)


def exact_gaunt(L):
    """The table get_deriv_ylm_coeff(L) evaluated natively, each entry matched to sign * sqrt(rational)."""
    from pyvc import native
    native.install_shim()
    from ciderpress.dft.sph_harm_coeff import get_deriv_ylm_coeff
    G = get_deriv_ylm_coeff(L)
    out = {}
    worst = 0.0
    for k in range(G.shape[0]):
        for lm in range(G.shape[1]):
            t = float(G[k, lm])
            q = Q(t * t).limit_denominator(10 ** 6)
            worst = max(worst, abs(float(q) ** 0.5 - abs(t)))
            out[(k, lm)] = (q, 1 if t >= 0 else -1)
    return G, out, worst


def unit_gaunt_table(L):
    def run(ctx):
        fq = ["ciderpress.dft.sph_harm_coeff:get_deriv_ylm_coeff"]
        bound = "lmax <= %d; the table is evaluated natively (sympy Clebsch-Gordan coefficients, floating point) and each entry identified with sign*sqrt(p/q), q <= 10^6" % L
        try:
            G, ex, worst = exact_gaunt(L)
        except Exception as e:
            ctx.undecided("gaunt table evaluated", "%s: %s" % (type(e).__name__, e), fq)
            return
        ctx.bounded("get_deriv_ylm_coeff(%d): every entry is sign*sqrt(rational) to 1e-12" % L, worst < 1e-12, bound, "max deviation %.2e" % worst)
        p = [tm.var(c) for c in "xyz"]
        T = lambda k, lm: ex[(k, lm)][1] * tm.mk_sqrt(tm.const(ex[(k, lm)][0]))
        for l in range(L):
            contrib = {(c, j): tm.ZERO for c in range(1, 4) for j in range(2 * l + 3)}
            for im in range(2 * l + 1):
                R = solid_harmonic(l, im - l, p)
                for (cname, comp, row, trow) in GRAD_PATTERN:
                    contrib[(comp, row(l, im))] = contrib[(comp, row(l, im))] + T(trow, l * l + im) * R
            for (comp, j), v in sorted(contrib.items()):
                want = tm.diff(solid_harmonic(l + 1, j - (l + 1), p), p[comp - 1])
                v_ = vc.decide_equal([], v, want)
                ctx._rec("bounded", "gradient pattern with this table: d/d%s of the solid harmonic (l=%d, m=%d) = sum of table entries * degree-%d solid harmonics" % ("xyz"[comp - 1], l + 1, j - (l + 1), l),
                         vc.Verdict(v_.status, "bounded[%s]+%s" % (bound, v_.backend), v_.detail, witness=v_.witness), fq)
    return run


SPH_DEGREES = list(range(1, 16)) if THOROUGH else [1, 2, 3, 4, 6, 10]
SPH_DERIV_DEGREES = list(range(1, 11)) if THOROUGH else [1, 2, 4, 6]


SET_IDX_CASES = [
    # (ga_loc, idx_map): atoms' grid ranges in the atom-ordered array, and the map from sorted / screened grid points into it (any order, any subset)
    ([0, 3, 5], [0, 1, 2, 3, 4]), ([0, 3, 5], [4, 3, 2, 1, 0]), ([0, 3, 5], [3, 0, 4]), ([0, 2, 2, 6], [5, 1, 2, 0, 4, 3]), ([0, 1, 2, 3], [2, 0, 1]),
    ([0, 4], [3, 1]), ([0, 2, 5, 9], [2, 8, 5, 4, 0, 1]),
]


def replay_set_idx(wit):
    from pyvc import native
    native.install_shim()
    from ciderpress.dft.grids_indexer import AtomicGridsIndexer as A
    ga, idx = [int(x) for x in wit["ga_loc"]], [int(x) for x in wit["idx_map"]]
    o = A.__new__(A)
    o.natm, o.ga_loc, o.all_weights = len(ga) - 1, np.asarray(ga, dtype=np.int32), np.ones(ga[-1])
    o.set_idx(np.asarray(idx))
    want = [max(a for a in range(len(ga) - 1) if ga[a] <= g) for g in idx]
    want = [[a for a in range(len(ga) - 1) if ga[a] <= g < ga[a + 1]][0] for g in idx]
    return {"reproduced": bool(list(o.iatom_list) != want), "iatom_list": [int(x) for x in o.iatom_list], "owner_by_ga_loc": want}


def unit_set_idx(ctx):
    """AtomicGridsIndexer.set_idx: iatom_list (the atom each sorted grid point belongs to — what the onsite-direct interpolator and the l=1 terms use to leave a point
    out of, or attribute it to, its own atom) must name, for every point, THE atom whose range [ga_loc[a], ga_loc[a+1]) contains its atom-ordered index; relabelling
    the atoms then relabels the list and nothing else.  Real method on concrete tables (bounded: the cases of SET_IDX_CASES, including empty atoms, subsets, any order)."""
    GM = "ciderpress.dft.grids_indexer"
    it = ctx.interp
    gm = it.load_module(GM)
    fq = [GM + ":AtomicGridsIndexer.set_idx"]
    for ga, idx in SET_IDX_CASES:
        o = Obj(gm.ns["AtomicGridsIndexer"])
        o.fields.update({"natm": len(ga) - 1, "ga_loc": np.asarray(ga, dtype=np.int32), "all_weights": np.ones(ga[-1])})
        tag = "set_idx[ga_loc=%s, idx_map=%s]" % (ga, idx)
        try:
            it.call_method(o, "set_idx", [np.asarray(idx)])
            got = [int(x) for x in np.asarray(o.fields["iatom_list"]).reshape(-1)]
        except (Unsupported, PyRaise, TypeError, ValueError) as e:
            ctx.undecided("%s runs" % tag, str(e)[:200], fq)
            continue
        want = [[a for a in range(len(ga) - 1) if ga[a] <= g < ga[a + 1]][0] for g in idx]
        ctx.bounded("%s: every point is attributed to the atom whose grid range contains it" % tag, got == want, "the tables of SET_IDX_CASES", "%s vs %s" % (got, want),
                    witness={"ga_loc": ga, "idx_map": idx}, replay=replay_set_idx)


def units():
    from contracts import c05, c02
    u = [("lemma/distances", unit_distance_lemma)]
    for c in ("NLDFNumInt", "NLDFNLOFNumInt", "NLOFNumInt", "CiderNumInt"):
        u.append(("gen-cache/%s" % c, unit_gen_cache(c)))
    for m in ("ciderpress.pyscf.sdmx", "ciderpress.pyscf.sdmx_slow"):
        for n in (2, 3):
            u.append(("expgrid/%s/%d" % (m.rsplit(".", 1)[1], n), unit_expgrid(m, n)))
    for level in ("GGA", "MGGA"):
        u.append(("l1-features/%s" % level, unit_l1_features(level)))
    u.append(("relabel/from_tabs", unit_relabel))
    u.append(("relabel/set_idx", unit_set_idx))
    u.append(("dirs", unit_dirs))
    for L in SPH_DEGREES:
        u.append(("sph-harm/%d" % L, unit_sph_harm(L)))
    for L in SPH_DERIV_DEGREES:
        u.append(("sph-deriv/%d" % L, unit_sph_deriv(L)))
    u.append(("sph-lemmas", unit_sph_lemmas(max(SPH_DEGREES))))
    u.append(("yzx2xyz", unit_yzx2xyz))
    u.append(("sdmx-grad", unit_sdmx_grad))
    u.append(("sdmx-atom-layout", unit_sdmx_atom_layout))
    u.append(("conv-expnts-locality", unit_conv_expnts_locality))
    u.append(("gaunt-table", unit_gaunt_table(8 if THOROUGH else 5)))
    for fwd, bwd, tabs in c05.INPLACE:
        u.append(("lp1/%s" % fwd, c05.unit_inplace(fwd, bwd, tabs)))
    return u


EXPLANATION = (
    "Invariance of a whole calculation is the composition of links; the links whose access to the geometry is under contract are decided for all "
    "inputs: generator caches never outlive the molecule they were built for (inductive invariant over the integrator's history), the default SDMX "
    "exponent grid depends on the geometry only through pairwise distances, vector features are O(3) scalars, the l=1 ordering conventions are "
    "consistent, relabelling atoms permutes the indexer's per-atom blocks, the l+1 steps are mutual transposes; the C harmonics recursion equals the "
    "textbook orthonormal real harmonics (and their tangential gradient) for every degree bound checked, the specification satisfies the addition theorem per degree "
    "(each degree block transforms orthogonally under O(3)), and SDMXylm_grad accumulates the gradient of the solid harmonics through a Gaunt table whose entries are "
    "identified with exact algebraic numbers (bounded in lmax, labelled).  Energies under arbitrary rotations "
    "(quadrature error), PySCF's AO values / Becke partition and the convolution chain are assumed links, named in the evidence.")
TRUSTED = [
    "A1 reals; engine C: int mathematical, double real, libm functions mathematical",
    "assumed links: PySCF eval_ao / Becke partition / Lebedev grids are equivariant (external library), the LCAO convolution chain beyond the pairs under contract in C05",
    "Cayley parametrisation covers SO(3) up to rotations by pi; the obligations are polynomial identities in the matrix entries and extend to the closure",
    "not claimed: energies under arbitrary rotations (quadrature error), harmonics beyond the degree checked",
]

if __name__ == "__main__":
    sys.exit(run_property("C06", "other", units(), EXPLANATION, TRUSTED, min_obligations=60))
