"""C18 — bookkeeping is consistent, bad input is rejected (Python part; C buffer safety is in the C engine part).

Contracts:
  every settings class:   for constructor arguments the constructor accepts,
        len(get_feat_usps()) = nfeat = len(ueg_vector()) = len(get_reasonable_normalizer())   (or NotImplementedError for a power / pow the
        class documents as unsupported);  FeatureSettings: get_feat_loc()[-1] = nfeat, the three concatenations in family order
        -> list lengths are enumerated exhaustively up to a stated bound (labelled bounded), numeric parameters are symbolic where they matter
  rejection (all paths reach `raise`), symbolic offending value:
        unknown spec / mode / sl_level / rho_mult / rho_damp strings; wrong parameter count; non-list parameters; a0 <= 0, grad_mul < 0, tau_mul < 0;
        l=1 dot index d < -1 or d >= nl1; alpha0 <= 0, lambd <= 1, nalpha <= 0 or non-integer, nspin not in {1,2}, negative cutoffs (plans);
        FeatNormalizerList._check_shape wrong ndim / nfeat; ModelWithNormalizer size mismatch
  NLDFAuxiliaryPlan.eval_feat_exp: with the default flags, an exponent above max(alphas) at a point with rho > rhocut reaches RuntimeError
"""
import itertools
import os
import sys
import warnings

sys.path.insert(0, os.path.dirname(os.path.dirname(os.path.abspath(__file__))))
warnings.filterwarnings("ignore")

import numpy as np
from fractions import Fraction as Q

from pyvc import terms as tm
from pyvc import vc, smt
from pyvc.framework import run_property
from pyvc.interp import Obj, ExcV, Builtin, PyRaise, Unsupported
from contracts.common import *
from contracts.planharness import make_settings, make_plan, install_coef_contract

SMOD = "ciderpress.dft.settings"
PMOD = "ciderpress.dft.plans"
NMOD = "ciderpress.dft.feat_normalizer"
XMOD = "ciderpress.dft.xc_evaluator"
BOUND = "list lengths <= 2 (pows <= 3), every spec string / index pair / count within that"


def outcome(it, thunk):
    """('ok', value) | ('raise', exception name) | ('fork', paths).  Branches on symbolic constants (e.g. `ueg != 0` with ueg a closed
    form in pi) are explored on both sides without calling the solver; all sides must agree for a single outcome."""
    old = it.prune
    it.prune = False
    try:
        ps = all_paths(it, thunk)
    finally:
        it.prune = old
    kinds = set()
    for o, v, pc, _ in ps:
        if o == "return":
            try:
                n = len(v) if not isinstance(v, np.ndarray) else v.shape[0]
            except TypeError:
                n = None
            kinds.add(("ok", n))
        else:
            kinds.add(("raise", v.cls.name if isinstance(v, ExcV) else str(v)))
    if len(kinds) != 1:
        return ("fork", sorted(str(k) for k in kinds))
    o, v, pc, _ = ps[0]
    if o == "return":
        return ("ok", v)
    return ("raise", v.cls.name if isinstance(v, ExcV) else str(v))


def check_lengths(ctx, label, it, ctor, fq, nonloc_note=""):
    """Constructor outcome + length agreement.  Returns 'rejected' / 'ok' / 'bad'."""
    r = outcome(it, ctor)
    if r[0] == "raise":
        return "rejected:" + r[1]
    if r[0] != "ok":
        ctx.bounded("%s.ctor" % label, False, BOUND, "constructor forks on concrete arguments")
        return "bad"
    obj = r[1]
    res = {}
    for name, thunk in (("nfeat", lambda: it.getattr(obj, "nfeat")), ("usps", lambda: it.call_method(obj, "get_feat_usps", [])),
                        ("ueg", lambda: it.call_method(obj, "ueg_vector", [])), ("norms", lambda: it.call_method(obj, "get_reasonable_normalizer", []))):
        o = outcome(it, thunk)
        res[name] = o
    nfeat = res["nfeat"][1] if res["nfeat"][0] == "ok" else None
    problems = []
    for name in ("usps", "ueg", "norms"):
        o = res[name]
        if o[0] == "raise":
            if o[1] != "NotImplementedError":
                problems.append("%s raises %s for an accepted settings object" % (name, o[1]))
            continue
        if o[0] != "ok":
            problems.append("%s forks" % name)
            continue
        n = len(o[1]) if not isinstance(o[1], np.ndarray) else o[1].shape[0]
        if n != nfeat:
            problems.append("len(%s) = %d but nfeat = %s" % (name, n, nfeat))
    ctx.bounded(label, not problems, BOUND, "; ".join(problems), witness={"object": label, "problems": problems} if problems else None)
    return "ok" if not problems else "bad"


def unit_semilocal(ctx):
    it = ctx.interp
    m = it.load_module(SMOD)
    S = m.ns["SemilocalSettings"]
    fq = [SMOD + ":SemilocalSettings.__init__"]
    for mode in ("nst", "npa", "ns", "np"):
        check_lengths(ctx, "Semilocal[%s]" % mode, it, lambda: it.call(S, [mode], {}), fq)
    for bad in ("__unknown__", "", "NST", "mgga", None, 3):
        r = outcome(it, lambda: it.call(S, [bad], {}))
        ctx.holds("Semilocal.rejects[%r]" % (bad,), r == ("raise", "ValueError"), "outcome %s" % (r[:2],), fq)


def sublists(items, maxlen):
    out = [[]]
    for n in range(1, maxlen + 1):
        for c in itertools.product(items, repeat=n):
            out.append(list(c))
    return out


def unit_nldf_lengths(version):
    def run(ctx):
        it = ctx.interp
        m = it.load_module(SMOD)
        l0all, l1all, jall = list(m.ns["ALLOWED_I_SPECS_L0"]), list(m.ns["ALLOWED_I_SPECS_L1"]), list(m.ns["ALLOWED_J_SPECS"])
        cls = {"i": "NLDFSettingsVI", "j": "NLDFSettingsVJ", "ij": "NLDFSettingsVIJ", "k": "NLDFSettingsVK"}[version]
        fq = [SMOD + ":%s.%s" % (cls, f) for f in ("__init__", "nfeat", "get_feat_usps", "ueg_vector", "get_reasonable_normalizer")]
        n_ok = n_rej = 0
        counter = [0]
        stride = 1 if ctx.tier == "thorough" else {"i": 9, "ij": 29, "j": 1, "k": 1}[version]
        if stride > 1:
            ctx.assume("quick tier: every %d-th constructor-argument combination of the NLDF v%s enumeration is checked (all of them in the thorough tier)" % (stride, version))
        for level in ("MGGA", "GGA"):
            npar = 3 if level == "MGGA" else 2
            th = [Q(1), Q(0), Q(1, 32)][:npar]

            def par(spec):
                return [Q(3, 2), Q(0), Q(1, 16)][:npar] + ([Q(1)] if spec == "se_erf_rinv" else [])
            for rm in ("one", "expnt"):
                if version in ("i", "ij"):
                    l0s = [[]] + [[s] for s in l0all] + [[l0all[0], l0all[3]], [l0all[1], l0all[1]]]
                    l1s = [[], [l1all[0]], [l1all[1]], list(l1all)]
                else:
                    l0s, l1s = [[]], [[]]
                js = sublists(jall, 2) if version in ("j", "ij") else ([[], ["se"], ["se", "se"]] if version == "k" else [[]])
                if version == "ij":
                    js = [[], [jall[0]], [jall[1], jall[3]]]
                for l0 in l0s:
                    for l1 in l1s:
                        idx = list(range(-1, len(l1)))
                        pairs = [(a, b) for a in idx for b in idx]
                        dotsets = [[]] + [[p] for p in pairs] + ([[pairs[0], pairs[-1]]] if len(pairs) > 1 else [])
                        if version not in ("i", "ij"):
                            dotsets = [[]]
                        for dots in dotsets:
                            for jspecs in js:
                                fps = [par(s) for s in jspecs]
                                if version == "i":
                                    args = [level, th, rm, l0, l1, dots]
                                elif version == "j":
                                    args = [level, th, rm, jspecs, fps]
                                elif version == "k":
                                    args = [level, th, rm, fps, "exponential"]
                                else:
                                    args = [level, th, rm, l0, l1, dots, jspecs, fps]
                                counter[0] += 1
                                if counter[0] % stride:
                                    continue
                                lab = "%s[%s,%s,l0=%s,l1=%s,dots=%s,j=%s]" % (cls[-2:], level, rm, l0, l1, dots, jspecs)
                                it.stmt_budget = 2000000      # the interpreter's runaway guard is per constructor call, not per enumeration
                                r = check_lengths(ctx, lab, it, lambda: it.call(m.ns[cls], list(args), {}), fq)
                                if r.startswith("rejected"):
                                    ctx.bounded(lab + ".valid-arguments-accepted", False, BOUND, "valid arguments were rejected: " + r)
                                    n_rej += 1
                                else:
                                    n_ok += 1
        ctx.holds("%s.enumeration-non-empty" % cls, n_ok > 10, "%d objects checked" % n_ok, fq)
    return run


def unit_other_lengths(ctx):
    it = ctx.interp
    m = it.load_module(SMOD)
    fqn = lambda c: [SMOD + ":%s.%s" % (c, f) for f in ("__init__", "nfeat", "get_feat_usps", "ueg_vector", "get_reasonable_normalizer")]
    # SADM / SDMX family: pows over {0,1,2}, counts from 0 to len(pows)+1 (the +1 must be rejected)
    for mode in ("smooth", "exact"):
        check_lengths(ctx, "SADM[%s]" % mode, it, lambda: it.call(m.ns["SADMSettings"], [mode], {}), fqn("SADMSettings"))
    r = outcome(it, lambda: it.call(m.ns["SADMSettings"], ["__unknown__"], {}))
    ctx.holds("SADM.rejects-unknown-mode", r == ("raise", "ValueError"), str(r[:2]), fqn("SADMSettings"))
    powsets = [[], [0], [1], [2], [0, 1], [2, 0], [0, 1, 2], [1, 1, 2]]
    for pows in powsets:
        check_lengths(ctx, "SDMX[%s]" % pows, it, lambda: it.call(m.ns["SDMXSettings"], [list(pows)], {}), fqn("SDMXSettings"))
        for nd in range(0, len(pows) + 2):
            r = check_lengths(ctx, "SDMXG[%s,nd=%d]" % (pows, nd), it, lambda: it.call(m.ns["SDMXGSettings"], [list(pows), nd], {}), fqn("SDMXGSettings"))
            if nd > len(pows):
                ctx.holds("SDMXG[%s,nd=%d].count-beyond-pows-rejected" % (pows, nd), r.startswith("rejected"), r, fqn("SDMXGSettings"))
            r = check_lengths(ctx, "SDMX1[%s,n1=%d]" % (pows, nd), it, lambda: it.call(m.ns["SDMX1Settings"], [list(pows), nd], {}), fqn("SDMX1Settings"))
            if nd > len(pows):
                ctx.holds("SDMX1[%s,n1=%d].count-beyond-pows-rejected" % (pows, nd), r.startswith("rejected"), r, fqn("SDMX1Settings"))
            for n1 in range(0, len(pows) + 2):
                r = check_lengths(ctx, "SDMXG1[%s,nd=%d,n1=%d]" % (pows, nd, n1), it, lambda: it.call(m.ns["SDMXG1Settings"], [list(pows), nd, n1], {}), fqn("SDMXG1Settings"))
                if nd > len(pows) or n1 > len(pows):
                    ctx.holds("SDMXG1[%s,nd=%d,n1=%d].count-beyond-pows-rejected" % (pows, nd, n1), r.startswith("rejected"), r, fqn("SDMXG1Settings"),
                              witness={"pows": pows, "nd": nd, "n1": n1}, replay=replay_sdmxg1(pows, nd, n1))
    # SDMXFull
    dicts = [{}, {Q(1): ([0, 1, 2], [3, 1, 2, 1])}, {Q(1): ([0], [1, 0, 0, 0]), Q(2): ([1, 2], [2, 1, 1, 0])}, {Q(3, 2): ([0, 1], [2, 2, 2, 2]), Q(1): ([2], [1, 1, 1, 1])}]
    for k, d in enumerate(dicts):
        check_lengths(ctx, "SDMXFull[%d]" % k, it, lambda: it.call(m.ns["SDMXFullSettings"], [dict(d)], {}), fqn("SDMXFullSettings"))
    for k, d in enumerate([{Q(1, 2): ([0], [1, 0, 0, 0])}, {Q(1): ([0], [2, 0, 0, 0])}, {Q(1): ([0], [1, 0, 0])}, {Q(1): [0]}, {"a": ([0], [1, 0, 0, 0])}]):
        r = outcome(it, lambda: it.call(m.ns["SDMXFullSettings"], [dict(d)], {}))
        ctx.holds("SDMXFull.rejects[%d]" % k, r[0] == "raise" and r[1] in ("ValueError", "TypeError"), str(r[:2]), fqn("SDMXFullSettings"))
    # FracLapl
    for slist in ([], [Q(1, 2)], [Q(1, 2), Q(-1, 2)]):
        n = len(slist)
        for nk0 in range(0, n + 2):
            for nk1 in range(0, n + 2):
                idx = list(range(-1, nk1))
                dotsets = [[]] + [[(a, b)] for a in idx for b in idx][:4]
                for l1d in dotsets:
                    for nd1 in range(0, n + 2):
                        ldsets = [[]] + ([[(-1, 0)], [(0, 0)]] if nd1 > 0 else [])
                        for ldd in ldsets:
                            for ndd in range(0, nd1 + 2):
                                lab = "FracLapl[s=%d,nk0=%d,nk1=%d,l1=%s,nd1=%d,ld=%s,ndd=%d]" % (n, nk0, nk1, l1d, nd1, ldd, ndd)
                                r = check_lengths(ctx, lab, it, lambda: it.call(m.ns["FracLaplSettings"], [list(slist), nk0, nk1, list(l1d)], {"nd1": nd1, "ld_dots": list(ldd), "ndd": ndd}),
                                                  fqn("FracLaplSettings"))
                                if nk0 > n or nk1 > n or nd1 > n or ndd > nd1:
                                    ctx.holds(lab + ".count-beyond-slist-rejected", r.startswith("rejected"), r, fqn("FracLaplSettings"))
    # ld_dots index pairs must be validated like l1_dots (they index the nd1 vector features)
    for bad in ([(0, 2)], [(5, 0)], [(-2, 0)], [(0,)], [3]):
        r = check_lengths(ctx, "FracLapl[ld_dots=%s]" % (bad,), it, lambda: it.call(m.ns["FracLaplSettings"], [[Q(1, 2)], 1, 1, []], {"nd1": 1, "ld_dots": list(bad), "ndd": 0}), fqn("FracLaplSettings"))
        ctx.holds("FracLapl.bad-ld_dots-rejected[%s]" % (bad,), r.startswith("rejected"), "accepted: %s" % r, fqn("FracLaplSettings"),
                  witness={"ld_dots": str(bad)}, replay=replay_fl_ld(bad))


def replay_sdmxg1(pows, nd, n1):
    def replay(wit):
        import ciderpress.dft.settings as S
        try:
            st = S.SDMXG1Settings(list(pows), nd, n1)
        except Exception as e:
            return {"reproduced": False, "rejected_with": type(e).__name__}
        lens = {"nfeat": st.nfeat}
        for nme, f in (("usps", st.get_feat_usps), ("ueg", st.ueg_vector), ("norms", st.get_reasonable_normalizer)):
            try:
                lens[nme] = len(f())
            except Exception as e:
                lens[nme] = type(e).__name__
        return {"reproduced": bool(len(set(str(v) for v in lens.values())) > 1), "pows": list(pows), "nd": nd, "n1": n1, "lengths": lens}
    return replay


def replay_fl_ld(bad):
    def replay(wit):
        import ciderpress.dft.settings as S
        try:
            st = S.FracLaplSettings([0.5], 1, 1, [], nd1=1, ld_dots=list(bad), ndd=0)
        except Exception as e:
            return {"reproduced": False, "rejected_with": type(e).__name__}
        out = {"accepted": True, "nfeat": st.nfeat}
        try:
            out["usps"] = len(st.get_feat_usps())
        except Exception as e:
            out["usps"] = type(e).__name__
        return {"reproduced": True, "ld_dots": str(bad), "detail": out}
    return replay


def unit_feature_settings(ctx):
    it = ctx.interp
    m = it.load_module(SMOD)
    nm = it.load_module(NMOD)
    th = [Q(1), Q(0), Q(1, 32)]
    fq = [SMOD + ":FeatureSettings." + f for f in ("nfeat", "get_feat_loc", "get_feat_usps", "ueg_vector", "get_reasonable_normalizer", "assign_reasonable_normalizer")]
    sls = [("nst", it.call(m.ns["SemilocalSettings"], ["nst"], {})), ("np", it.call(m.ns["SemilocalSettings"], ["np"], {}))]
    nldfs = [("none", None), ("vi", it.call(m.ns["NLDFSettingsVI"], ["MGGA", th, "one", ["se_ap", "se"], ["se_grad"], [(0, 0), (-1, 0)]], {})),
             ("vij", it.call(m.ns["NLDFSettingsVIJ"], ["MGGA", th, "one", ["se_ap"], ["se_grad"], [(0, 0)], ["se", "se_ar2"], [[Q(2), Q(0), Q(1, 16)], [Q(1), Q(0), Q(1, 16)]]], {}))]
    nlofs = [("none", None), ("fl", it.call(m.ns["FracLaplSettings"], [[Q(1, 2), Q(-1, 2)], 2, 1, [(-1, 0), (0, 0)]], {}))]
    sdmxs = [("none", None), ("sdmxg1", it.call(m.ns["SDMXG1Settings"], [[0, 1, 2], 2, 1], {})), ("sadm", it.call(m.ns["SADMSettings"], ["smooth"], {}))]
    n = 0
    for (a, sl), (b, nl), (c, no), (d, sx) in itertools.product(sls, nldfs, nlofs, sdmxs):
        lab = "FeatureSettings[%s,%s,%s,%s]" % (a, b, c, d)
        fs = it.call(m.ns["FeatureSettings"], [], {"sl_settings": sl, "nldf_settings": nl, "nlof_settings": no, "sdmx_settings": sx})
        parts = [x for x in (sl, nl, no, sx) if x is not None]
        nfeat = it.getattr(fs, "nfeat")
        loc = it.call_method(fs, "get_feat_loc", [])
        usps = it.call_method(fs, "get_feat_usps", [])
        ueg = it.call_method(fs, "ueg_vector", [])
        norms = it.call_method(fs, "get_reasonable_normalizer", [])
        exp_usps, exp_ueg, exp_n, offs = [], [], [], [0]
        for p in parts:
            exp_usps += list(it.call_method(p, "get_feat_usps", []))
            exp_ueg += list(it.call_method(p, "ueg_vector", []))
            exp_n += list(it.call_method(p, "get_reasonable_normalizer", []))
            offs.append(offs[-1] + it.getattr(p, "nfeat"))
        ok = (int(loc[-1]) == nfeat == len(usps) == len(ueg) == len(norms) == offs[-1])
        ctx.bounded(lab + ".lengths", ok, BOUND, "nfeat=%s loc=%s len(usps)=%d len(ueg)=%d len(norms)=%d" % (nfeat, list(loc), len(usps), len(ueg), len(norms)))
        same_order = all(tm.lift(x) is tm.lift(y) for x, y in zip(usps, exp_usps)) and all(tm.lift(x) is tm.lift(y) for x, y in zip(ueg, exp_ueg)) and \
            all((x is None and y is None) or (isinstance(x, Obj) and isinstance(y, Obj) and x.cls is y.cls and all(tm.lift(x.fields[k]) is tm.lift(y.fields[k]) for k in x.fields))
                for x, y in zip(norms, exp_n))
        ctx.bounded(lab + ".family-order", same_order, BOUND, "concatenations are not in the order sl, nldf, nlof, sdmx")
        # family offsets used by the integrators
        famloc = [int(v) for v in loc]
        want = [0, it.getattr(sl, "nfeat")]
        want.append(want[-1] + (it.getattr(nl, "nfeat") if nl is not None else 0))
        want.append(want[-1] + (it.getattr(no, "nfeat") if no is not None else 0))
        want.append(want[-1] + (it.getattr(sx, "nfeat") if sx is not None else 0))
        ctx.bounded(lab + ".offsets", famloc[:5] == want, BOUND, "get_feat_loc %s vs %s" % (famloc, want))
        # normalizer list built from the recommendation has the model's size
        it.call_method(fs, "assign_reasonable_normalizer", [])
        nl_ = it.getattr(fs, "normalizers")
        ctx.bounded(lab + ".normalizer-size", it.getattr(nl_, "nfeat") == nfeat, BOUND, "")
        n += 1
    ctx.holds("FeatureSettings.enumeration", n == 36, "%d combinations" % n, fq)


# --------------------------------------------------------------------------------------- rejection with symbolic offending values
def all_raise(ctx, name, it, hyps, thunk, fq, allowed=("ValueError",), replay=None):
    it.hyps = list(hyps)
    ps = all_paths(it, thunk)
    bad, unknown = [], []
    for o, v, pc, _ in ps:
        if o == "raise" and isinstance(v, ExcV) and v.cls.name in allowed:
            continue
        r, env, be = smt.check_sat(list(hyps) + list(pc), ctx.timeout)
        if r == "sat":
            bad.append((o, str(v)[:80], jsonable_env(env)))
        elif r != "unsat":
            unknown.append((o, str(v)[:80]))
    if unknown and not bad:
        ctx.undecided(name, "feasibility of a non-rejecting path is unknown to z3/cvc5: %s" % unknown[:1], fq)
        return
    ctx.holds(name, not bad and len(ps) > 0, "paths that do not reject: %s" % bad[:2], fq, witness={"paths": bad[:2]} if bad else None, replay=replay)


def jsonable_env(env):
    return {k: str(v) for k, v in (env or {}).items()}


def unit_reject_params(ctx):
    it = ctx.interp
    m = it.load_module(SMOD)
    a0, g, t = tm.var("a0"), tm.var("grad_mul"), tm.var("tau_mul")
    fqp = [SMOD + ":NLDFSettings._check_params", SMOD + ":NLDFSettings.__init__"]
    VJ, VI, VK = m.ns["NLDFSettingsVJ"], m.ns["NLDFSettingsVI"], m.ns["NLDFSettingsVK"]
    good = [Q(1), Q(0), Q(1, 32)]
    # theta params
    for level, n in (("MGGA", 3), ("GGA", 2)):
        base = [a0, g, t][:n]
        cases = [("a0<=0", [tm.mk_le(a0, tm.ZERO)]), ("grad_mul<0", [tm.mk_lt(tm.ZERO, a0), tm.mk_lt(g, tm.ZERO)])]
        if n == 3:
            cases.append(("tau_mul<0", [tm.mk_lt(tm.ZERO, a0), tm.mk_le(tm.ZERO, g), tm.mk_lt(t, tm.ZERO)]))
        for lab, hy in cases:
            all_raise(ctx, "theta[%s].%s rejected" % (level, lab), it, hy, lambda: it.call(VI, [level, list(base), "one", ["se"], [], []], {}), fqp)
            all_raise(ctx, "feat_params[%s].%s rejected" % (level, lab), it, hy, lambda: it.call(VJ, [level, good[:n], "one", ["se"], [list(base)]], {}), fqp)
            all_raise(ctx, "vk feat_params[%s].%s rejected" % (level, lab), it, hy, lambda: it.call(VK, [level, good[:n], "one", [list(base)], "exponential"], {}), fqp)
        # valid symbolic parameters are accepted (reachability witness of the precondition)
        hy = [tm.mk_lt(tm.ZERO, a0), tm.mk_le(tm.ZERO, g), tm.mk_le(tm.ZERO, t)]
        it.hyps = list(hy)
        ps = all_paths(it, lambda: it.call(VJ, [level, list(base), "one", ["se"], [list(base)]], {}))
        ok = [p for p in ps if p[0] == "return"]
        ctx.holds("valid-params[%s] accepted" % level, len(ok) >= 1 and all(p[0] == "return" or not smt.feasible(hy + p[2], 3.0)[0] for p in ps), "", fqp)
        # wrong parameter counts / types
        for cnt in range(0, 6):
            p = [Q(1), Q(0), Q(1, 32), Q(1), Q(1), Q(1)][:cnt]
            for spec in ("se", "se_erf_rinv"):
                want = n + (1 if spec == "se_erf_rinv" else 0)
                r = outcome(it, lambda: it.call(VJ, [level, good[:n], "one", [spec], [list(p)]], {}))
                if cnt == want:
                    ctx.holds("param-count[%s,%s,%d] accepted" % (level, spec, cnt), r[0] == "ok", str(r[:2]), fqp)
                else:
                    ctx.holds("param-count[%s,%s,%d] rejected" % (level, spec, cnt), r[0] == "raise" and r[1] in ("ValueError", "IndexError"), str(r[:2]), fqp)
            if cnt != n:
                r = outcome(it, lambda: it.call(VI, [level, list(p), "one", ["se"], [], []], {}))
                ctx.holds("theta-count[%s,%d] rejected" % (level, cnt), r[0] == "raise" and r[1] in ("ValueError", "IndexError"), str(r[:2]), fqp)
        for badp in ((Q(1), Q(0), Q(1, 32))[:n], "abc", None, {"a0": 1}, [Q(1), "x", Q(0)][:n]):
            r = outcome(it, lambda: it.call(VI, [level, badp, "one", ["se"], [], []], {}))
            ctx.holds("theta-type[%s,%s] rejected" % (level, type(badp).__name__ if not isinstance(badp, list) else "list-with-str"), r == ("raise", "ValueError"), str(r[:2]), fqp)
    # strings
    n = 3
    for lab, thunk in (
        ("sl_level", lambda: it.call(VI, ["LDA", good, "one", ["se"], [], []], {})),
        ("rho_mult", lambda: it.call(VI, ["MGGA", good, "two", ["se"], [], []], {})),
        ("l0 spec", lambda: it.call(VI, ["MGGA", good, "one", ["se", "__unknown__"], [], []], {})),
        ("l0 spec is an l1 spec", lambda: it.call(VI, ["MGGA", good, "one", ["se_grad"], [], []], {})),
        ("l1 spec", lambda: it.call(VI, ["MGGA", good, "one", [], ["se_ap"], []], {})),
        ("j spec", lambda: it.call(VJ, ["MGGA", good, "one", ["se_r2"], [good]], {})),
        ("j specs/params length", lambda: it.call(VJ, ["MGGA", good, "one", ["se", "se"], [good]], {})),
        ("rho_damp", lambda: it.call(VK, ["MGGA", good, "one", [good], "none"], {})),
        ("vij l1 spec", lambda: it.call(m.ns["NLDFSettingsVIJ"], ["MGGA", good, "one", [], ["bad"], [], ["se"], [good]], {})),
        ("vij lengths", lambda: it.call(m.ns["NLDFSettingsVIJ"], ["MGGA", good, "one", [], [], [], ["se"], []], {})),
    ):
        r = outcome(it, thunk)
        ctx.holds("unknown %s rejected" % lab, r == ("raise", "ValueError"), str(r[:2]), fqp)
    # l=1 dot index pairs: symbolic integer d
    d = tm.var("d", "I")
    for cls, mk in (("NLDFSettingsVI", lambda dots: it.call(VI, ["MGGA", good, "one", [], ["se_grad", "se_rvec"], dots], {})),
                    ("NLDFSettingsVIJ", lambda dots: it.call(m.ns["NLDFSettingsVIJ"], ["MGGA", good, "one", [], ["se_grad", "se_rvec"], dots, ["se"], [good]], {})),
                    ("FracLaplSettings", lambda dots: it.call(m.ns["FracLaplSettings"], [[Q(1, 2), Q(1)], 1, 2, dots], {}))):
        fqd = [SMOD + ":_check_l1_dots", SMOD + ":%s.__init__" % cls]
        for lab, hy in (("d<-1", [tm.mk_lt(d, tm.const(-1))]), ("d>=nl1", [tm.mk_le(tm.const(2), d)])):
            all_raise(ctx, "%s dot index %s rejected (first slot)" % (cls, lab), it, hy, lambda: mk([(d, 0)]), fqd)
            all_raise(ctx, "%s dot index %s rejected (second slot)" % (cls, lab), it, hy, lambda: mk([(0, 1), (1, d)]), fqd)
        hy = [tm.mk_le(tm.const(-1), d), tm.mk_lt(d, tm.const(2))]
        it.hyps = list(hy)
        ps = all_paths(it, lambda: mk([(d, 0)]))
        ctx.holds("%s valid dot index accepted" % cls, any(p[0] == "return" for p in ps) and all(p[0] == "return" or not smt.feasible(hy + p[2], 3.0)[0] for p in ps), "", fqd)
        for bad in ([(0,)], [(0, 1, 1)], [0], ["ab"], [None]):
            r = outcome(it, lambda: mk(list(bad)))
            ctx.holds("%s malformed dot %s rejected" % (cls, bad), r[0] == "raise" and r[1] in ("ValueError", "TypeError"), str(r[:2]), fqd)


def replay_smooth_saturation(formula, pinds):
    def replay(wit):
        """Native: the exponents returned with the smooth cutoff by a plan that holds a subset of the interpolation grid must equal those of the plan holding all of it."""
        from pyvc import native
        native.install_shim()
        from ciderpress.dft.plans import NLDFGaussianPlan
        from ciderpress.dft.settings import NLDFSettingsVJ
        st = NLDFSettingsVJ("MGGA", [2.0, 0.3, 0.05], "one", ["se"], [[1.0, 0.1, 0.02]])
        kw = dict(coef_order="gq", alpha_formula=formula, raise_large_expnt_error=False, use_smooth_expnt_cutoff=True)
        full = NLDFGaussianPlan(st, 1, 0.02, 2.0, 5, **kw)
        part = NLDFGaussianPlan(st, 1, 0.02, 2.0, 5, proc_inds=np.array(pinds if pinds is not None else [0, 1]), **kw)
        rng = np.random.RandomState(3)
        rho = np.ascontiguousarray(0.5 + 5 * rng.rand(1, 8))
        sig = np.ascontiguousarray(rng.rand(1, 8))
        tau = np.ascontiguousarray(0.5 + rng.rand(1, 8))
        import ciderpress.dft.plans as P
        real, seen = P.libcider, []

        class Spy(object):
            def __getattr__(self, name):
                f = getattr(real, name)
                if name != "smooth_cider_exponents":
                    return f

                def g(*a):
                    seen.append(float(a[2].value))
                    return f(*a)
                return g
        P.libcider = Spy()
        try:
            a_full = full.eval_feat_exp((rho.copy(), sig.copy(), tau.copy()), i=0)[0]
            a_part = part.eval_feat_exp((rho.copy(), sig.copy(), tau.copy()), i=0)[0]
        finally:
            P.libcider = real
        err = float(np.max(np.abs(a_full - a_part) / np.abs(a_full)))
        amax = float(np.max(full.alphas))
        off = [x for x in seen if abs(x - amax) > 1e-12 * amax]
        return {"reproduced": bool(err > 1e-12 or off or len(seen) < 2), "max relative difference of the exponents (subset vs whole grid)": err, "largest exponent of the grid": amax,
                "saturation values handed to C": seen}
    return replay


def unit_reject_plans(ctx):
    it = ctx.interp
    m = it.load_module(SMOD)
    pm = it.load_module(PMOD)
    install_coef_contract(it, 2)
    st = it.call(m.ns["NLDFSettingsVJ"], ["MGGA", [Q(1), Q(0), Q(1, 32)], "one", ["se"], [[Q(2), Q(0), Q(1, 16)]]], {})
    a, l = tm.var("alpha0"), tm.var("lambd")
    good = [tm.mk_lt(tm.ZERO, a), tm.mk_lt(tm.ONE, l)]
    for kind in ("NLDFGaussianPlan", "NLDFSplinePlan"):
        P = pm.ns[kind]
        fq = [PMOD + ":NLDFAuxiliaryPlan.__init__"]
        all_raise(ctx, "%s alpha0<=0 rejected" % kind, it, [tm.mk_le(a, tm.ZERO)], lambda: it.call(P, [st, 1, a, l, 4], {}), fq)
        all_raise(ctx, "%s lambd<=1 rejected" % kind, it, [tm.mk_lt(tm.ZERO, a), tm.mk_le(l, tm.ONE)], lambda: it.call(P, [st, 1, a, l, 4], {}), fq)
        for nalpha in (0, -3, Q(5, 2), "4", None):
            all_raise(ctx, "%s nalpha=%r rejected" % (kind, nalpha), it, good, lambda: it.call(P, [st, 1, a, l, nalpha], {}), fq, allowed=("ValueError", "TypeError"))
        for nspin in (0, 3, -1, "1"):
            all_raise(ctx, "%s nspin=%r rejected" % (kind, nspin), it, good, lambda: it.call(P, [st, nspin, a, l, 4], {}), fq)
        rc = tm.var("rc")
        all_raise(ctx, "%s rhocut<0 rejected" % kind, it, good + [tm.mk_lt(rc, tm.ZERO)], lambda: it.call(P, [st, 1, a, l, 4], {"rhocut": rc}), fq)
        all_raise(ctx, "%s expcut<0 rejected" % kind, it, good + [tm.mk_lt(rc, tm.ZERO)], lambda: it.call(P, [st, 1, a, l, 4], {"expcut": rc}), fq)
        for kw in ({"coef_order": "xx"}, {"alpha_formula": "lin"}):
            all_raise(ctx, "%s %s rejected" % (kind, kw), it, good, lambda: it.call(P, [st, 1, a, l, 4], dict(kw)), fq)
        all_raise(ctx, "%s settings-of-wrong-type rejected" % kind, it, good, lambda: it.call(P, [it.call(m.ns["SemilocalSettings"], ["nst"], {}), 1, a, l, 4], {}), fq)
    sadm = it.call(m.ns["SADMSettings"], ["smooth"], {})
    sdx = it.call(m.ns["SDMXFullSettings"], [{Q(1): ([0], [1, 0, 0, 0])}], {})
    for kind, st2 in (("SADMPlan", sadm), ("SDMXPlan", it.call(m.ns["SDMXSettings"], [[0, 1]], {})), ("SDMXFullPlan", sdx), ("SDMXIntPlan", it.call(m.ns["SDMXGSettings"], [[0, 1], 1], {}))):
        P = pm.ns[kind]
        fq = [PMOD + ":%s.__init__" % kind]
        all_raise(ctx, "%s alpha0<=0 rejected" % kind, it, [tm.mk_le(a, tm.ZERO)], lambda: it.call(P, [st2, 1, a, l, 4], {}), fq)
        all_raise(ctx, "%s lambd<=1 rejected" % kind, it, [tm.mk_lt(tm.ZERO, a), tm.mk_le(l, tm.ONE)], lambda: it.call(P, [st2, 1, a, l, 4], {}), fq)
        for nalpha in (0, -1, Q(3, 2)):
            all_raise(ctx, "%s nalpha=%r rejected" % (kind, nalpha), it, good, lambda: it.call(P, [st2, 1, a, l, nalpha], {}), fq)
    # exponent beyond the interpolation range (both ways of laying out the control exponents)
    hyps = []
    stt = make_settings(it, "j", "MGGA", "one", hyps)
    RC = tm.var("rhocut")
    hyps.append(tm.mk_lt(tm.ZERO, RC))
    rho, sigma, tau = sym_array("rho", (NS,)), sym_array("sigma", (NS,)), sym_array("tau", (NS,))
    fq = [PMOD + ":NLDFAuxiliaryPlan.eval_feat_exp", PMOD + ":NLDFAuxiliaryPlan.__init__"]
    # the exponent routine is under its own contract (C03/C07/C08): here it is an arbitrary array a(rho, sigma, tau)
    avars = sym_array("a", (NS,))

    def exponent_contract(interp, f, args, kwargs):
        return (avars.copy(), sym_array("dadn", (NS,)), sym_array("dads", (NS,)), sym_array("dadt", (NS,)))
    it.overrides[SMOD + ":get_cider_exponent"] = exponent_contract
    for formula in ("etb", "zexp"):
        hyps_f = list(hyps)
        plan = make_plan(it, stt, 1, nalpha=3, hyps=hyps_f, rhocut=RC, raise_large_expnt_error=True, alpha_formula=formula)
        alphas = [tm.lift(x) for x in it.getattr(plan, "alphas")]
        # the interpolation range is [alphas[0], alphas[-1]]: specification of the two layouts (docstring of NLDFAuxiliaryPlan.__init__)
        a0_, l_ = tm.var("alpha0"), tm.var("lambd")
        for j in range(3):
            want = a0_ * l_ ** j if formula == "etb" else a0_ * (l_ ** j - 1) / (l_ - 1)
            if formula == "zexp" and j == 0:
                continue          # clamped to a small positive number by get_q2a (documented there), not 0
            ctx.equal("plan[%s]: control exponent %d follows the documented formula" % (formula, j), hyps_f, alphas[j], want, fq)
        amax = alphas[0]
        for x_ in alphas[1:]:
            amax = tm.mk_max(amax, x_)          # the largest control exponent (for zexp the first one is clamped to 1e-10, so the last need not be the largest)
        for i in (-1, 0, 1):
            hy = hyps_f + [tm.mk_lt(RC, rho[1]), tm.mk_lt(amax, avars[1])]
            all_raise(ctx, "eval_feat_exp[%s, i=%d]: exponent above the largest control exponent at rho > rhocut raises RuntimeError" % (formula, i), it, hy,
                      lambda: it.call_method(plan, "eval_feat_exp", [(rho.copy(), sigma.copy(), tau.copy())], {"i": i}), fq, allowed=("RuntimeError",))
            # and conversely: all exponents within range => no error (the check is not over-eager)
            hy2 = hyps_f + [tm.mk_le(avars[g], amax) for g in range(NS)]
            it.hyps = list(hy2)
            ps = all_paths(it, lambda: it.call_method(plan, "eval_feat_exp", [(rho.copy(), sigma.copy(), tau.copy())], {"i": i}))
            okp = all(p[0] == "return" or smt.check_sat(hy2 + p[2], ctx.timeout)[0] == "unsat" for p in ps)
            ctx.holds("eval_feat_exp[%s, i=%d]: exponents within range are accepted" % (formula, i), okp, "", fq)
        # smooth cutoff: the saturation value handed to the C routine is the largest control exponent — of the WHOLE interpolation grid, also on a process that holds
        # only some of the exponents (proc_inds): the exponent, and with it every feature's scaling power, must not depend on how the grid is distributed
        for pinds in (None, [0, 1], [1]):
            kwp = {} if pinds is None else {"proc_inds": np.array(pinds)}
            lab = formula if pinds is None else "%s, proc_inds=%s" % (formula, pinds)
            seen = []
            libc = pm.ns["libcider"]
            try:
                plan_s = make_plan(it, stt, 1, nalpha=3, hyps=list(hyps), rhocut=RC, raise_large_expnt_error=False, alpha_formula=formula, use_smooth_expnt_cutoff=True, **kwp)
                it.externals["%s.smooth_cider_exponents" % libc.name] = lambda interp, a_ptr, d_ptr, amax_, n_, nd_: seen.append((amax_, n_, nd_))
                it.hyps = list(hyps_f)
                ps = all_paths(it, lambda: it.call_method(plan_s, "eval_feat_exp", [(rho.copy(), sigma.copy(), tau.copy())], {"i": 0}))
                val = seen[0][0] if seen else None
                ctx.holds("eval_feat_exp[%s]: smooth cutoff is called once per evaluation" % lab, len(seen) >= 1 and all(p[0] == "return" for p in ps), "%d calls" % len(seen), fq)
                if val is not None:
                    ctx.equal("eval_feat_exp[%s]: the smooth cutoff saturates at the largest control exponent" % lab, hyps_f, val, amax, fq, replay=replay_smooth_saturation(formula, pinds))
                    ctx.holds("eval_feat_exp[%s]: smooth cutoff gets the number of points and derivative arrays" % lab, seen[0][1] == NS and seen[0][2] == 3, "%r" % (seen[0][1],), fq)
            except (Unsupported, PyRaise) as e:
                ctx.undecided("eval_feat_exp[%s] smooth cutoff call modelled" % lab, str(e)[:200], fq)
            finally:
                it.externals.pop("%s.smooth_cider_exponents" % libc.name, None)
    del it.overrides[SMOD + ":get_cider_exponent"]
    for i in (2, -2, 7):
        all_raise(ctx, "eval_feat_exp feature index %d rejected" % i, it, hyps + [tm.mk_lt(RC, r) for r in rho], lambda: it.call_method(plan, "eval_feat_exp", [(rho.copy(), sigma.copy(), tau.copy())], {"i": i}), fq)
        all_raise(ctx, "get_interpolation_coefficients feature index %d rejected" % i, it, hyps, lambda: it.call_method(plan, "get_interpolation_coefficients", [rho.copy()], {"i": i}), fq)


def unit_reject_shapes(ctx):
    it = ctx.interp
    nm = it.load_module(NMOD)
    x = it.load_module(XMOD)
    L = nm.ns["FeatNormalizerList"]
    lst = it.call(L, [[None, None, None, it.call(nm.ns["ConstantNormalizer"], [Q(2)], {})], "nst"], {})
    fq = [NMOD + ":FeatNormalizerList._check_shape"]
    for shape, meth, args in (((4, NS), "get_normalized_feature_vector", 1), ((1, 3, NS), "get_normalized_feature_vector", 1), ((1, 5, NS), "get_normalized_feature_vector", 1),
                              ((1, 1, 4, NS), "get_normalized_feature_vector", 1), ((1, 3, NS), "get_derivative_wrt_unnormed_features", 2),
                              ((4, NS), "get_derivative_wrt_unnormed_features", 2), ((1, 4, NS), "get_derivative_of_normed_features", 2), ((5, NS), "get_derivative_of_normed_features", 2)):
        X = sym_array("X", shape)
        r = outcome(it, lambda: it.call_method(lst, meth, [X.copy()] * args))
        ctx.holds("normalizer-list.%s rejects shape %s" % (meth, shape), r == ("raise", "ValueError"), str(r[:2]), fq)
    X = sym_array("X", (1, 4, NS))
    G = sym_array("G", (1, 3, NS))
    r = outcome(it, lambda: it.call_method(lst, "get_derivative_wrt_unnormed_features", [X.copy(), G.copy()]))
    ctx.holds("normalizer-list rejects mismatched derivative array", r == ("raise", "ValueError"), str(r[:2]), fq)
    hy = [tm.mk_lt(tm.const(Q(1, 10 ** 10)), X[0, 0, g]) for g in range(NS)]
    it.hyps = hy
    ps = all_paths(it, lambda: it.call_method(lst, "get_normalized_feature_vector", [X.copy()]))
    ctx.holds("normalizer-list accepts the right shape", all(p[0] == "return" for p in ps), "", fq)
    r = outcome(it, lambda: it.call_method(lst, "__setitem__", [0, None]))
    ctx.holds("normalizer list is immutable", r == ("raise", "RuntimeError"), str(r[:2]), [NMOD + ":FeatNormalizerList.__setitem__"])
    # ModelWithNormalizer
    M = x.ns["ModelWithNormalizer"]
    from pyvc.interp import ClassV
    mc = ClassV("_Model", [], x)
    for nmodel in (3, 4, 5):
        mo = Obj(mc)
        mo.fields["nfeat"] = nmodel
        r = outcome(it, lambda: it.call(M, [mo, lst], {}))
        if nmodel == 4:
            ctx.holds("ModelWithNormalizer accepts equal sizes", r[0] == "ok", str(r[:2]), [XMOD + ":ModelWithNormalizer.__init__"])
        else:
            ctx.holds("ModelWithNormalizer rejects size %d vs 4" % nmodel, r == ("raise", "ValueError"), str(r[:2]), [XMOD + ":ModelWithNormalizer.__init__"])
    # MappedDFTKernel rejects non-evaluators
    from contracts.evalharness import abstract_feature_list
    fl = abstract_feature_list(it, 3, 2)
    for cls in ("MappedDFTKernel",):
        r = outcome(it, lambda: it.call(x.ns[cls], [[Obj(mc)], fl, "SEP", None], {}))
        ctx.holds("%s rejects a non-FuncEvaluator" % cls, r == ("raise", "ValueError"), str(r[:2]), [XMOD + ":%s.__init__" % cls])
    for mode in ("XYZ", None, ""):
        K = it.call(x.ns["MappedDFTKernel"], [[], fl, mode, None], {})
        r = outcome(it, lambda: it.call(K, [sym_array("X", (1, 3, NS))], {}))
        ctx.holds("MappedDFTKernel unknown mode %r is an error at evaluation" % (mode,), r[0] == "raise", str(r[:2]), [XMOD + ":KernelEvalBase.get_descriptors"])


# ------------------------------------------------------------------ wrapper => C memory-safety preconditions of the coefficient routines
C_COEF = "mod_cider/cider_coefs.c"
# array parameter -> extent (number of doubles) the routine may touch, as a function of its integer arguments (proved from the C source below)
C_EXTENTS = {
    "cider_coefs_gto_gq": {"p_ga": "ngrids*nalpha", "dp_ga": "ngrids*nalpha", "exp_g": "ngrids", "alphas": "nalpha"},
    "cider_coefs_gto_qg": {"p_ag": "ngrids*nalpha", "dp_ag": "ngrids*nalpha", "exp_g": "ngrids", "alphas": "nalpha"},
    "cider_coefs_vk1_gq": {"p_ga": "ngrids*nalpha", "dp_ga": "ngrids*nalpha", "exp_g": "ngrids", "alphas": "nalpha"},
    "cider_coefs_vk1_qg": {"p_ag": "ngrids*nalpha", "dp_ag": "ngrids*nalpha", "exp_g": "ngrids", "alphas": "nalpha"},
    "cider_coefs_spline_gq": {"p_ga": "ngrids*nalpha", "dp_ga": "ngrids*nalpha", "di_g": "ngrids"},
    "cider_coefs_spline_qg": {"p_ag": "ngrids*nalpha", "dp_ag": "ngrids*nalpha", "di_g": "ngrids"},
    "cider_ind_etb": {"di_g": "ngrids", "derivi_g": "ngrids", "exp_g": "ngrids"},
    "cider_ind_zexp": {"di_g": "ngrids", "derivi_g": "ngrids", "exp_g": "ngrids"},
    "cider_ind_clip": {"di_g": "ngrids", "derivi_g": "ngrids"},
}


def unit_c_extents(ctx):
    """C side: every access of the coefficient routines to a parameter array lies in [0, extent(int arguments))  (all sizes, engine C)."""
    from cvc import cparse
    from cvc.csym import CSym, CUnsupported
    from contracts import c10
    from pyvc import intarith
    tu = cparse.load(C_COEF)
    for fn, ext in sorted(C_EXTENTS.items()):
        fq = ["lib/%s:%s" % (C_COEF, fn)]
        cases = [None] if "gto" not in fn else [0, 1, 2, 3]
        for fid in cases:
            s = CSym([tu], footprint=True)
            args = {p: c10.mk_value(tu, ty, p) for p, ty in tu.params(fn)}
            if fid is not None:
                args["featid"] = fid
            s.hyps = c10.nonneg_hyps(args)
            try:
                s.run(fn, args)
            except CUnsupported as e:
                ctx.undecided("%s access summary" % fn, str(e)[:200], fq)
                continue
            env = {k: v for k, v in args.items() if isinstance(v, tm.T)}
            assumes = [x[1] for x in s.side if x[0] == "assume"]
            seen = set()
            for e in s.events:
                if e.arr.name not in ext or (e.arr.name, e.kind, e.idx.id) in seen:
                    continue
                seen.add((e.arr.name, e.kind, e.idx.id))
                extent = eval(ext[e.arr.name], {}, env)
                rng = [c for (qv, lo, hi, st) in e.qvars for c in (tm.mk_le(tm.lift(lo), qv), tm.mk_lt(qv, tm.lift(hi)))]
                H = list(s.hyps) + assumes + rng + list(e.guards)
                r_, m_, be = intarith.check_sat_int(H + [tm.mk_not(tm.mk_and(tm.mk_le(tm.ZERO, e.idx), tm.mk_lt(e.idx, extent)))], 10.0)
                name = "%s%s: %s of %s[%s] stays inside [0, %s)" % (fn, "" if fid is None else "[featid=%d]" % fid, "write" if e.kind == "w" else "read", e.arr.name, tm.show(e.idx, 40), ext[e.arr.name])
                ctx._rec("obligation", name, vc.Verdict("discharged" if r_ == "unsat" else "refuted" if r_ == "sat" else "undecided", be, witness=m_ if r_ == "sat" else None), fq)
            touched = set(e.arr.name for e in s.events)
            ctx.holds("%s%s: every array parameter with a declared extent is accessed (the table is not vacuous)" % (fn, "" if fid is None else "[featid=%d]" % fid),
                      all(a in touched for a in ext), "untouched: %s" % [a for a in ext if a not in touched], fq)


def unit_coef_wrappers(ctx):
    """Python side: each accepted call of a plan's coefficient wrappers hands the C routine arrays at least as large as the extents above."""
    it = ctx.interp
    m = it.load_module(SMOD)
    pm = it.load_module(PMOD)
    libc = pm.ns["libcider"]
    from cvc import cparse
    tu = cparse.load(C_COEF)
    seen = []
    for fn in C_EXTENTS:
        it.externals["%s.%s" % (libc.name, fn)] = (lambda name: (lambda interp, *a: seen.append((name,) + a)))(fn)

    def check_calls(tag, fq, replay=None):
        ctx.holds("%s: reaches a C coefficient routine" % tag, len(seen) > 0, "", fq)
        for call in seen:
            fn, cargs = call[0], call[1:]
            params = [p for p, ty in tu.params(fn)]
            env = {}
            sizes = {}
            for pn, v in zip(params, cargs):
                if hasattr(v, "arr"):
                    sizes[pn] = int(np.asarray(v.arr).size)
                elif isinstance(v, (int, np.integer)):
                    env[pn] = int(v)
            for an, ex in C_EXTENTS[fn].items():
                need = eval(ex, {}, env)
                ctx.holds("%s: %s receives %s with at least %s = %d elements" % (tag, fn, an, ex, need), sizes.get(an, -1) >= need,
                          "array has %s elements, the routine touches %d (ngrids=%s, nalpha=%s)" % (sizes.get(an), need, env.get("ngrids"), env.get("nalpha")), fq, replay=replay)
        del seen[:]
    for version in ("j", "k"):
        for order in ("gq", "qg"):
            for pinds in (None, [0], [1]):
                hyps = []
                stt = make_settings(it, version, "MGGA", "one", hyps)
                RC = tm.var("rhocut")
                hyps.append(tm.mk_lt(tm.ZERO, RC))
                install_coef_contract(it, 2)       # plan set-up only; the wrappers under test run their real bodies
                plan = make_plan(it, stt, 1, nalpha=2, hyps=hyps, rhocut=RC, coef_order=order, proc_inds=pinds)
                del it.overrides[PMOD + ":_get_ovlp_fit_interpolation_coefficients"]
                it.hyps = list(hyps)
                arg = sym_array("a", (3,))
                for i in (-1, 0, 1):
                    tag = "plan[v%s,%s,proc_inds=%s].get_interpolation_coefficients(i=%d)" % (version, order, pinds, i)
                    fq = [PMOD + ":NLDFAuxiliaryPlan.get_interpolation_coefficients", PMOD + ":_get_ovlp_fit_interpolation_coefficients", PMOD + ":NLDFAuxiliaryPlan.empty_coefs"]
                    del seen[:]
                    try:
                        it.call_method(plan, "get_interpolation_coefficients", [arg.copy()], {"i": i})
                    except (Unsupported, PyRaise) as e:
                        ctx.undecided("%s runs" % tag, str(e)[:200], fq)
                        continue
                    check_calls(tag, fq, replay=replay_coef_wrapper(version, order, pinds, i))
    for fn in C_EXTENTS:
        it.externals.pop("%s.%s" % (libc.name, fn), None)


def replay_coef_wrapper(version, order, pinds, i):
    def replay(wit):
        from pyvc import native
        native.install_shim()
        import ctypes
        import ciderpress.dft.plans as P
        from ciderpress.dft.settings import NLDFSettingsVJ, NLDFSettingsVK
        th = [1.0, 0.0, 0.03125]
        fps = [[2.0, 0.0, 0.04], [1.5, 0.0, 0.02]]
        st = NLDFSettingsVK("MGGA", th, "one", fps, "exponential") if version == "k" else NLDFSettingsVJ("MGGA", th, "one", ["se", "se_ar2"], fps)
        plan = P.NLDFGaussianPlan(st, 1, 0.01, 1.8, 4, coef_order=order, proc_inds=None if pinds is None else list(pinds))
        rec = []

        class Spy(object):
            """stands in for the loaded C library during one call: records the sizes handed over instead of running C (which would write out of bounds)"""
            def __getattr__(self, name):
                def f(*a):
                    rec.append((name, [getattr(x, "value", None) for x in a]))
                return f
        real = P.libcider
        arg = np.linspace(0.1, 1.0, 5)
        made = []
        orig_ndarray = np.ndarray
        P.libcider = Spy()
        try:
            p, dp = plan.get_interpolation_coefficients(arg, i=i)
        finally:
            P.libcider = real
        if not rec:
            return {"reproduced": None, "note": "no C call recorded"}
        name, vals = rec[-1]
        ints = [v for v in vals if isinstance(v, int) and not isinstance(v, bool)]
        # vals: pointers (large ints) then ngrids, nalpha (small ints)
        small = [v for v in ints if v < 10 ** 6]
        ngrids, nalpha = small[0], small[1]
        return {"reproduced": bool(p.size < ngrids * nalpha), "routine": name, "array_elements": int(p.size), "ngrids_passed": ngrids, "nalpha_passed": nalpha,
                "elements_the_routine_writes": ngrids * nalpha, "local_nalpha": int(plan.local_nalpha)}
    return replay


# ------------------------------------------------------------------ the column requirements of the l+1 steps, established at their Python call sites
def unit_l1_wrappers(ctx):
    """C05 / C10 verify add_lp1_* under the requires 'four distinct columns ig, ix, iy, iz in [0, nf)' (and rows of length nf).  Here the real
    wrappers of LCAOInterpolator(Direct) are executed up to the ctypes call, with n0 symbolic, and that requires clause is proved for what they pass."""
    from pyvc.interp import ClassV
    IMOD_ = "ciderpress.dft.lcao_interpolation"
    it = ctx.interp
    im = it.load_module(IMOD_)
    libc = im.ns["libcider"]
    seen = []
    fns = ("add_lp1_term_fwd", "add_lp1_term_bwd", "add_lp1_term_grad", "add_lp1_onsite_new_fwd", "add_lp1_onsite_new_bwd")
    for fn in fns:
        it.externals["%s.%s" % (libc.name, fn)] = (lambda name: (lambda interp, *a: seen.append((name,) + a)))(fn)
    n0 = tm.var("n0", "I")
    H = [tm.mk_le(tm.ZERO, n0)]
    it.hyps = list(H)
    ctx.assume("l1 wrappers: proved for every n0 >= 0 and for n1 = 1 .. 4 separately (the loop over range(n1) is executed, not summarised)")
    ng = 3
    for clsname in ("LCAOInterpolator", "LCAOInterpolatorDirect"):
        cls = im.ns[clsname]
        for n1 in (1, 2, 3, 4):
            o = Obj(cls)
            mk = lambda name, **f: (lambda x: (x.fields.update(f), x)[1])(Obj(ClassV(name, [], im)))
            gi = mk("_GI", iatom_list=np.zeros(ng, dtype=int), rad_arr=sym_array("rad", (2,)), rad_loc=np.array([0, 1, ng]), nrad=2, dirs=sym_array("dirs", (2, 3)), ylm_loc=np.array([0, 1]))
            o.fields.update({"_n0": n0, "_n1": n1, "all_coords": sym_array("xyz", (ng, 3)), "atco": mk("_ATCO", natm=2), "grids_indexer": gi})
            try:
                nout = it.getattr(o, "num_out")
            except (Unsupported, PyRaise) as e:
                ctx.undecided("%s.num_out" % clsname, str(e)[:200], [IMOD_ + ":%s.num_out" % clsname])
                continue
            # callers hand over arrays with num_out columns (project_orb2grid / project_grid2orb allocate (ngrids, num_out)); concrete width for the model
            # of the array, the column arithmetic stays symbolic in n0
            f_gq = sym_array("f", (ng, 4))
            calls = [("_call_l1_fill", [f_gq, sym_array("ac", (3,)), True]), ("_call_l1_fill", [f_gq, sym_array("ac", (3,)), False]),
                     ("_call_l1_fill_grad", [sym_array("ex", (2, 3)), f_gq, f_gq.copy(), 0])]
            if clsname == "LCAOInterpolatorDirect":
                calls += [("_run_onsite_lp1", [f_gq, True]), ("_run_onsite_lp1", [f_gq, False])]
            for meth, args in calls:
                del seen[:]
                fq = [IMOD_ + ":%s.%s" % (clsname if meth == "_run_onsite_lp1" else "LCAOInterpolator", meth), IMOD_ + ":LCAOInterpolator.num_out"]
                tag = "%s.%s[n1=%d%s]" % (clsname, meth, n1, "" if len(args) < 3 or not isinstance(args[-1], bool) else ",fwd=%s" % args[-1])
                try:
                    it.call_method(o, meth, list(args))
                except (Unsupported, PyRaise) as e:
                    ctx.undecided("%s runs" % tag, str(e)[:200], fq)
                    continue
                ctx.holds("%s: one C call per l=1 feature" % tag, len(seen) == n1, "%d calls" % len(seen), fq)
                for k, call in enumerate(seen):
                    ints = [tm.lift(x) for x in call[1:] if isinstance(x, (int, np.integer)) or (isinstance(x, tm.T))]
                    # the last five scalar arguments are (ig, ix, iy, iz, nf) for the add_lp1_term family, (nf, ig, ix, iy, iz) for the onsite family
                    if call[0].startswith("add_lp1_onsite"):
                        nf_, ig_, ix_, iy_, iz_ = ints[-5:]
                    else:
                        ig_, ix_, iy_, iz_, nf_ = ints[-5:]
                    # nf handed over is the width of the array model; the requirement is stated against the interpolator's own width num_out
                    cols = {"ig": ig_, "ix": ix_, "iy": iy_, "iz": iz_}
                    for cn, cv in cols.items():
                        ctx.valid("%s call %d: column %s lies in [0, num_out)" % (tag, k, cn), H, tm.mk_and(tm.mk_le(tm.ZERO, cv), tm.mk_lt(cv, tm.lift(nout))), fq)
                    names = list(cols)
                    for a_ in range(4):
                        for b_ in range(a_ + 1, 4):
                            ctx.valid("%s call %d: columns %s and %s are distinct" % (tag, k, names[a_], names[b_]), H, tm.mk_not(tm.mk_eq(cols[names[a_]], cols[names[b_]])), fq)
                    ctx.holds("%s call %d: row length handed over is the width of the array" % (tag, k), nf_ is tm.lift(f_gq.shape[1]) or nf_ == tm.lift(f_gq.shape[1]), "%s" % (nf_,), fq)
    ctx.canary_valid("l1 wrappers canary (ig would coincide with ix for a too narrow array)", H, tm.mk_lt(n0 + 3, n0 + 3))
    for fn in fns:
        it.externals.pop("%s.%s" % (libc.name, fn), None)


def unit_angc_wrapper(ctx):
    """AtomicGridsIndexer.reduce_angc_ylm_: every accepted call satisfies the window requires of reduce_angc_to_ylm / reduce_ylm_to_angc that C05 / C10
    assume (0 <= offset, offset + nalpha <= stride) and hands over arrays of the sizes the C routines address."""
    from pyvc.interp import ClassV
    GMOD_ = "ciderpress.dft.grids_indexer"
    it = ctx.interp
    gm = it.load_module(GMOD_)
    libc = gm.ns["libcider"]
    seen = []
    for fn in ("reduce_angc_to_ylm", "reduce_ylm_to_angc"):
        it.externals["%s.%s" % (libc.name, fn)] = (lambda name: (lambda interp, *a: seen.append((name,) + a)))(fn)
    fq = [GMOD_ + ":AtomicGridsIndexer.reduce_angc_ylm_"]
    nrad, nlm, nalpha, stride, ngr = 2, 4, 2, 5, 3
    ix = Obj(gm.ns["AtomicGridsIndexer"])
    ix.fields.update({"nlm": nlm, "rad_arr": sym_array("rad", (nrad,)), "ylm": sym_array("ylm", (2, nlm)), "rad_loc": np.array([0, 1, ngr]), "ylm_loc": np.array([0, 1]),
                      "all_weights": sym_array("w", (ngr,))})
    off = tm.var("offset", "I")
    for a2y in (True, False):
        del seen[:]
        it.hyps = []
        ps = all_paths(it, lambda: it.call_method(ix, "reduce_angc_ylm_", [sym_array("t", (nrad, nlm, nalpha)), sym_array("g", (ngr, stride))], {"a2y": a2y, "offset": off}))
        acc = [p for p in ps if p[0] == "return"]
        ctx.holds("reduce_angc_ylm_[a2y=%s]: some offsets are accepted and some rejected" % a2y, len(acc) >= 1 and len(ps) > len(acc), "%d / %d paths" % (len(acc), len(ps)), fq)
        for k, (o, v, pc, _) in enumerate(acc):
            ctx.valid("reduce_angc_ylm_[a2y=%s]: an accepted offset is non-negative (the C routine addresses theta_gq + offset)#%d" % (a2y, k), list(pc), tm.mk_le(tm.ZERO, off), fq,
                      replay=replay_angc_offset())
            ctx.valid("reduce_angc_ylm_[a2y=%s]: an accepted window fits the row (offset + nalpha <= stride)#%d" % (a2y, k), list(pc), tm.mk_le(off + nalpha, tm.const(stride)), fq)
    for fn in ("reduce_angc_to_ylm", "reduce_ylm_to_angc"):
        it.externals.pop("%s.%s" % (libc.name, fn), None)


def replay_angc_offset():
    def replay(wit):
        from pyvc import native
        native.install_shim()
        import ciderpress.dft.grids_indexer as G
        rec = []

        class Spy(object):
            def __getattr__(self, name):
                return lambda *a: rec.append((name, [getattr(x, "value", None) for x in a]))
        nrad, nlm, nalpha, stride, ngr = 2, 4, 2, 5, 3
        ix = G.AtomicGridsIndexer(1, 1, np.ones(nrad), np.zeros(nrad, dtype=np.int32), np.array([0, nrad], dtype=np.int32), np.array([0, 1, ngr], dtype=np.int32),
                                  np.ones((2, nlm)), np.array([0, 1], dtype=np.int32))
        ix.set_weights(np.ones(ngr))
        real = G.libcider
        G.libcider = Spy()
        try:
            try:
                ix.reduce_angc_ylm_(np.zeros((nrad, nlm, nalpha)), np.zeros((ngr, stride)), a2y=True, offset=-1)
                accepted = True
            except AssertionError:
                accepted = False
        finally:
            G.libcider = real
        return {"reproduced": bool(accepted), "offset": -1, "accepted_and_passed_to_C": accepted, "note": "the C routine would address theta_gq - 1"}
    return replay


def unit_ind_clip_nan(ctx):
    """cider_ind_clip is the last stage before the spline index is cast to an int and used to address the coefficient table.  The index routines before it take
    log(a / alpha0 + 1): for exponent parameters the settings accept (a0 small against tau_mul) the raw exponent of a low-tau point is negative and the index is NaN.
    ensures, for EVERY element including NaN: after the call 0 <= di_g[g] < sizem1 — in IEEE arithmetic every ordered comparison with NaN is false, so a NaN
    element has to be caught by the way the comparisons are written.  Decided by executing the C routine with the element = NaN under exactly that rule
    (comparisons involving NaN are concretely false, != true; arithmetic propagates NaN): the value finally stored in di_g[g] and derivi_g[g] is NaN-free."""
    from cvc import cparse
    from cvc.csym import CSym, Arr, Ptr, CUnsupported
    rel = "mod_cider/cider_coefs.c"
    fq = ["lib/%s:cider_ind_clip" % rel]
    NAN = tm.var("NaN")
    has_nan = lambda v: isinstance(v, tm.T) and NAN in tm.subterms(v).values()

    class NanSym(CSym):
        def read(self, p):
            v = CSym.read(self, p)
            if isinstance(v, tm.T) and v.op == "f" and v.args[0] == "rd:di_g":
                return NAN
            return v

        def arith(self, op, a, b, int_div=False):
            if op in ("<", "<=", ">", ">=", "==", "!=") and (has_nan(a) or has_nan(b)):
                return 1 if op == "!=" else 0
            return CSym.arith(self, op, a, b, int_div)
    tu = cparse.load(rel)
    sy = NanSym([tu])
    sizem1 = tm.var("sizem1", "I")
    sy.hyps = [tm.mk_lt(tm.ONE, sizem1)]
    try:
        sy.run("cider_ind_clip", dict(di_g=Ptr(Arr("di_g")), derivi_g=Ptr(Arr("derivi_g")), sizem1=sizem1, ngrids=tm.var("ngrids", "I")))
    except CUnsupported as e:
        ctx.undecided("cider_ind_clip under the NaN rule summarised", str(e)[:200], fq)
        return
    ctx.assume("IEEE rule used: an ordered comparison one of whose operands is NaN is false (!= is true); arithmetic on NaN gives NaN; (int)NaN is an arbitrary int")
    for arr in ("di_g", "derivi_g"):
        ws = [e for e in sy.events if e.kind == "w" and e.arr.name == arr]
        # the stores that are executed for a NaN element: those whose guards are the loop range only
        loopg = lambda e: [g for g in e.guards if not any(g is c_ for q in e.qvars for c_ in (tm.mk_le(tm.lift(q[1]), q[0]), tm.mk_lt(q[0], tm.lift(q[2]))))]
        uncond = [e for e in ws if not loopg(e)]
        last = uncond[-1] if uncond else None
        ok = last is not None and last.op == "=" and not has_nan(tm.lift(last.val))
        ctx.holds("cider_ind_clip: a NaN element of di_g leaves %s[g] with a NaN-free value" % arr, ok,
                  "no store reaches the element when every comparison with it is false" if last is None else "the value stored last is %s" % tm.show(tm.lift(last.val), 60), fq,
                  witness={"di_g[g]": "NaN"}, replay=replay_ind_clip_nan())
    # with a finite element the routine clips into [0, sizem1): value contract in real arithmetic is C02's (cider_ind_clip unit)


def replay_ind_clip_nan():
    def replay(wit):
        import ctypes
        from pyvc import native
        lib = ctypes.CDLL(native.build_libs() + "/libmcider.so")
        di = np.array([np.nan, -1.0, 0.5, 7.0, 100.0])
        dd = np.ones_like(di)
        lib.cider_ind_clip(di.ctypes.data_as(ctypes.c_void_p), dd.ctypes.data_as(ctypes.c_void_p), ctypes.c_int(8), ctypes.c_int(di.size))
        bad = bool(np.any(~np.isfinite(di)) or np.any(di < 0) or np.any(di >= 8))
        return {"reproduced": bad, "di_g_after": [float(x) if np.isfinite(x) else str(x) for x in di], "sizem1": 8}
    return replay


def unit_plan_new_guard(ctx):
    """NLDFAuxiliaryPlan.new(**kwargs): a plan derived from a plan that handles out-of-range exponents (by raising, or by the smooth cutoff) handles them
    too — it raises or damps — unless the caller of new() switches the handling off explicitly.  (The constructor clears the raise flag of a smooth-cutoff
    plan, so neither stored flag may be copied without the other.)"""
    it = ctx.interp
    PM = "ciderpress.dft.plans"
    fq = [PM + ":NLDFAuxiliaryPlan.new", PM + ":NLDFAuxiliaryPlan.__init__"]
    hyps = []
    st = make_settings(it, "j", "MGGA", "one", hyps)
    for raise_, smooth in ((True, False), (False, True), (True, True)):
        p = make_plan(it, st, 1, nalpha=2, hyps=list(hyps), raise_large_expnt_error=raise_, use_smooth_expnt_cutoff=smooth)
        handled = lambda q: bool(q.fields["_raise_large_expnt_error"]) or bool(q.fields["_use_smooth_expnt_cutoff"])
        ctx.holds("plan(raise=%s, smooth=%s) handles out-of-range exponents" % (raise_, smooth), handled(p), "", fq)
        for label, kw in (("new()", {}), ("new(coef_order='qg')", {"coef_order": "qg"}), ("new(use_smooth_expnt_cutoff=True)", {"use_smooth_expnt_cutoff": True}),
                          # turning the damping off is not turning the error off: the derived plan must then raise
                          ("new(use_smooth_expnt_cutoff=False)", {"use_smooth_expnt_cutoff": False}), ("new().new()", None)):
            try:
                q = it.call_method(it.call_method(p, "new", [], {}), "new", [], {}) if kw is None else it.call_method(p, "new", [], dict(kw))
            except (PyRaise, Unsupported) as e:
                ctx.undecided("plan(raise=%s, smooth=%s).%s runs" % (raise_, smooth, label), str(e)[:200], fq)
                continue
            ctx.holds("plan(raise=%s, smooth=%s).%s: the derived plan raises on an out-of-range exponent or applies the smooth cutoff" % (raise_, smooth, label), handled(q),
                      "_raise_large_expnt_error=%s, _use_smooth_expnt_cutoff=%s" % (q.fields["_raise_large_expnt_error"], q.fields["_use_smooth_expnt_cutoff"]), fq,
                      witness={"raise_large_expnt_error": raise_, "use_smooth_expnt_cutoff": smooth, "call": label}, replay=replay_plan_new_guard(raise_, smooth, kw))


def replay_plan_new_guard(raise_, smooth, kw=None):
    def replay(wit):
        from pyvc import native
        native.install_shim()
        from ciderpress.dft.settings import NLDFSettingsVJ
        from ciderpress.dft.plans import NLDFGaussianPlan
        st = NLDFSettingsVJ("MGGA", [1.0, 0.0, 0.03125], "one", ["se_ar2"], [[2.0, 0.0, 0.04]])
        p = NLDFGaussianPlan(st, 1, 0.01, 1.8, 8, raise_large_expnt_error=raise_, use_smooth_expnt_cutoff=smooth)
        q = p.new().new() if kw is None else p.new(**kw)
        amax = float(np.max(q.alphas))
        rho = np.array([1e4])
        z = np.array([0.0])
        try:
            a = q.eval_feat_exp((rho, z, z), i=-1)[0]
        except RuntimeError as e:
            return {"reproduced": False, "raised": str(e)[:80]}
        return {"reproduced": bool(a[0] > amax), "exponent": float(a[0]), "alpha_max": amax}
    return replay


def unit_evaluator_shapes(kind):
    """RBFEvaluator / AntisymRBFEvaluator / SpinRBFEvaluator.__call__ with a feature matrix whose width does not match the kernel: for every such call the
    evaluator raises, or what it hands to the C kernel still satisfies the kernel's extents (C contract of contracts/ckernels.py: xin holds n * nfeat
    doubles per spin channel, outd likewise) — a mismatched shape never reaches C as an under-sized buffer."""
    def run(ctx):
        from contracts import c11
        from contracts.kernelcommon import setup_interp, obj_list, pos, returned, SK_ASSUMPTION
        it = ctx.interp
        mod = setup_interp(it)
        ctx.assume(SK_ASSUMPTION)
        x = it.load_module(c11.XMOD)
        cname = {"rbf": "RBFEvaluator", "antisym": "AntisymRBFEvaluator", "spin": "SpinRBFEvaluator"}[kind]
        fname = {"rbf": "evaluate_se_kernel", "antisym": "evaluate_se_kernel_antisym", "spin": "evaluate_se_kernel_spin"}[kind]
        E = x.ns[cname]
        fn_opaque, _ = E.lookup("_fn")
        log = []
        it.externals[fn_opaque.name] = c11.c_se_contract(fname, log)
        fq = ["%s:%s.__init__" % (c11.XMOD, cname), "%s:%s.__call__" % (c11.XMOD, cname), "%s:RBFEvaluator.__init__" % c11.XMOD, "%s:RBFEvaluator.__call__" % c11.XMOD]
        nctrl, ng, nl = 2, 2, 3
        lv = [tm.var("l%d" % f) for f in range(nl)]
        c = tm.var("c0")
        it.hyps = [pos(v) for v in lv] + [pos(c)]
        ck = lambda k2: it.call_method(it.call(mod.ns["DiffConstantKernel"], [c], {}), "__mul__", [k2])
        configs = []
        if kind == "antisym":
            configs.append(("DiffAntisymRBF", lambda: it.call(mod.ns["DiffAntisymRBF"], [], {"length_scale": obj_list(lv)}), nl + 1))
        else:
            configs.append(("DiffRBF", lambda: it.call(mod.ns["DiffRBF"], [], {"length_scale": obj_list(lv)}), nl))
            configs.append(("c*DiffRBF", lambda: ck(it.call(mod.ns["DiffRBF"], [], {"length_scale": obj_list(lv)})), nl))
            if kind == "rbf":
                configs.append(("c*SubsetRBF[slice(1,3)]", lambda: ck(it.call(mod.ns["SubsetRBF"], [slice(1, 3, None)], {"length_scale": obj_list(lv[:2])})), 4))
                configs.append(("c*SubsetRBF[list[2,0]]", lambda: ck(it.call(mod.ns["SubsetRBF"], [[2, 0]], {"length_scale": obj_list(lv[:2])})), 3))
        for label, mk, nfeat in configs:
            kern = mk()
            Xc = sym_array("c", (2, nctrl, nfeat) if kind == "spin" else (nctrl, nfeat))
            alpha = sym_array("a", (nctrl,))
            try:
                ev = it.call(E, [kern, Xc.copy(), alpha.copy()], {})
            except (PyRaise, Unsupported) as e:
                ctx.undecided("%s[%s] constructed" % (cname, label), str(e)[:200], fq)
                continue
            for width in (nfeat - 1, nfeat - 2, nfeat + 1):
                if width < 1:
                    continue
                X1 = sym_array("x", (2, ng, width) if kind == "spin" else (ng, width))
                del log[:]
                name = "%s[%s] called with %d feature columns instead of %d: raises, or the arrays handed to C satisfy the kernel's extents" % (cname, label, width, nfeat)
                try:
                    cp = all_paths(it, lambda: it.call(ev, [X1.copy()], {}))
                except c11.CPrecondition as e:
                    ctx.holds(name, False, str(e)[:300], fq, witness={"kind": kind, "kernel": label, "width": width, "nfeat": nfeat}, replay=replay_evaluator_width(kind, label, width - nfeat))
                    continue
                ok = all(o != "return" or all(e[2] >= e[3] for e in log if e[0] == "extent") for o, v, pc, _ in cp)
                ctx.holds(name, ok, "%s" % [(p[0], str(p[1])[:80]) for p in cp][:3], fq)
    return run


def replay_evaluator_width(kind, label, dwidth):
    """Native: does the evaluator accept the mis-shaped matrix and reach the C entry point with it (the C routine itself is replaced by a spy)?"""
    def replay(wit):
        from pyvc import native
        native.install_shim()
        import ciderpress.models.kernels as K
        import ciderpress.dft.xc_evaluator as X
        rng = np.random.RandomState(4)
        nl, nctrl, ng = 3, 4, 5
        if "Subset" in label:
            return {"reproduced": None, "note": "native replay implemented for the plain kernels"}
        calls = []

        class Spy(object):
            def __call__(self, *a):
                calls.append(a)
        if kind == "antisym":
            ev = X.AntisymRBFEvaluator(K.DiffAntisymRBF(length_scale=rng.rand(nl) + 0.5), rng.rand(nctrl, nl + 1), rng.rand(nctrl))
            Xs = rng.rand(ng, nl + 1 + dwidth)
        elif kind == "spin":
            ev = X.SpinRBFEvaluator(K.DiffRBF(length_scale=rng.rand(nl) + 0.5), rng.rand(2, nctrl, nl), rng.rand(nctrl))
            Xs = rng.rand(2, ng, nl + dwidth)
        else:
            ev = X.RBFEvaluator(K.DiffRBF(length_scale=rng.rand(nl) + 0.5), rng.rand(nctrl, nl), rng.rand(nctrl))
            Xs = rng.rand(ng, nl + dwidth)
        ev._fn = Spy()
        raised = None
        try:
            ev(Xs)
        except Exception as e:
            raised = "%s: %s" % (type(e).__name__, str(e)[:100])
        # the violation is reaching the C entry point with the mis-shaped matrix — an exception raised only AFTER the C routine has run does not undo the
        # out-of-bounds access
        nfeat_c = calls[0][8].value if calls else None
        return {"reproduced": bool(calls), "accepted_width": int(Xs.shape[-1]), "nfeat_passed_to_C": nfeat_c, "raised_afterwards" if calls else "raised": raised}
    return replay


def units():
    u = [("semilocal", unit_semilocal), ("other-lengths", unit_other_lengths), ("feature-settings", unit_feature_settings),
         ("reject-params", unit_reject_params), ("reject-plans", unit_reject_plans), ("reject-shapes", unit_reject_shapes),
         ("c-extents", unit_c_extents), ("coef-wrappers", unit_coef_wrappers), ("l1-wrappers", unit_l1_wrappers), ("angc-wrapper", unit_angc_wrapper)]
    for v in ("i", "j", "ij", "k"):
        u.append(("nldf-lengths/" + v, unit_nldf_lengths(v)))
    u.append(("plan-new-guard", unit_plan_new_guard))
    u.append(("ind-clip-nan", unit_ind_clip_nan))
    for kind in ("rbf", "antisym", "spin"):
        u.append(("evaluator-shapes/" + kind, unit_evaluator_shapes(kind)))
    return u


EXPLANATION = (
    "Python part of the property.  Rejection clauses are proved on all paths with the offending value symbolic (non-positive or negative exponent "
    "parameters, dot indices outside [-1, nl1), alpha0 <= 0, lambd <= 1, negative cutoffs) or enumerated over representatives of every comparison "
    "in the validator (strings, counts, types); an exponent above the interpolation range at a point above rhocut is proved to reach RuntimeError.  "
    "Length agreement nfeat = len(usps) = len(ueg) = len(normalisers) and FeatureSettings offsets/order are checked by exhaustive enumeration of "
    "constructor arguments with list lengths up to 2 — a bounded stand-in (labelled, not counted as proved) because the engine has no symbolic-length lists.  "
    "Wrapper-implies-C-precondition (memory safety of accepted calls) is the C engine's part.")
TRUSTED = [
    "A4 Python semantics of pyvc.interp; numeric parameters of the enumerated settings objects are fixed rationals (lengths do not depend on them)",
    "bounded: " + BOUND,
    "plans' numerical set-up after argument validation (cholesky etc.) is not executed: the rejection obligations end at the raise",
]

if __name__ == "__main__":
    sys.exit(run_property("C18", "other", units(), EXPLANATION, TRUSTED, min_obligations=150))
